#!/bin/bash
# usage: confirmseed.sh <outdir containing patch.diff, meta.json, demo>  -- confirms a seeded change in /tmp/mutrepo:
# demo passes without the patch, fails with it; build ok; tests of touched packages and the root package pass with it.
set -u
export GOFLAGS=-mod=mod GOPROXY=off GOSUMDB=off GOTOOLCHAIN=local
D=$1; W=${MUTW:-/tmp/mutrepo2}; [ -d $W ] || git -C /repo worktree add -q --detach $W HEAD
git -C $W checkout -q --detach $(git -C /repo rev-parse HEAD) && git -C $W checkout -q -- . && git -C $W clean -fdq
place=$(python3 -c "import json;print(json.load(open('$D/meta.json'))['demo']['place_at'].split()[0])")
run=$(python3 -c "import json;print(json.load(open('$D/meta.json'))['demo']['run'])")
pkgs=$(python3 -c "
import json,os
m=json.load(open('$D/meta.json'))
ps=sorted({'./'+os.path.dirname(f) if os.path.dirname(f) else '.' for f in m['files_touched']})
print(' '.join(ps))")
demo=$(ls $D/demo_test.go $D/demo/main.go 2>/dev/null | head -1)
mkdir -p $W/$(dirname $place); cp $demo $W/$place
echo "== demo without patch"; (cd $W && eval "$run" 2>&1 | tail -3); r0=${PIPESTATUS[0]}
git -C $W apply $D/patch.diff || { echo "PATCH DOES NOT APPLY"; exit 2; }
echo "== build with patch"; (cd $W && go build ./... 2>&1 | tail -3)
echo "== demo with patch"; (cd $W && eval "$run" 2>&1 | tail -4)
rm -f $W/$place
[ -n "${DEMOONLY:-}" ] || { echo "== tests with patch: $pkgs ."; (cd $W && go test -count=1 $pkgs . 2>&1 | tail -6)
if echo "$pkgs" | grep -q "internal/engine"; then echo "== engine integration tests"; (cd $W && go test -count=1 ./internal/integration_test/engine/ 2>&1 | tail -2); fi; }
git -C $W checkout -q -- . ; git -C $W clean -fdq
