package main

import (
	"context"
	"fmt"

	"github.com/tetratelabs/wazero"
	"github.com/tetratelabs/wazero/experimental"
	"verifharness/wasmb"
)

func main() {
	ctx := context.Background()
	m := &wasmb.Module{}
	c := &wasmb.Code{}
	c.I32Const(1)
	m.AddFunc(nil, []wasmb.ValType{wasmb.I32}, nil, c.B, "one")
	rt := wazero.NewRuntimeWithConfig(ctx, wazero.NewRuntimeConfigInterpreter())
	cm, _ := rt.CompileModule(ctx, m.Encode())
	var cnts [3]int
	for i := 0; i < 3; i++ {
		i := i
		nctx := experimental.WithCloseNotifier(ctx, experimental.CloseNotifyFunc(func(context.Context, uint32) { cnts[i]++ }))
		_, err := rt.InstantiateModule(nctx, cm, wazero.NewModuleConfig().WithName(""))
		fmt.Println(err)
	}
	rt.Close(ctx)
	fmt.Println(cnts)
}
