package main

import (
	"context"
	"fmt"
	"os"
	"strings"

	"github.com/tetratelabs/wazero"
	"github.com/tetratelabs/wazero/api"
	"github.com/tetratelabs/wazero/experimental"
	"github.com/tetratelabs/wazero/imports/wasi_snapshot_preview1"

	"verifharness/plan"
)

type lf struct{}

func (lf) NewFunctionListener(def api.FunctionDefinition) experimental.FunctionListener { return l{} }

type l struct{}

func (l) Before(ctx context.Context, mod api.Module, def api.FunctionDefinition, params []uint64, si experimental.StackIterator) {
	var chain []string
	for si.Next() {
		chain = append(chain, si.Function().Definition().DebugName())
	}
	fmt.Printf("  before mod=%q def=%s/%s params=%v chain=%v\n", mod.Name(), def.ModuleName(), def.DebugName(), params, chain)
}
func (l) After(ctx context.Context, mod api.Module, def api.FunctionDefinition, results []uint64) {
	fmt.Printf("  after  mod=%q def=%s results=%v\n", mod.Name(), def.DebugName(), results)
}
func (l) Abort(ctx context.Context, mod api.Module, def api.FunctionDefinition, err error) {
	fmt.Printf("  abort  mod=%q def=%s err=%v\n", mod.Name(), def.DebugName(), strings.SplitN(err.Error(), "\n", 2)[0])
}

func main() {
	for _, eng := range []string{"interpreter", "compiler"} {
		fmt.Println("=====", eng)
		ctx := experimental.WithFunctionListenerFactory(context.Background(), lf{})
		cfg := wazero.NewRuntimeConfigInterpreter()
		if eng == "compiler" {
			cfg = wazero.NewRuntimeConfigCompiler()
		}
		rt := wazero.NewRuntimeWithConfig(ctx, cfg)
		wasi_snapshot_preview1.MustInstantiate(context.Background(), rt)
		var hook func(ctx context.Context, mod api.Module, tag, v uint32) uint32
		_, err := rt.NewHostModuleBuilder("env").NewFunctionBuilder().WithGoModuleFunction(api.GoModuleFunc(func(ctx context.Context, mod api.Module, stack []uint64) {
			stack[0] = uint64(hook(ctx, mod, uint32(stack[0]), uint32(stack[1])))
		}), []api.ValueType{api.ValueTypeI32, api.ValueTypeI32}, []api.ValueType{api.ValueTypeI32}).Export("h").Instantiate(ctx)
		if err != nil {
			panic(err)
		}
		pa := &plan.Plan{Name: "pa", Funcs: []plan.Func{
			{Atoms: []plan.Atom{{K: plan.AStore, A: 0, B: 7}, {K: plan.ACall, A: 1, B: 1}}},
			{Atoms: []plan.Atom{{K: plan.AHost, A: 1}, {K: plan.AStore, A: 1, B: 9}}},
			{Atoms: []plan.Atom{{K: plan.AExit, A: 3}}},
			{Atoms: []plan.Atom{{K: plan.AStore, A: 2, B: 11}}},
		}}
		pb := &plan.Plan{Name: "pb", NImports: 4, ImportFrom: "a", Funcs: []plan.Func{
			{Atoms: []plan.Atom{{K: plan.ACallImp, A: 3, B: 0}}},
			{Atoms: []plan.Atom{{K: plan.ACallImp, A: 2, B: 0}}},
		}}
		ca, err := rt.CompileModule(ctx, pa.Encode())
		if err != nil {
			panic(err)
		}
		cb, err := rt.CompileModule(ctx, pb.Encode())
		if err != nil {
			panic(err)
		}
		a, err := rt.InstantiateModule(ctx, ca, wazero.NewModuleConfig().WithName("a"))
		if err != nil {
			panic(err)
		}
		b, err := rt.InstantiateModule(ctx, cb, wazero.NewModuleConfig().WithName("b"))
		if err != nil {
			panic(err)
		}
		hook = func(ctx context.Context, mod api.Module, tag, v uint32) uint32 { return v*3 + tag }
		fmt.Println("call a.f0(5):")
		r, err := a.ExportedFunction("f0").Call(ctx, 5)
		fmt.Println(" ->", r, err)
		fmt.Println("host closes module w/o panic, a.f0(5):")
		a2, _ := rt.InstantiateModule(ctx, ca, wazero.NewModuleConfig().WithName("a2"))
		hook = func(ctx context.Context, mod api.Module, tag, v uint32) uint32 {
			mod.CloseWithExitCode(ctx, 9)
			return 1
		}
		r, err = a2.ExportedFunction("f0").Call(ctx, 5)
		fmt.Println(" ->", r, err)
		v, _ := a2.Memory().ReadUint32Le(8)
		fmt.Println("  cell1 =", v, "closed:", a2.IsClosed())
		r, err = a2.ExportedFunction("f0").Call(ctx, 5)
		fmt.Println(" again ->", r, err)
		fmt.Println("b.f1 -> a.f2 -> proc_exit(3):")
		r, err = b.ExportedFunction("f1").Call(ctx, 5)
		fmt.Println(" ->", r, err, "a closed:", a.IsClosed(), "b closed:", b.IsClosed())
		fmt.Println("b.f0 -> a.f3 (a closed):")
		r, err = b.ExportedFunction("f0").Call(ctx, 5)
		fmt.Println(" ->", r, err)
		v, _ = a.Memory().ReadUint32Le(16)
		fmt.Println("  a.cell2 =", v)
		r, err = a.ExportedFunction("f3").Call(ctx, 5)
		fmt.Println(" a.f3 direct ->", r, err)
		rt.Close(ctx)
	}
	os.Exit(0)
}
