// vdriver is the supervisor: it rebuilds the worker against the current /repo
// working tree, spawns worker processes over disjoint run ranges, watches them,
// minimises and records violations, and writes the evidence file.
//
// Exit codes: 0 property held on everything explored; 1 violation (with a
// "VIOLATION property=<id> replay=<path>" line); 2 harness trouble (build
// failure, nondeterminism, unexplained worker death) – never a VIOLATION.
package main

import (
	"bufio"
	"bytes"
	"encoding/json"
	"flag"
	"fmt"
	"io"
	"os"
	"os/exec"
	"path/filepath"
	"regexp"
	"sort"
	"strconv"
	"strings"
	"sync"
	"time"

	"verifharness/sim"
)

var (
	verifDir = envOr("VERIF_DIR", "/verif")
	repoDir  = envOr("VERIF_REPO", "/repo")
	scratch  string
)

func envOr(k, d string) string {
	if v := os.Getenv(k); v != "" {
		return v
	}
	return d
}

func fatal2(f string, a ...any) {
	fmt.Fprintf(os.Stderr, "HARNESS-ERROR: "+f+"\n", a...)
	cleanup()
	os.Exit(2)
}

func cleanup() {
	if scratch != "" && os.Getenv("VERIF_KEEP_SCRATCH") == "" {
		os.RemoveAll(scratch)
	}
}

func goEnv() []string {
	env := os.Environ()
	env = append(env, "GOFLAGS=-mod=mod", "GOPROXY=off", "GOSUMDB=off", "GOTOOLCHAIN=local", "CGO_ENABLED=0")
	return env
}

type variant struct {
	name      string // plain | synctest | instr
	toolchain string
	bin       string
}

// build builds the worker variant and returns the binary path.
func build(v *variant) {
	t0 := time.Now()
	harness := filepath.Join(verifDir, "harness")
	gobin := "go"
	if v.toolchain != "" {
		gobin = v.toolchain
	}
	v.bin = filepath.Join(scratch, "vworker-"+v.name)
	args := []string{"build", "-buildvcs=false", "-trimpath", "-o", v.bin}
	switch v.name {
	case "plain", "synctest":
		modfile := filepath.Join(scratch, "go-"+v.name+".mod")
		writeModfile(modfile, repoDir)
		args = append(args, "-modfile="+modfile)
	case "instr":
		copyDir := filepath.Join(scratch, "wazero")
		if _, err := os.Stat(copyDir); err != nil {
			instrumentCopy(copyDir)
		}
		modfile := filepath.Join(scratch, "go-instr.mod")
		writeModfile(modfile, copyDir)
		args = append(args, "-modfile="+modfile, "-tags", "instrumented")
	}
	args = append(args, "./cmd/vworker")
	cmd := exec.Command(gobin, args...)
	cmd.Dir = harness
	cmd.Env = goEnv()
	outb, err := cmd.CombinedOutput()
	if err != nil {
		fatal2("building worker (%s) failed: %v\n%s", v.name, err, outb)
	}
	fmt.Fprintf(os.Stderr, "[vdriver] built %s worker in %.1fs\n", v.name, time.Since(t0).Seconds())
}

// buildCLI builds cmd/wazero of the repository under check (for classes that drive the command-line tool)
// and publishes its path to the workers through VERIF_WAZERO_CLI.
func buildCLI() {
	t0 := time.Now()
	out := filepath.Join(scratch, "wazero-cli")
	cmd := exec.Command("go", "build", "-buildvcs=false", "-o", out, "./cmd/wazero")
	cmd.Dir = repoDir
	cmd.Env = goEnv()
	if outb, err := cmd.CombinedOutput(); err != nil {
		fatal2("building cmd/wazero failed: %v\n%s", err, outb)
	}
	os.Setenv("VERIF_WAZERO_CLI", out)
	fmt.Fprintf(os.Stderr, "[vdriver] built cmd/wazero in %.1fs\n", time.Since(t0).Seconds())
}

func buildCLIIfNeeded(classes []sim.Class) {
	for _, c := range classes {
		if c.NeedsCLI {
			buildCLI()
			break
		}
	}
	for _, c := range classes {
		if c.NeedsPIEWorker {
			buildPIEWorker()
			break
		}
	}
}

// buildPIEWorker builds the instrumented worker a second time as a position-independent executable (its
// code and the Go runtime's are loaded at another address on every start) and publishes its path through
// VERIF_PIE_WORKER: "another binary" for checks that compare what separate processes produce.
func buildPIEWorker() {
	t0 := time.Now()
	out := filepath.Join(scratch, "vworker-instr-pie")
	copyDir := filepath.Join(scratch, "wazero")
	if _, err := os.Stat(copyDir); err != nil {
		instrumentCopy(copyDir)
	}
	modfile := filepath.Join(scratch, "go-instr.mod")
	writeModfile(modfile, copyDir)
	cmd := exec.Command("go", "build", "-buildvcs=false", "-trimpath", "-buildmode=pie", "-o", out, "-modfile="+modfile, "-tags", "instrumented", "./cmd/vworker")
	cmd.Dir = filepath.Join(verifDir, "harness")
	cmd.Env = goEnv()
	if outb, err := cmd.CombinedOutput(); err != nil {
		fatal2("building the position-independent worker failed: %v\n%s", err, outb)
	}
	os.Setenv("VERIF_PIE_WORKER", out)
	fmt.Fprintf(os.Stderr, "[vdriver] built position-independent worker in %.1fs\n", time.Since(t0).Seconds())
}

func writeModfile(path, wazeroDir string) {
	src, err := os.ReadFile(filepath.Join(verifDir, "harness", "go.mod"))
	if err != nil {
		fatal2("read go.mod: %v", err)
	}
	re := regexp.MustCompile(`(?m)^replace github.com/tetratelabs/wazero => .*$`)
	out := re.ReplaceAll(src, []byte("replace github.com/tetratelabs/wazero => "+wazeroDir))
	if err := os.WriteFile(path, out, 0o644); err != nil {
		fatal2("write modfile: %v", err)
	}
	sum, _ := os.ReadFile(filepath.Join(verifDir, "harness", "go.sum"))
	os.WriteFile(strings.TrimSuffix(path, ".mod")+".sum", sum, 0o644)
}

// instrumentCopy copies the Go sources of the repository working tree and runs
// the rewriter over the copy.
func instrumentCopy(dst string) {
	t0 := time.Now()
	n := 0
	err := filepath.Walk(repoDir, func(p string, info os.FileInfo, err error) error {
		if err != nil {
			return err
		}
		rel, _ := filepath.Rel(repoDir, p)
		if info.IsDir() {
			base := info.Name()
			if rel != "." && (base == ".git" || base == "site" || base == "examples" || base == "testdata" || base == "integration_test" || base == "cmd") {
				return filepath.SkipDir
			}
			return nil
		}
		if !(strings.HasSuffix(p, ".go") || strings.HasSuffix(p, ".s") || info.Name() == "go.mod" || info.Name() == "go.sum") {
			return nil
		}
		if strings.HasSuffix(p, "_test.go") {
			return nil
		}
		b, err := os.ReadFile(p)
		if err != nil {
			return err
		}
		out := filepath.Join(dst, rel)
		os.MkdirAll(filepath.Dir(out), 0o755)
		n++
		return os.WriteFile(out, b, 0o644)
	})
	if err != nil {
		fatal2("copying repository: %v", err)
	}
	// shims
	shimSrc := filepath.Join(verifDir, "harness", "shim")
	err = filepath.Walk(shimSrc, func(p string, info os.FileInfo, err error) error {
		if err != nil || info.IsDir() {
			return err
		}
		rel, _ := filepath.Rel(shimSrc, p)
		b, _ := os.ReadFile(p)
		out := filepath.Join(dst, "verifshim", strings.TrimSuffix(rel, ".txt"))
		os.MkdirAll(filepath.Dir(out), 0o755)
		return os.WriteFile(out, b, 0o644)
	})
	if err != nil {
		fatal2("copying shims: %v", err)
	}
	rw := filepath.Join(scratch, "vrewrite")
	cmd := exec.Command("go", "build", "-buildvcs=false", "-o", rw, "./cmd/vrewrite")
	cmd.Dir = filepath.Join(verifDir, "harness")
	cmd.Env = goEnv()
	if outb, err := cmd.CombinedOutput(); err != nil {
		fatal2("building vrewrite: %v\n%s", err, outb)
	}
	cmd = exec.Command(rw, dst)
	if outb, err := cmd.CombinedOutput(); err != nil {
		fatal2("instrumenting copy: %v\n%s", err, outb)
	} else if len(outb) > 0 {
		fmt.Fprintf(os.Stderr, "%s", outb)
	}
	fmt.Fprintf(os.Stderr, "[vdriver] copied %d files and instrumented in %.1fs\n", n, time.Since(t0).Seconds())
}

type knownEntry struct {
	Status   string `json:"status"` // finding | fixed
	Property string `json:"property"`
	Sig      string `json:"sig"`
	What     string `json:"what"`
	Commit   string `json:"commit,omitempty"`
}

func loadKnown(prop string) map[string]knownEntry {
	m := map[string]knownEntry{}
	f, err := os.Open(filepath.Join(verifDir, "KNOWN_FINDINGS.jsonl"))
	if err != nil {
		return m
	}
	defer f.Close()
	sc := bufio.NewScanner(f)
	sc.Buffer(make([]byte, 1<<20), 1<<20)
	for sc.Scan() {
		ln := strings.TrimSpace(sc.Text())
		if ln == "" || strings.HasPrefix(ln, "#") {
			continue
		}
		var e knownEntry
		if json.Unmarshal([]byte(ln), &e) == nil && e.Property == prop && e.Status == "finding" {
			m[e.Sig] = e
		}
	}
	return m
}

type agg struct {
	mu          sync.Mutex
	evals       int64
	nontrivial  int64
	shapes      map[string]struct{}
	stats       map[string]int64
	known       map[string]int64
	samples     []any
	steps       int64
	simNs       int64
	perClass    map[string]*classAgg
	expectDeath map[string]int64
}

type classAgg struct {
	Runs       int64  `json:"runs"`
	Nontrivial int64  `json:"nontrivial"`
	Distinct   int64  `json:"distinct_nontrivial_shapes"`
	Engine     string `json:"engine,omitempty"`
	shapes     map[string]struct{}
	WallS      float64 `json:"wall_s"`
}

type violation struct {
	cls    sim.Class
	run    uint64
	vclass string
	detail string
	tape   []uint32
	trace  []string
	sample any
	death  bool
	stderr string
}

type workerOutcome struct {
	viol    *violation
	nondet  *sim.Line
	died    bool
	hung    bool
	lastRun int64 // announced run, -1 if none
	nextRun uint64
	stderr  string
	doneOK  bool
}

func runWorker(v *variant, simName string, cls sim.Class, tier string, seed, from, to uint64, a *agg, stop <-chan struct{}, detEvery int) workerOutcome {
	args := []string{"run", "-sim", simName, "-class", cls.Name, "-engine", cls.Engine, "-tier", tier,
		"-seed", strconv.FormatUint(seed, 10), "-from", strconv.FormatUint(from, 10), "-to", strconv.FormatUint(to, 10),
		"-detevery", strconv.Itoa(detEvery)}
	cmd := exec.Command(v.bin, args...)
	cmd.Env = append(os.Environ(), "VERIF_SCRATCH="+scratch)
	stdout, _ := cmd.StdoutPipe()
	var stderr tailBuf
	cmd.Stderr = &stderr
	if err := cmd.Start(); err != nil {
		fatal2("cannot start worker: %v", err)
	}
	oc := workerOutcome{lastRun: -1, nextRun: from}
	lines := make(chan sim.Line, 64)
	go func() {
		rd := bufio.NewReaderSize(stdout, 1<<20)
		for {
			ln, err := rd.ReadString('\n')
			if strings.HasPrefix(ln, "@@ ") {
				var l sim.Line
				if json.Unmarshal([]byte(ln[3:]), &l) == nil {
					lines <- l
				}
			}
			if err != nil {
				break
			}
		}
		close(lines)
	}()
	to0 := time.Duration(cls.RunTimeoutSec) * time.Second
	if to0 == 0 {
		to0 = 120 * time.Second
	}
	timer := time.NewTimer(to0)
	defer timer.Stop()
loop:
	for {
		select {
		case l, ok := <-lines:
			if !ok {
				break loop
			}
			if !timer.Stop() {
				select {
				case <-timer.C:
				default:
				}
			}
			timer.Reset(to0)
			switch l.T {
			case "start":
				oc.lastRun = int64(l.Run)
			case "res":
				oc.nextRun = l.Run + 1
				oc.lastRun = -1
				a.add(cls, l)
			case "violation":
				oc.viol = &violation{cls: cls, run: l.Run, vclass: l.Class, detail: l.Detail, tape: l.Tape, trace: l.Trace, sample: l.Sample}
			case "nondet":
				ll := l
				oc.nondet = &ll
			case "done":
				oc.doneOK = true
			}
		case <-timer.C:
			oc.hung = true
			cmd.Process.Kill()
			break loop
		case <-stop:
			cmd.Process.Kill()
			break loop
		}
	}
	go func() {
		for range lines {
		}
	}()
	err := cmd.Wait()
	oc.stderr = stderr.String()
	if !oc.doneOK && !oc.hung && oc.viol == nil && oc.nondet == nil {
		select {
		case <-stop:
		default:
			oc.died = true
			oc.stderr += fmt.Sprintf("\n[worker exit status: %v]", err)
		}
	}
	return oc
}

type tailBuf struct {
	mu  sync.Mutex
	buf []byte
}

func (t *tailBuf) Write(p []byte) (int, error) {
	t.mu.Lock()
	defer t.mu.Unlock()
	t.buf = append(t.buf, p...)
	if len(t.buf) > 64<<10 {
		// keep head 16K and tail 32K
		head := append([]byte(nil), t.buf[:16<<10]...)
		tail := t.buf[len(t.buf)-(32<<10):]
		t.buf = append(append(head, []byte("\n...[snip]...\n")...), tail...)
	}
	return len(p), nil
}
func (t *tailBuf) String() string { t.mu.Lock(); defer t.mu.Unlock(); return string(t.buf) }

func (a *agg) add(cls sim.Class, l sim.Line) {
	a.mu.Lock()
	defer a.mu.Unlock()
	a.evals++
	key := cls.Name + "/" + cls.Engine
	ca := a.perClass[key]
	if ca == nil {
		ca = &classAgg{shapes: map[string]struct{}{}, Engine: cls.Engine}
		a.perClass[key] = ca
	}
	ca.Runs++
	if l.Nontrivial {
		a.nontrivial++
		ca.Nontrivial++
		sk := key + ":" + l.Shape
		a.shapes[sk] = struct{}{}
		ca.shapes[l.Shape] = struct{}{}
	}
	for k, v := range l.Stats {
		a.stats[k] += v
	}
	for _, k := range l.Known {
		a.known[k]++
	}
	a.steps += l.Steps
	a.simNs += l.SimNs
	if l.Sample != nil && len(a.samples) < 6 {
		a.samples = append(a.samples, map[string]any{"class": cls.Name, "engine": cls.Engine, "run": l.Run, "case": l.Sample})
	}
}

func main() {
	if len(os.Args) < 3 {
		fmt.Fprintln(os.Stderr, "usage: vdriver check <ID> [--tier quick|thorough] | replay <file> | selftest <ID>")
		os.Exit(2)
	}
	mode := os.Args[1]
	fs := flag.NewFlagSet(mode, flag.ExitOnError)
	tierF := fs.String("tier", envOr("VERIF_TIER", "quick"), "quick|thorough")
	seedF := fs.String("seed", envOr("VERIF_SEED", "1"), "seed")
	procsF := fs.Int("procs", 16, "worker processes")
	scaleF := fs.Float64("scale", 1, "multiply run counts")
	classF := fs.String("class", "", "only this class (debugging)")
	noEvidence := fs.Bool("no-evidence", false, "do not write the evidence file")
	fs.Parse(os.Args[3:])
	seed, err := strconv.ParseUint(strings.TrimSpace(*seedF), 10, 64)
	if err != nil {
		// accept any integer incl. negative
		if s, e2 := strconv.ParseInt(strings.TrimSpace(*seedF), 10, 64); e2 == nil {
			seed = uint64(s)
		} else {
			seed = 1
		}
	}
	var e2 error
	scratch, e2 = os.MkdirTemp("", "verif-scratch-")
	if e2 != nil {
		fatal2("mktemp: %v", e2)
	}
	defer cleanup()
	switch mode {
	case "check":
		code := check(strings.ToUpper(os.Args[2]), *tierF, seed, *procsF, *scaleF, *classF, !*noEvidence)
		cleanup()
		os.Exit(code)
	case "replay":
		code := replay(os.Args[2])
		cleanup()
		os.Exit(code)
	case "selftest":
		code := selftest(strings.ToUpper(os.Args[2]), *tierF, seed)
		cleanup()
		os.Exit(code)
	default:
		fatal2("unknown mode %s", mode)
	}
}

func variantsFor(classes []sim.Class) map[string]*variant {
	vs := map[string]*variant{}
	for _, c := range classes {
		n := variantName(c)
		if vs[n] == nil {
			vs[n] = &variant{name: n, toolchain: c.Toolchain}
		}
	}
	return vs
}

func variantName(c sim.Class) string {
	switch {
	case c.Instrumented:
		return "instr"
	case c.Toolchain != "":
		return "synctest"
	}
	return "plain"
}

// staticVariant says which variant can answer "classes" for a property.
func staticVariant(prop string) *variant {
	switch prop {
	case "C10", "C13":
		return &variant{name: "instr"}
	}
	return &variant{name: "plain"}
}

func getClasses(v *variant, prop string) ([]sim.Class, sim.Description) {
	cmd := exec.Command(v.bin, "classes", "-sim", prop)
	outb, err := cmd.Output()
	if err != nil {
		fatal2("worker classes: %v", err)
	}
	for _, ln := range strings.Split(string(outb), "\n") {
		if strings.HasPrefix(ln, "@@ ") {
			var l sim.Line
			if json.Unmarshal([]byte(ln[3:]), &l) == nil && l.T == "classes" {
				return l.Classes, *l.Desc
			}
		}
	}
	fatal2("worker printed no classes")
	return nil, sim.Description{}
}

func check(prop, tier string, seed uint64, procs int, scale float64, onlyClass string, writeEv bool) int {
	t0 := time.Now()
	v0 := staticVariant(prop)
	build(v0)
	classes, desc := getClasses(v0, prop)
	buildCLIIfNeeded(classes)
	vs := variantsFor(classes)
	for n, v := range vs {
		if n == v0.name {
			vs[n] = v0
			continue
		}
		build(v)
	}
	known := loadKnown(prop)
	a := &agg{shapes: map[string]struct{}{}, stats: map[string]int64{}, known: map[string]int64{}, perClass: map[string]*classAgg{}, expectDeath: map[string]int64{}}
	var viol *violation
	detEvery := 25
	if tier == "thorough" {
		detEvery = 100
	}
	if onlyClass != "" {
		found := false
		for _, cls := range classes {
			found = found || cls.Name == onlyClass
		}
		if !found {
			fmt.Printf("HARNESS-ERROR: property %s has no class %q\n", prop, onlyClass)
			return 2
		}
	}
	for _, cls := range classes {
		if onlyClass != "" && cls.Name != onlyClass {
			continue
		}
		n := cls.Quick
		if tier == "thorough" {
			n = cls.Thorough
		}
		if !cls.Enumerated {
			n = int(float64(n) * scale)
		}
		if n <= 0 {
			continue
		}
		tc := time.Now()
		v := vs[variantName(cls)]
		viol = runClass(v, prop, cls, tier, seed, uint64(n), procs, a, detEvery)
		if ca := a.perClass[cls.Name+"/"+cls.Engine]; ca != nil {
			ca.WallS = time.Since(tc).Seconds()
		}
		if viol != nil {
			break
		}
	}
	wall := time.Since(t0).Seconds()
	// known findings: every signature seen must be listed.
	var unlisted []string
	var knownSeen []string
	for sig := range a.known {
		if _, ok := known[sig]; ok {
			knownSeen = append(knownSeen, sig)
		} else {
			unlisted = append(unlisted, sig)
		}
	}
	sort.Strings(knownSeen)
	sort.Strings(unlisted)
	code := 0
	replayPath := ""
	if viol == nil && len(unlisted) > 0 {
		viol = &violation{vclass: "unlisted-finding:" + unlisted[0], detail: "a simulator matched a finding signature that KNOWN_FINDINGS.jsonl does not list (fixed entries suppress nothing)"}
	}
	if viol != nil {
		replayPath = recordViolation(vs, prop, tier, seed, viol)
		code = 1
	}
	if writeEv {
		writeEvidence(prop, tier, seed, a, desc, wall, viol, knownSeen, known, classes)
	}
	for _, sig := range knownSeen {
		fmt.Printf("KNOWN-FINDING: property=%s %s: %s (seen %d times)\n", prop, sig, known[sig].What, a.known[sig])
	}
	if viol != nil {
		fmt.Printf("VIOLATION property=%s replay=%s\n", prop, replayPath)
		fmt.Printf("  class=%s run=%d detail=%s\n", viol.vclass, viol.run, oneLine(viol.detail, 600))
	} else {
		fmt.Printf("OK property=%s tier=%s seed=%d runs=%d distinct_nontrivial=%d wall=%.1fs\n", prop, tier, seed, a.evals, len(a.shapes), wall)
	}
	return code
}

func oneLine(s string, n int) string {
	s = strings.ReplaceAll(s, "\n", " | ")
	if len(s) > n {
		s = s[:n] + "…"
	}
	return s
}

func runClass(v *variant, prop string, cls sim.Class, tier string, seed, n uint64, procs int, a *agg, detEvery int) *violation {
	batch := uint64(cls.Batch)
	if batch == 0 {
		batch = (n + uint64(procs)*4 - 1) / (uint64(procs) * 4)
		if batch < 1 {
			batch = 1
		}
	}
	type job struct{ from, to uint64 }
	jobs := make(chan job, 1024)
	go func() {
		for f := uint64(0); f < n; f += batch {
			t := f + batch
			if t > n {
				t = n
			}
			jobs <- job{f, t}
		}
		close(jobs)
	}()
	stop := make(chan struct{})
	var stopOnce sync.Once
	var mu sync.Mutex
	var first *violation
	var harnessErr string
	var wg sync.WaitGroup
	for p := 0; p < procs; p++ {
		wg.Add(1)
		go func() {
			defer wg.Done()
			for j := range jobs {
				from := j.from
				for from < j.to {
					select {
					case <-stop:
						return
					default:
					}
					oc := runWorker(v, prop, cls, tier, seed, from, j.to, a, stop, detEvery)
					var vv *violation
					switch {
					case oc.nondet != nil:
						mu.Lock()
						harnessErr = fmt.Sprintf("nondeterminism in class %s engine %s run %d: %s\n%s", cls.Name, cls.Engine, oc.nondet.Run, oc.nondet.Msg, strings.Join(oc.nondet.Trace, "\n"))
						mu.Unlock()
						stopOnce.Do(func() { close(stop) })
						return
					case oc.viol != nil:
						vv = oc.viol
					case oc.died || oc.hung:
						select {
						case <-stop:
							return
						default:
						}
						if cls.ExpectDeath && oc.died && oc.lastRun >= 0 {
							if ok, _ := regexp.MatchString(cls.DeathPattern, oc.stderr); ok {
								a.mu.Lock()
								a.known[cls.KnownSig]++
								a.evals++
								a.stats["sacrificial.died_as_recorded"]++
								a.mu.Unlock()
								from = uint64(oc.lastRun) + 1
								continue
							}
						}
						if oc.lastRun < 0 {
							mu.Lock()
							harnessErr = fmt.Sprintf("worker for class %s died outside a run (died=%v hung=%v)\n%s", cls.Name, oc.died, oc.hung, tail(oc.stderr, 4000))
							mu.Unlock()
							stopOnce.Do(func() { close(stop) })
							return
						}
						if !cls.DeathIsViolation {
							mu.Lock()
							harnessErr = fmt.Sprintf("worker died/hung in class %s engine %s seed %d run %d (died=%v hung=%v); process survival is not part of this property's oracle\n%s", cls.Name, cls.Engine, seed, oc.lastRun, oc.died, oc.hung, tail(oc.stderr, 6000))
							mu.Unlock()
							stopOnce.Do(func() { close(stop) })
							return
						}
						if oc.died && strings.Contains(oc.stderr, "[worker exit status: signal: killed]") && !crashOutput.MatchString(oc.stderr) {
							// SIGKILL without any crash output of the Go runtime: the process did not die of
							// its own doing (kernel OOM killer, an operator); not evidence about the property
							mu.Lock()
							harnessErr = fmt.Sprintf("worker in class %s engine %s seed %d run %d was killed from outside (SIGKILL, no crash output)\n%s", cls.Name, cls.Engine, seed, oc.lastRun, tail(oc.stderr, 3000))
							mu.Unlock()
							stopOnce.Do(func() { close(stop) })
							return
						}
						vc := sim.DeathClass
						if oc.hung {
							vc = sim.HangClass
						}
						vv = &violation{cls: cls, run: uint64(oc.lastRun), vclass: vc, death: true, stderr: tail(oc.stderr, 6000),
							detail: "worker process " + map[bool]string{true: "stopped responding (watchdog)", false: "died"}[oc.hung] + " during this run: " + firstLines(oc.stderr, 3) + " | ... | " + lastLines(oc.stderr, 14)}
					default:
						from = j.to
						continue
					}
					mu.Lock()
					if first == nil || vv.run < first.run {
						first = vv
					}
					mu.Unlock()
					stopOnce.Do(func() { close(stop) })
					return
				}
			}
		}()
	}
	wg.Wait()
	if harnessErr != "" {
		fatal2("%s", harnessErr)
	}
	return first
}

var crashOutput = regexp.MustCompile(`panic:|fatal error:|SIG[A-Z]+:|unexpected signal|goroutine \d+ \[|runtime\.`)

func tail(s string, n int) string {
	if len(s) > n {
		return s[len(s)-n:]
	}
	return s
}

func lastLines(s string, n int) string {
	ls := strings.Split(strings.TrimSpace(s), "\n")
	if len(ls) > n {
		ls = ls[len(ls)-n:]
	}
	return strings.Join(ls, " | ")
}

func firstLines(s string, n int) string {
	ls := strings.Split(strings.TrimSpace(s), "\n")
	if len(ls) > n {
		ls = ls[:n]
	}
	return strings.Join(ls, " | ")
}

// recordViolation minimises the tape, verifies the replay in a fresh process
// and writes the replay file.
func recordViolation(vs map[string]*variant, prop, tier string, seed uint64, vv *violation) string {
	os.MkdirAll(filepath.Join(verifDir, "replays"), 0o755)
	path := filepath.Join(verifDir, "replays", fmt.Sprintf("%s-%d-%d.json", prop, seed, vv.run))
	rp := sim.Replay{Property: prop, Sim: prop, Class: vv.cls.Name, Engine: vv.cls.Engine, Tier: tier, Seed: seed, Run: vv.run,
		Tape: vv.tape, TapeOrig: len(vv.tape), Violation: &sim.Violation{Class: vv.vclass, Detail: vv.detail}, Trace: vv.trace, Sample: vv.sample}
	if vv.cls.Name == "" {
		b, _ := json.MarshalIndent(rp, "", " ")
		os.WriteFile(path, b, 0o644)
		return path
	}
	v := vs[variantName(vv.cls)]
	tmp := filepath.Join(scratch, "viol.json")
	if vv.death {
		// recover the tape of the run that killed the worker
		tl := filepath.Join(scratch, "tapelog.bin")
		cmd := exec.Command(v.bin, "exec", "-sim", prop, "-class", vv.cls.Name, "-engine", vv.cls.Engine, "-tier", tier,
			"-seed", strconv.FormatUint(seed, 10), "-from", strconv.FormatUint(vv.run, 10), "-tapelog", tl)
		cmd.Env = append(os.Environ(), "VERIF_SCRATCH="+scratch)
		runWithTimeout(cmd, time.Duration(max(vv.cls.RunTimeoutSec, 30))*time.Second)
		if b, err := os.ReadFile(tl); err == nil {
			for i := 0; i+4 <= len(b); i += 4 {
				rp.Tape = append(rp.Tape, uint32(b[i])|uint32(b[i+1])<<8|uint32(b[i+2])<<16|uint32(b[i+3])<<24)
			}
		}
		rp.TapeOrig = len(rp.Tape)
		rp.Note = "tape recovered from the draw log of a re-execution of (seed, run) that was expected to die again"
	}
	b, _ := json.MarshalIndent(rp, "", " ")
	os.WriteFile(tmp, b, 0o644)
	// shrink
	args := []string{"shrink", "-sim", prop, "-tape", tmp, "-vclass", vv.vclass, "-budget", "600"}
	if vv.cls.DeathIsViolation {
		if vv.vclass == sim.HangClass {
			// every candidate that still hangs costs its whole watchdog
			args = append(args, "-isolate", "-budget", "8", "-timeout", "10")
		} else {
			args = append(args, "-isolate", "-budget", "80", "-timeout", strconv.Itoa(max(vv.cls.RunTimeoutSec, 20)))
		}
	}
	cmd := exec.Command(v.bin, args...)
	cmd.Env = append(os.Environ(), "VERIF_SCRATCH="+scratch)
	outb, _ := runWithTimeout(cmd, 10*time.Minute)
	for _, ln := range strings.Split(outb, "\n") {
		if strings.HasPrefix(ln, "@@ ") {
			var l sim.Line
			if json.Unmarshal([]byte(ln[3:]), &l) == nil && l.T == "shrunk" {
				if l.Msg == "ok" {
					rp.Tape = l.Tape
				} else {
					rp.Note += " [minimisation skipped: " + l.Msg + "]"
				}
			}
		}
	}
	b, _ = json.MarshalIndent(rp, "", " ")
	os.WriteFile(tmp, b, 0o644)
	// final execution from the minimised tape in a fresh process: take its trace
	cmd = exec.Command(v.bin, "exec", "-sim", prop, "-tape", tmp)
	cmd.Env = append(os.Environ(), "VERIF_SCRATCH="+scratch)
	finalTO := time.Duration(max(vv.cls.RunTimeoutSec, 60)) * time.Second
	if vv.vclass == sim.HangClass {
		finalTO = 10 * time.Second
	}
	outb, _ = runWithTimeout(cmd, finalTO)
	for _, ln := range strings.Split(outb, "\n") {
		if strings.HasPrefix(ln, "@@ ") {
			var l sim.Line
			if json.Unmarshal([]byte(ln[3:]), &l) == nil && l.T == "violation" && l.Class == vv.vclass {
				rp.Trace = l.Trace
				rp.Sample = l.Sample
				rp.Violation.Detail = l.Detail
			}
		}
	}
	if vv.death {
		if i := strings.Index(outb, "##STDERR##"); i >= 0 {
			rp.Trace = append(rp.Trace, "stderr of the replayed run: "+firstLines(outb[i+10:], 12))
		}
	}
	b, _ = json.MarshalIndent(rp, "", " ")
	os.WriteFile(path, b, 0o644)
	return path
}

func runWithTimeout(cmd *exec.Cmd, d time.Duration) (string, error) {
	var ob bytes.Buffer
	cmd.Stdout = &ob
	var eb tailBuf
	cmd.Stderr = &eb
	if err := cmd.Start(); err != nil {
		return "", err
	}
	done := make(chan error, 1)
	go func() { done <- cmd.Wait() }()
	select {
	case err := <-done:
		return ob.String() + "\n##STDERR##\n" + eb.String(), err
	case <-time.After(d):
		cmd.Process.Kill()
		<-done
		return ob.String() + "\n##STDERR##\n" + eb.String(), fmt.Errorf("timeout")
	}
}

func replay(file string) int {
	b, err := os.ReadFile(file)
	if err != nil {
		fatal2("read replay: %v", err)
	}
	var rp sim.Replay
	if err := json.Unmarshal(b, &rp); err != nil || rp.Sim == "" {
		fatal2("not a replay file: %v", err)
	}
	v0 := staticVariant(rp.Property)
	build(v0)
	classes, _ := getClasses(v0, rp.Property)
	buildCLIIfNeeded(classes)
	var cls sim.Class
	for _, c := range classes {
		if c.Name == rp.Class && c.Engine == rp.Engine {
			cls = c
		}
	}
	v := v0
	if variantName(cls) != v0.name {
		v = &variant{name: variantName(cls), toolchain: cls.Toolchain}
		build(v)
	}
	cmd := exec.Command(v.bin, "exec", "-sim", rp.Sim, "-tape", file)
	cmd.Env = append(os.Environ(), "VERIF_SCRATCH="+scratch)
	outb, err := runWithTimeout(cmd, time.Duration(max(cls.RunTimeoutSec, 120))*time.Second)
	got := ""
	detail := ""
	sawDone := false
	for _, ln := range strings.Split(outb, "\n") {
		if strings.HasPrefix(ln, "@@ ") {
			var l sim.Line
			if json.Unmarshal([]byte(ln[3:]), &l) != nil {
				continue
			}
			if l.T == "violation" {
				got, detail = l.Class, l.Detail
				for _, t := range l.Trace {
					fmt.Println("  trace:", t)
				}
			}
			if l.T == "done" {
				sawDone = true
			}
		}
	}
	if !sawDone && cls.DeathIsViolation {
		if err != nil && err.Error() == "timeout" {
			got = sim.HangClass
		} else {
			got = sim.DeathClass
		}
		detail = firstLines(outb[strings.Index(outb, "##STDERR##")+10:], 8)
	}
	want := ""
	if rp.Violation != nil {
		want = rp.Violation.Class
	}
	if got == want && got != "" {
		fmt.Printf("VIOLATION property=%s replay=%s\n  reproduced class=%s detail=%s\n", rp.Property, file, got, oneLine(detail, 600))
		return 1
	}
	if got == "" {
		fmt.Printf("NOT-REPRODUCED property=%s replay=%s recorded class=%s: the run completed without violation on this tree\n", rp.Property, file, want)
		return 0
	}
	fmt.Printf("VIOLATION property=%s replay=%s\n  different class: recorded=%s now=%s detail=%s\n", rp.Property, file, want, got, oneLine(detail, 600))
	return 1
}

// selftest: determinism at scale.  For each class, runs k=0..N-1 are executed
// in 6 separate processes (GOMAXPROCS 1,4,16 × 2) and the trace hashes must be
// equal.
func selftest(prop, tier string, seed uint64) int {
	v0 := staticVariant(prop)
	build(v0)
	classes, _ := getClasses(v0, prop)
	buildCLIIfNeeded(classes)
	vs := variantsFor(classes)
	for n, v := range vs {
		if n == v0.name {
			vs[n] = v0
		} else {
			build(v)
		}
	}
	const N = 30
	bad := 0
	total := 0
	for _, cls := range classes {
		if cls.ExpectDeath {
			continue
		}
		v := vs[variantName(cls)]
		n := N
		if cls.Enumerated && cls.Quick < n {
			n = cls.Quick
		}
		type key struct{ run uint64 }
		hashes := map[uint64]map[string]int{}
		var mu sync.Mutex
		var wg sync.WaitGroup
		for _, gmp := range []string{"1", "4", "16"} {
			for rep := 0; rep < 2; rep++ {
				wg.Add(1)
				go func(gmp string) {
					defer wg.Done()
					cmd := exec.Command(v.bin, "run", "-sim", prop, "-class", cls.Name, "-engine", cls.Engine, "-tier", tier,
						"-seed", strconv.FormatUint(seed, 10), "-from", "0", "-to", strconv.Itoa(n), "-detevery", "0")
					cmd.Env = append(os.Environ(), "GOMAXPROCS="+gmp, "VERIF_SCRATCH="+scratch)
					outb, _ := runWithTimeout(cmd, 20*time.Minute)
					mu.Lock()
					defer mu.Unlock()
					for _, ln := range strings.Split(outb, "\n") {
						if strings.HasPrefix(ln, "@@ ") {
							var l sim.Line
							if json.Unmarshal([]byte(ln[3:]), &l) == nil && (l.T == "res" || l.T == "violation") {
								if hashes[l.Run] == nil {
									hashes[l.Run] = map[string]int{}
								}
								hashes[l.Run][l.Hash]++
							}
						}
					}
				}(gmp)
			}
		}
		wg.Wait()
		for run := uint64(0); run < uint64(n); run++ {
			total++
			h := hashes[run]
			cnt := 0
			for _, c := range h {
				cnt += c
			}
			if len(h) != 1 || cnt != 6 {
				bad++
				fmt.Printf("NONDETERMINISTIC sim=%s class=%s engine=%s run=%d hashes=%v\n", prop, cls.Name, cls.Engine, run, h)
			}
		}
	}
	fmt.Printf("selftest %s: %d (class,run) pairs × 6 processes (GOMAXPROCS 1/4/16 × 2), %d divergent\n", prop, total, bad)
	if bad > 0 {
		return 2
	}
	return 0
}

func writeEvidence(prop, tier string, seed uint64, a *agg, desc sim.Description, wall float64, viol *violation, knownSeen []string, known map[string]knownEntry, classes []sim.Class) {
	faults := map[string]int64{}
	probes := map[string]int64{}
	other := map[string]int64{}
	for k, v := range a.stats {
		switch {
		case strings.HasPrefix(k, "fault."):
			faults[strings.TrimPrefix(k, "fault.")] = v
		case strings.HasPrefix(k, "probe."):
			probes[strings.TrimPrefix(k, "probe.")] = v
		default:
			other[k] = v
		}
	}
	for _, ca := range a.perClass {
		ca.Distinct = int64(len(ca.shapes))
	}
	kf := []map[string]any{}
	for _, s := range knownSeen {
		kf = append(kf, map[string]any{"sig": s, "what": known[s].What, "times_seen": a.known[s]})
	}
	samples := a.samples
	if len(samples) == 0 {
		samples = []any{"(no sample emitted)"}
	}
	level := desc.Level
	if level == "" {
		level = "exploration"
	}
	exh := false
	for _, c := range classes {
		if c.Enumerated {
			exh = true
		}
	}
	nviol := 0
	if viol != nil {
		nviol = 1
	}
	cov := map[string]any{
		"evaluations":          a.evals,
		"distinct_nontrivial":  len(a.shapes),
		"nontrivial_runs":      a.nontrivial,
		"rule":                 desc.Rule,
		"samples":              samples,
		"runs_per_hour":        int64(float64(a.evals) / wall * 3600),
		"seeds":                []uint64{seed},
		"simulated_time_s":     float64(a.simNs) / 1e9,
		"simulator_steps":      a.steps,
		"faults_fired":         faults,
		"fault_kinds":          desc.FaultKinds,
		"probes":               probes,
		"counters":             other,
		"per_class":            a.perClass,
		"components_real_code": desc.RealCode,
		"components_stubbed":   desc.Stubs,
		"known_findings_seen":  kf,
		"worker_processes":     16,
	}
	if exh {
		cov["enumerated_classes_exhaustive_per_case"] = true
	}
	ev := map[string]any{
		"property_id": prop,
		"tier":        tier,
		"seed":        int64(seed),
		"level":       level,
		"coverage":    cov,
		"assumptions": desc.Assumptions,
		"wall_s":      wall,
		"violations":  nviol,
	}
	os.MkdirAll(filepath.Join(verifDir, "evidence"), 0o755)
	b, _ := json.MarshalIndent(ev, "", " ")
	os.WriteFile(filepath.Join(verifDir, "evidence", prop+".json"), b, 0o644)
}

var _ = io.EOF
