// vrewrite instruments a scratch copy of the wazero sources for the
// schedule- and disk-controlling simulators (C10, C13):
//
//  1. import substitution in a fixed list of files: sync -> verifshim/simsync,
//     sync/atomic -> verifshim/simatomic, os -> verifshim/simos;
//  2. `go f(x)` -> simrt.Go(func(){ f(x) }) in the same files;
//  3. statement-level simrt.Yield("<file:line>") in a fixed list of files.
//
// It works by import path and by file, not by patch, so later edits to the
// repository are instrumented automatically.  It never touches /repo.
package main

import (
	"bytes"
	"fmt"
	"go/ast"
	"go/format"
	"go/parser"
	"go/token"
	"os"
	"path/filepath"
	"strconv"
	"strings"
)

const mod = "github.com/tetratelabs/wazero"

var syncFiles = []string{
	"runtime.go", "cache.go", "builder.go",
	"internal/wasm/store.go", "internal/wasm/store_module_list.go", "internal/wasm/module_instance.go", "internal/wasm/table.go",
	"internal/engine/wazevo/engine.go", "internal/engine/wazevo/engine_cache.go",
	"internal/engine/interpreter/interpreter.go",
}

var osFiles = []string{"internal/filecache/file_cache.go", "cache.go"}

var yieldFiles = []string{
	"runtime.go", "builder.go", "cache.go",
	"internal/wasm/store.go", "internal/wasm/store_module_list.go", "internal/wasm/module_instance.go",
	"internal/filecache/file_cache.go",
}

// optYieldFiles: statement-level yields that are switched on by the one simulation that wants them
// (verifsimrt.OptYields; C19's concurrent derivations) and are no-ops for every other class, whose
// schedules therefore do not change.
var optYieldFiles = []string{"config.go", "fsconfig.go"}

// functions in yieldFiles that are NOT given statement-level yields because
// they are hot guest-execution or decoding paths irrelevant to lifecycle.
var skipFuncs = map[string]bool{}

// engineFiles: in these files only the methods of the engine type itself
// (compiled-module table management, close, NewModuleEngine, CompileModule) get
// statement-level yields; code generation internals (name prefixes below) and
// everything that executes guest code are left alone.
var engineFiles = []string{
	"internal/engine/wazevo/engine.go", "internal/engine/wazevo/engine_cache.go",
	"internal/engine/interpreter/interpreter.go",
}

// guarded: fields documented as "guarded by mux", per file: receiver type -> field names.  In methods
// of that type every simple statement (and every compound statement's header) that mentions
// <receiver>.<field> gets `<receiver>.mux.AssertHeld("<site>")` in front.
var guarded = map[string]map[string][]string{
	"internal/engine/interpreter/interpreter.go": {"engine": {"compiledFunctions"}},
	"internal/engine/wazevo/engine.go":           {"engine": {"compiledModules", "sortedCompiledModules"}},
	"internal/engine/wazevo/engine_cache.go":     {"engine": {"compiledModules", "sortedCompiledModules"}},
	"internal/wasm/store.go":                     {"Store": {"nameToModule", "moduleList", "typeIDs"}},
	"internal/wasm/store_module_list.go":         {"Store": {"nameToModule", "moduleList", "typeIDs"}},
}

// fieldGuards: fields documented as guarded by a sibling mutex field of the same struct, whoever the
// holder is: every simple statement that mentions <x>.<field> (x an identifier) in these files gets
// `<x>.<mutex>.AssertHeld("<site>")` in front.
var fieldGuards = map[string]map[string]string{
	"internal/wasm/store.go": {"involvingModuleInstances": "involvingModuleInstancesMutex"},
	"internal/wasm/table.go": {"involvingModuleInstances": "involvingModuleInstancesMutex"},
}

var engineSkipPrefixes = []string{"compile", "lower", "setLabel", "serialize", "deserialize"}

func engineMethod(fd *ast.FuncDecl) bool {
	if fd.Recv == nil || len(fd.Recv.List) != 1 {
		return false
	}
	st, ok := fd.Recv.List[0].Type.(*ast.StarExpr)
	if !ok {
		return false
	}
	id, ok := st.X.(*ast.Ident)
	if !ok || id.Name != "engine" {
		return false
	}
	for _, p := range engineSkipPrefixes {
		if strings.HasPrefix(fd.Name.Name, p) {
			return false
		}
	}
	return true
}

func contains(xs []string, x string) bool {
	for _, y := range xs {
		if y == x {
			return true
		}
	}
	return false
}

func main() {
	if len(os.Args) != 2 {
		fmt.Fprintln(os.Stderr, "usage: vrewrite <copy-of-repo>")
		os.Exit(2)
	}
	root := os.Args[1]
	all := map[string]bool{}
	for _, l := range [][]string{syncFiles, osFiles, yieldFiles, engineFiles, optYieldFiles} {
		for _, f := range l {
			all[f] = true
		}
	}
	for rel := range all {
		p := filepath.Join(root, rel)
		src, err := os.ReadFile(p)
		if err != nil {
			// a file that no longer exists is not an error: rewriting is by file
			fmt.Fprintf(os.Stderr, "vrewrite: note: %s not present, skipped\n", rel)
			continue
		}
		out, err := rewrite(rel, src)
		if err != nil {
			fmt.Fprintf(os.Stderr, "vrewrite: %s: %v\n", rel, err)
			os.Exit(1)
		}
		if err := os.WriteFile(p, out, 0o644); err != nil {
			fmt.Fprintln(os.Stderr, err)
			os.Exit(1)
		}
	}
}

func rewrite(rel string, src []byte) ([]byte, error) {
	fset := token.NewFileSet()
	f, err := parser.ParseFile(fset, rel, src, parser.ParseComments)
	if err != nil {
		return nil, err
	}
	needRT := false
	// 1. imports
	for _, imp := range f.Imports {
		path, _ := strconv.Unquote(imp.Path.Value)
		switch {
		case path == "sync" && contains(syncFiles, rel):
			imp.Path.Value = strconv.Quote(mod + "/verifshim/simsync")
			if imp.Name == nil {
				imp.Name = ast.NewIdent("sync")
			}
		case path == "sync/atomic" && contains(syncFiles, rel):
			imp.Path.Value = strconv.Quote(mod + "/verifshim/simatomic")
			if imp.Name == nil {
				imp.Name = ast.NewIdent("atomic")
			}
		case path == "os" && contains(osFiles, rel):
			imp.Path.Value = strconv.Quote(mod + "/verifshim/simos")
			if imp.Name == nil {
				imp.Name = ast.NewIdent("os")
			}
		}
	}
	// 2. go statements
	if contains(syncFiles, rel) {
		ast.Inspect(f, func(n ast.Node) bool {
			blk, ok := n.(*ast.BlockStmt)
			if !ok {
				return true
			}
			for i, st := range blk.List {
				if g, ok := st.(*ast.GoStmt); ok {
					needRT = true
					lit := &ast.FuncLit{Type: &ast.FuncType{Params: &ast.FieldList{}}, Body: &ast.BlockStmt{List: []ast.Stmt{&ast.ExprStmt{X: g.Call}}}}
					blk.List[i] = &ast.ExprStmt{X: &ast.CallExpr{Fun: &ast.SelectorExpr{X: ast.NewIdent("verifsimrt"), Sel: ast.NewIdent("Go")}, Args: []ast.Expr{lit}}}
				}
			}
			return true
		})
	}
	// 3. yields
	if contains(yieldFiles, rel) {
		for _, d := range f.Decls {
			fd, ok := d.(*ast.FuncDecl)
			if !ok || fd.Body == nil || skipFuncs[fd.Name.Name] {
				continue
			}
			if instrumentBlock(fset, rel, fd.Body) {
				needRT = true
			}
		}
	}
	if contains(optYieldFiles, rel) {
		yieldFn = "YieldOpt"
		for _, d := range f.Decls {
			fd, ok := d.(*ast.FuncDecl)
			if !ok || fd.Body == nil {
				continue
			}
			if instrumentBlock(fset, rel, fd.Body) {
				needRT = true
			}
		}
		yieldFn = "Yield"
	}
	if contains(engineFiles, rel) {
		for _, d := range f.Decls {
			fd, ok := d.(*ast.FuncDecl)
			if !ok || fd.Body == nil || !engineMethod(fd) {
				continue
			}
			if instrumentBlock(fset, rel, fd.Body) {
				needRT = true
			}
		}
	}
	// 4. lock-discipline assertions
	if g := guarded[rel]; g != nil {
		for _, d := range f.Decls {
			fd, ok := d.(*ast.FuncDecl)
			if !ok || fd.Body == nil || fd.Recv == nil || len(fd.Recv.List) != 1 || len(fd.Recv.List[0].Names) != 1 {
				continue
			}
			st, ok := fd.Recv.List[0].Type.(*ast.StarExpr)
			if !ok {
				continue
			}
			id, ok := st.X.(*ast.Ident)
			if !ok || g[id.Name] == nil {
				continue
			}
			assertBlock(fset, rel, fd.Body, fd.Recv.List[0].Names[0].Name, g[id.Name])
		}
	}
	if fg := fieldGuards[rel]; fg != nil {
		for _, d := range f.Decls {
			if fd, ok := d.(*ast.FuncDecl); ok && fd.Body != nil {
				guardBlock(fset, rel, fd.Body, fg)
			}
		}
	}
	if needRT {
		addImport(f, "verifsimrt", mod+"/verifshim/simrt")
	}
	// Inserted nodes carry no positions, which lets the printer misplace
	// ordinary comments; keep only compiler directives and what precedes the
	// package clause (build constraints).
	var keep []*ast.CommentGroup
	for _, cg := range f.Comments {
		if cg.End() < f.Package {
			keep = append(keep, cg)
			continue
		}
		for _, c := range cg.List {
			if strings.HasPrefix(c.Text, "//go:") {
				keep = append(keep, cg)
				break
			}
		}
	}
	f.Comments = keep
	ast.Inspect(f, func(n ast.Node) bool {
		switch d := n.(type) {
		case *ast.FuncDecl:
			if !isDirective(d.Doc) {
				d.Doc = nil
			}
		case *ast.GenDecl:
			if !isDirective(d.Doc) {
				d.Doc = nil
			}
		case *ast.Field:
			d.Doc, d.Comment = nil, nil
		case *ast.ValueSpec:
			d.Doc, d.Comment = nil, nil
		case *ast.TypeSpec:
			d.Doc, d.Comment = nil, nil
		case *ast.ImportSpec:
			d.Doc, d.Comment = nil, nil
		}
		return true
	})
	var buf bytes.Buffer
	if err := format.Node(&buf, fset, f); err != nil {
		return nil, err
	}
	return buf.Bytes(), nil
}

func isDirective(cg *ast.CommentGroup) bool {
	if cg == nil {
		return false
	}
	for _, c := range cg.List {
		if strings.HasPrefix(c.Text, "//go:") {
			return true
		}
	}
	return false
}

func addImport(f *ast.File, name, path string) {
	spec := &ast.ImportSpec{Name: ast.NewIdent(name), Path: &ast.BasicLit{Kind: token.STRING, Value: strconv.Quote(path)}}
	for _, d := range f.Decls {
		if gd, ok := d.(*ast.GenDecl); ok && gd.Tok == token.IMPORT {
			gd.Specs = append(gd.Specs, spec)
			if !gd.Lparen.IsValid() {
				gd.Lparen = gd.Pos()
				gd.Rparen = gd.End()
			}
			f.Imports = append(f.Imports, spec)
			return
		}
	}
	gd := &ast.GenDecl{Tok: token.IMPORT, Specs: []ast.Spec{spec}}
	f.Decls = append([]ast.Decl{gd}, f.Decls...)
	f.Imports = append(f.Imports, spec)
}

var yieldFn = "Yield"

func yieldStmt(fset *token.FileSet, rel string, pos token.Pos) ast.Stmt {
	site := fmt.Sprintf("%s:%d", strings.TrimPrefix(rel, "internal/"), fset.Position(pos).Line)
	return &ast.ExprStmt{X: &ast.CallExpr{
		Fun:  &ast.SelectorExpr{X: ast.NewIdent("verifsimrt"), Sel: ast.NewIdent(yieldFn)},
		Args: []ast.Expr{&ast.BasicLit{Kind: token.STRING, Value: strconv.Quote(site)}},
	}}
}

// instrumentBlock inserts a yield before every statement of the block and
// recurses into nested blocks (not into function literals).
func instrumentBlock(fset *token.FileSet, rel string, b *ast.BlockStmt) bool {
	if b == nil {
		return false
	}
	did := false
	var out []ast.Stmt
	for _, st := range b.List {
		switch s := st.(type) {
		case *ast.DeclStmt, *ast.EmptyStmt:
			out = append(out, st)
			continue
		case *ast.LabeledStmt:
			_ = s
			out = append(out, st)
			continue
		}
		out = append(out, yieldStmt(fset, rel, st.Pos()))
		did = true
		if sel, ok := st.(*ast.SelectStmt); ok {
			if pre := prePoll(fset, rel, sel); pre != nil {
				out = append(out, pre)
			}
		}
		nested(fset, rel, st)
		out = append(out, st)
	}
	b.List = out
	return did
}

// prePoll: a select without default whose cases are all plain receives `<-ch` (channels that are only
// ever closed: ctx.Done(), cancellation channels) would park the goroutine while it holds the baton.
// In front of it goes
//
//	for verifsimrt.Active() {
//		ready := false
//		select { case <-ch1: ready = true; case <-ch2: ready = true; default: }
//		if ready { break }
//		verifsimrt.Poll("<site>")
//	}
//
// which hands the baton on until one of the channels is closed; the original select then proceeds at
// once.  Receiving from a closed channel twice is harmless; selects of any other form are left alone.
func prePoll(fset *token.FileSet, rel string, sel *ast.SelectStmt) ast.Stmt {
	var cases []ast.Stmt
	for _, c := range sel.Body.List {
		cc, ok := c.(*ast.CommClause)
		if !ok || cc.Comm == nil {
			return nil // has a default
		}
		es, ok := cc.Comm.(*ast.ExprStmt)
		if !ok {
			return nil
		}
		ue, ok := es.X.(*ast.UnaryExpr)
		if !ok || ue.Op != token.ARROW {
			return nil
		}
		cases = append(cases, &ast.CommClause{
			Comm: &ast.ExprStmt{X: &ast.UnaryExpr{Op: token.ARROW, X: ue.X}},
			Body: []ast.Stmt{&ast.AssignStmt{Lhs: []ast.Expr{ast.NewIdent("verifReady")}, Tok: token.ASSIGN, Rhs: []ast.Expr{ast.NewIdent("true")}}},
		})
	}
	cases = append(cases, &ast.CommClause{})
	site := fmt.Sprintf("%s:%d:select", strings.TrimPrefix(rel, "internal/"), fset.Position(sel.Pos()).Line)
	call := func(fn string, args ...ast.Expr) *ast.CallExpr {
		return &ast.CallExpr{Fun: &ast.SelectorExpr{X: ast.NewIdent("verifsimrt"), Sel: ast.NewIdent(fn)}, Args: args}
	}
	return &ast.ForStmt{
		Cond: call("Active"),
		Body: &ast.BlockStmt{List: []ast.Stmt{
			&ast.AssignStmt{Lhs: []ast.Expr{ast.NewIdent("verifReady")}, Tok: token.DEFINE, Rhs: []ast.Expr{ast.NewIdent("false")}},
			&ast.SelectStmt{Body: &ast.BlockStmt{List: cases}},
			&ast.IfStmt{Cond: ast.NewIdent("verifReady"), Body: &ast.BlockStmt{List: []ast.Stmt{&ast.BranchStmt{Tok: token.BREAK}}}},
			&ast.ExprStmt{X: call("Poll", &ast.BasicLit{Kind: token.STRING, Value: strconv.Quote(site)})},
		}},
	}
}

// mentions reports which guarded field (if any) node n mentions as recv.<field>, not descending into
// function literals or nested blocks.
func mentions(n ast.Node, recv string, fields []string) string {
	found := ""
	ast.Inspect(n, func(x ast.Node) bool {
		switch v := x.(type) {
		case *ast.FuncLit, *ast.BlockStmt:
			return false
		case *ast.SelectorExpr:
			if id, ok := v.X.(*ast.Ident); ok && id.Name == recv && contains(fields, v.Sel.Name) {
				found = v.Sel.Name
			}
		}
		return found == ""
	})
	return found
}

func assertStmt(fset *token.FileSet, rel, recv, field string, pos token.Pos) ast.Stmt {
	site := fmt.Sprintf("%s:%d %s.%s", strings.TrimPrefix(rel, "internal/"), fset.Position(pos).Line, recv, field)
	return &ast.ExprStmt{X: &ast.CallExpr{
		Fun:  &ast.SelectorExpr{X: &ast.SelectorExpr{X: ast.NewIdent(recv), Sel: ast.NewIdent("mux")}, Sel: ast.NewIdent("AssertHeld")},
		Args: []ast.Expr{&ast.BasicLit{Kind: token.STRING, Value: strconv.Quote(site)}},
	}}
}

func assertBlock(fset *token.FileSet, rel string, b *ast.BlockStmt, recv string, fields []string) {
	if b == nil {
		return
	}
	var out []ast.Stmt
	for _, st := range b.List {
		hdr := func(nodes ...ast.Node) {
			for _, n := range nodes {
				if n == nil || (fmt.Sprintf("%v", n) == "<nil>") {
					continue
				}
				if f := mentions(n, recv, fields); f != "" && st.Pos().IsValid() {
					out = append(out, assertStmt(fset, rel, recv, f, st.Pos()))
					return
				}
			}
		}
		switch s := st.(type) {
		case *ast.BlockStmt:
			assertBlock(fset, rel, s, recv, fields)
		case *ast.IfStmt:
			if s.Init != nil {
				hdr(s.Init)
			}
			hdr(s.Cond)
			assertBlock(fset, rel, s.Body, recv, fields)
			if e, ok := s.Else.(*ast.BlockStmt); ok {
				assertBlock(fset, rel, e, recv, fields)
			} else if e, ok := s.Else.(*ast.IfStmt); ok {
				assertBlock(fset, rel, &ast.BlockStmt{List: []ast.Stmt{e}}, recv, fields)
			}
		case *ast.ForStmt:
			if s.Init != nil {
				hdr(s.Init)
			}
			if s.Cond != nil {
				hdr(s.Cond)
			}
			assertBlock(fset, rel, s.Body, recv, fields)
		case *ast.RangeStmt:
			hdr(s.X)
			assertBlock(fset, rel, s.Body, recv, fields)
		case *ast.SwitchStmt:
			if s.Tag != nil {
				hdr(s.Tag)
			}
			for _, c := range s.Body.List {
				if cc, ok := c.(*ast.CaseClause); ok {
					blk := &ast.BlockStmt{List: cc.Body}
					assertBlock(fset, rel, blk, recv, fields)
					cc.Body = blk.List
				}
			}
		case *ast.ExprStmt, *ast.AssignStmt, *ast.ReturnStmt, *ast.IncDecStmt, *ast.SendStmt:
			// (an inserted yield or assertion has no position and mentions nothing)
			hdr(st)
		}
		out = append(out, st)
	}
	b.List = out
}

// guardBlock: like assertBlock for fieldGuards (any identifier as the holder); simple statements only.
func guardBlock(fset *token.FileSet, rel string, b *ast.BlockStmt, fg map[string]string) {
	if b == nil {
		return
	}
	var out []ast.Stmt
	for _, st := range b.List {
		switch s := st.(type) {
		case *ast.BlockStmt:
			guardBlock(fset, rel, s, fg)
		case *ast.IfStmt:
			guardBlock(fset, rel, s.Body, fg)
			if e, ok := s.Else.(*ast.BlockStmt); ok {
				guardBlock(fset, rel, e, fg)
			}
		case *ast.ForStmt:
			guardBlock(fset, rel, s.Body, fg)
		case *ast.RangeStmt:
			guardBlock(fset, rel, s.Body, fg)
		case *ast.SwitchStmt:
			for _, c := range s.Body.List {
				if cc, ok := c.(*ast.CaseClause); ok {
					blk := &ast.BlockStmt{List: cc.Body}
					guardBlock(fset, rel, blk, fg)
					cc.Body = blk.List
				}
			}
		case *ast.ExprStmt, *ast.AssignStmt, *ast.ReturnStmt, *ast.IncDecStmt:
			if !st.Pos().IsValid() {
				break
			}
			holder, field := "", ""
			ast.Inspect(st, func(x ast.Node) bool {
				switch v := x.(type) {
				case *ast.FuncLit:
					return false
				case *ast.SelectorExpr:
					if id, ok := v.X.(*ast.Ident); ok && fg[v.Sel.Name] != "" && holder == "" {
						holder, field = id.Name, v.Sel.Name
					}
				}
				return true
			})
			if holder != "" {
				site := fmt.Sprintf("%s:%d %s.%s", strings.TrimPrefix(rel, "internal/"), fset.Position(st.Pos()).Line, holder, field)
				out = append(out, &ast.ExprStmt{X: &ast.CallExpr{
					Fun:  &ast.SelectorExpr{X: &ast.SelectorExpr{X: ast.NewIdent(holder), Sel: ast.NewIdent(fg[field])}, Sel: ast.NewIdent("AssertHeld")},
					Args: []ast.Expr{&ast.BasicLit{Kind: token.STRING, Value: strconv.Quote(site)}},
				}})
			}
		}
		out = append(out, st)
	}
	b.List = out
}

func nested(fset *token.FileSet, rel string, st ast.Stmt) {
	switch s := st.(type) {
	case *ast.BlockStmt:
		instrumentBlock(fset, rel, s)
	case *ast.IfStmt:
		instrumentBlock(fset, rel, s.Body)
		if s.Else != nil {
			nested(fset, rel, s.Else)
		}
	case *ast.ForStmt:
		instrumentBlock(fset, rel, s.Body)
	case *ast.RangeStmt:
		instrumentBlock(fset, rel, s.Body)
	case *ast.SwitchStmt:
		clauses(fset, rel, s.Body)
	case *ast.TypeSwitchStmt:
		clauses(fset, rel, s.Body)
	case *ast.SelectStmt:
		// no yields inside select clauses' comm statements; bodies only
		for _, c := range s.Body.List {
			if cc, ok := c.(*ast.CommClause); ok {
				blk := &ast.BlockStmt{List: cc.Body}
				instrumentBlock(fset, rel, blk)
				cc.Body = blk.List
			}
		}
	}
}

func clauses(fset *token.FileSet, rel string, body *ast.BlockStmt) {
	for _, c := range body.List {
		if cc, ok := c.(*ast.CaseClause); ok {
			blk := &ast.BlockStmt{List: cc.Body}
			instrumentBlock(fset, rel, blk)
			cc.Body = blk.List
		}
	}
}
