//go:build instrumented

package main

import (
	_ "verifharness/sims/cache"
	_ "verifharness/sims/lifecycle"
)
