// vworker runs simulated runs of one simulator; see sim.WorkerMain.
package main

import (
	"verifharness/sim"

	_ "verifharness/sims/calls"
	_ "verifharness/sims/config"
	_ "verifharness/sims/defaults"
	_ "verifharness/sims/isolation"
	_ "verifharness/sims/lifetime"
	_ "verifharness/sims/linking"
	_ "verifharness/sims/nonsem"
	_ "verifharness/sims/term"
	_ "verifharness/sims/wasifs"
)

func main() { sim.WorkerMain() }
