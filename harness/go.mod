module verifharness

go 1.23.0

require (
	github.com/anishathalye/porcupine v1.3.0
	github.com/tetratelabs/wazero v0.0.0
)

replace github.com/tetratelabs/wazero => /repo
