package plan

import (
	"fmt"
	"math"
)

// Inst is the model state of one instance of a plan.
type Inst struct {
	P                        *Plan
	Name                     string
	Cells                    [NCells]int32
	Far                      [MaxPages][NFar]int32
	Globals                  [NGlobals]int32
	Table                    [TableSize]int // function index, -1 null, -2 odd signature
	Pages                    int
	DataDropped, ElemDropped bool
	Closed                   bool
	ExitCode                 uint32
	Import                   *Inst // instance the imported functions belong to
}

func NewInst(p *Plan, name string, imp *Inst) *Inst {
	in := &Inst{P: p, Name: name, Pages: 1, Import: imp}
	for g := range in.Globals {
		in.Globals[g] = int32(1000 * (g + 1))
	}
	for s := range in.Table {
		in.Table[s] = -1
	}
	n := len(p.Funcs)
	for s := 0; s < TableSize-2 && s+1 < n; s++ {
		in.Table[s] = s + 1
	}
	in.Table[SlotOdd] = -2
	in.Cells[NCells-1] = ActiveData
	return in
}

// Fail describes how a call ended abnormally.
type Fail struct {
	// Kind: "trap", "stack-overflow", "exit", "panic-error", "panic-string",
	// "runtime-error"
	Kind     string
	Msg      string // first line of the expected error message (traps, panics)
	ExitCode uint32
	// Rethrown: the failure reached this point by a host function panicking with the error of a
	// re-entrant call (frames from here outward unwind through the ordinary panic path)
	Rethrown bool
}

func (f *Fail) String() string {
	if f == nil {
		return "ok"
	}
	if f.Kind == "exit" {
		return fmt.Sprintf("exit(%d)", f.ExitCode)
	}
	return f.Kind + ":" + f.Msg
}

// Event is a predicted listener event.
type Event struct {
	Kind  string   // before | after | abort
	Func  string   // debug name
	Vals  []uint64 // i32/f32 in the low 32 bits, i64/f64 full width
	Chain []string // before only: call chain from the callee outward, within the current call engine
	// Inst: the instance whose function this is (nil: the host function)
	Inst *Inst
	// Exhaustion: abort only: the frame is unwound by stack exhaustion inside its own call engine
	Exhaustion bool
}

func (e Event) String() string {
	if e.Kind == "before" {
		return fmt.Sprintf("before %s%v chain=%v", e.Func, e.Vals, e.Chain)
	}
	if e.Kind == "after" {
		return fmt.Sprintf("after %s%v", e.Func, e.Vals)
	}
	return "abort " + e.Func
}

// World executes plans over model instances.
type World struct {
	Overflows int // stack exhaustions predicted so far
	// EnsureTerm: the runtime has close-on-context-done: a loop header in a function of a CLOSED instance
	// ends the call with the exit error (that is what the option's checks do, whoever closed the instance)
	EnsureTerm bool
	// Host is the model-side semantics of the host function: it is called at
	// every AHost atom and decides (drawing from the tape and recording the
	// decision for the real host function to replay) what the host does.
	Host func(w *World, in *Inst, tag, v int32) (int32, *Fail)
	// Listen reports whether a listener is attached to the function with
	// this debug name in the compilation instance in was created from (nil for
	// the host module).
	Listen func(in *Inst, name string) bool
	Events []Event
	// chain is the current call chain (debug names), innermost last; engine
	// boundaries (re-entrant Call) are marked by chainBase.
	chain     []string
	chainBase int
	// Depth of guest frames, for re-entrancy decisions.
	Depth int
	// Interp selects the interpreter's loop-header check: it tests the module
	// of the calling frame and then the module the API call was made on; the
	// compiler tests only the latter.
	Interp bool
	roots  []*Inst
	frames []*Inst
	// MaxDepthSeen is the deepest guest nesting reached.
	MaxDepthSeen int
}

func (w *World) emit(in *Inst, e Event) {
	if w.Listen != nil && w.Listen(in, e.Func) {
		e.Inst = in
		w.Events = append(w.Events, e)
	}
}

func (w *World) curChain() []string {
	c := w.chain[w.chainBase:]
	out := make([]string, 0, len(c))
	for i := len(c) - 1; i >= 0; i-- {
		out = append(out, c[i])
	}
	return out
}

// APICall models api.Function.Call (top-level or re-entrant from a host
// function): a new call engine, and the closed check after the body.
func (w *World) APICall(in *Inst, fn int, x int32) (int32, *Fail) {
	savedBase := w.chainBase
	w.chainBase = len(w.chain)
	w.roots = append(w.roots, in)
	savedFrames := w.frames
	w.frames = nil
	r, f := w.call(in, fn, x)
	w.frames = savedFrames
	w.roots = w.roots[:len(w.roots)-1]
	w.chainBase = savedBase
	if f == nil && in.Closed {
		f = &Fail{Kind: "exit", ExitCode: in.ExitCode}
	}
	return r, f
}

// RecLimit separates "small" recursion depths (the call returns its argument)
// from exhausting ones.  Generated depths are <= 15 or >= 2^30.
const RecLimit = 1000

// APICallRec models calling the exported rec function directly (rec functions
// never carry listeners).
func (w *World) APICallRec(in *Inst, r int, x int32) (int32, *Fail) {
	if x > RecLimit {
		w.Overflows++
		return 0, &Fail{Kind: "stack-overflow", Msg: "wasm error: stack overflow"}
	}
	if x < 0 {
		x = 0
	}
	var f *Fail
	if in.Closed {
		f = &Fail{Kind: "exit", ExitCode: in.ExitCode}
	}
	return x, f
}

// gleaf models the leaf function behind the funcref global.
func (w *World) gleaf(in *Inst, x int32) int32 {
	name := in.P.Name + ".gleaf"
	w.chain = append(w.chain, name)
	w.emit(in, Event{Kind: "before", Func: name, Vals: []uint64{uint64(uint32(x))}, Chain: w.curChain()})
	in.Globals[3]++
	w.chain = w.chain[:len(w.chain)-1]
	w.emit(in, Event{Kind: "after", Func: name, Vals: []uint64{uint64(uint32(x + 1))}})
	return x + 1
}

func (w *World) call(in *Inst, fn int, x int32) (res int32, fail *Fail) {
	name := fmt.Sprintf("%s.f%d", in.P.Name, fn)
	w.chain = append(w.chain, name)
	w.frames = append(w.frames, in)
	w.Depth++
	if w.Depth > w.MaxDepthSeen {
		w.MaxDepthSeen = w.Depth
	}
	w.emit(in, Event{Kind: "before", Func: name, Vals: []uint64{uint64(uint32(x))}, Chain: w.curChain()})
	defer func() {
		w.Depth--
		w.chain = w.chain[:len(w.chain)-1]
		w.frames = w.frames[:len(w.frames)-1]
		if fail != nil {
			w.emit(in, Event{Kind: "abort", Func: name, Exhaustion: fail.Kind == "stack-overflow" && !fail.Rethrown})
		} else {
			w.emit(in, Event{Kind: "after", Func: name, Vals: []uint64{uint64(uint32(res))}})
		}
	}()
	acc := x
	trap := func(k int) *Fail { return &Fail{Kind: "trap", Msg: TrapMsg[k]} }
	for _, a := range in.P.Funcs[fn].Atoms {
		switch a.K {
		case ALoop:
			if w.EnsureTerm {
				root := in
				if len(w.roots) > 0 {
					root = w.roots[len(w.roots)-1]
				}
				if w.Interp {
					caller := root
					if n := len(w.frames); n >= 2 {
						caller = w.frames[n-2]
					}
					if caller.Closed {
						return 0, &Fail{Kind: "exit", ExitCode: caller.ExitCode}
					}
				}
				if root.Closed {
					return 0, &Fail{Kind: "exit", ExitCode: root.ExitCode}
				}
			}
			acc += 3
		case ABrIfRet:
			if acc == a.A {
				return acc, nil
			}
		case AStore:
			in.Cells[a.A] = a.B
		case AStoreAcc:
			in.Cells[a.A] = acc
		case ALoadAcc:
			acc += in.Cells[a.A]
		case AGAdd:
			in.Globals[a.A] += a.B
		case ACall:
			r, f := w.call(in, int(a.A), acc+a.B)
			if f != nil {
				return 0, f
			}
			acc = r
		case ATailCall:
			// a tail call replaces the frame; listeners are not used with
			// tail calls (call depth implementation-defined)
			r, f := w.call(in, int(a.A), acc+a.B)
			return r, f
		case ACallImp:
			r, f := w.call(in.Import, int(a.A), acc+a.B)
			if f != nil {
				return 0, f
			}
			acc = r
		case ACallI:
			t := in.Table[a.A]
			switch {
			case t == -1:
				return 0, trap(TrapNullCall)
			case t == -2:
				return 0, trap(TrapSigMismatch)
			case t == -3:
				acc = w.gleaf(in, acc)
				continue
			}
			r, f := w.call(in, t, acc)
			if f != nil {
				return 0, f
			}
			acc = r
		case AHost:
			w.chain = append(w.chain, "env.h")
			w.emit(nil, Event{Kind: "before", Func: "env.h", Vals: []uint64{uint64(uint32(a.A)), uint64(uint32(acc))}, Chain: w.curChain()})
			r, f := w.Host(w, in, a.A, acc)
			w.chain = w.chain[:len(w.chain)-1]
			if f != nil {
				w.emit(nil, Event{Kind: "abort", Func: "env.h"})
				return 0, f
			}
			w.emit(nil, Event{Kind: "after", Func: "env.h", Vals: []uint64{uint64(uint32(r))}})
			acc = r
		case ATrap:
			if a.A == TrapDivZero || a.A == TrapOOBLoad || a.A == TrapOOBStore || a.A == TrapUnreachable || a.A == TrapTruncOverflow || a.A == TrapAtomicOOB8 || a.A == TrapAtomicCmpxchgOOB8 {
				return 0, trap(int(a.A))
			}
			if a.A == TrapNullCall {
				if t := in.Table[SlotNull]; t >= 0 {
					r, f := w.call(in, t, acc)
					if f != nil {
						return 0, f
					}
					acc = r
					continue
				}
				return 0, trap(TrapNullCall)
			}
			return 0, trap(TrapSigMismatch)
		case AGrow:
			if in.Pages+int(a.A) <= MaxPages {
				in.Pages += int(a.A)
			}
		case AHost2:
			w.chain = append(w.chain, "env.h2")
			w.emit(nil, Event{Kind: "before", Func: "env.h2", Vals: []uint64{uint64(uint32(acc))}, Chain: w.curChain()})
			w.chain = w.chain[:len(w.chain)-1]
			r0, r1 := Host2(acc)
			w.emit(nil, Event{Kind: "after", Func: "env.h2", Vals: []uint64{uint64(uint32(r0)), uint64(uint32(r1))}})
			acc = r0 + r1
		case AFarStore:
			if int(a.A) >= in.Pages {
				return 0, trap(TrapOOBStore)
			}
			in.Far[a.A][a.B] = acc | 1
		case AFarLoad:
			if int(a.A) >= in.Pages {
				return 0, trap(TrapOOBLoad)
			}
			acc += in.Far[a.A][a.B]
		case ARec:
			var n int32
			switch a.B {
			case 0:
				n = 1 << 30
			case 1:
				n = acc & 15
			default:
				n = (acc&1)<<30 | (acc & 7)
			}
			if n > RecLimit {
				w.Overflows++
				return 0, &Fail{Kind: "stack-overflow", Msg: "wasm error: stack overflow"}
			}
			acc = n
		case ATableSet:
			in.Table[a.A] = int(a.B)
		case AExit:
			if !in.Closed {
				in.Closed = true
				in.ExitCode = uint32(a.A)
			}
			return 0, &Fail{Kind: "exit", ExitCode: uint32(a.A)}
		case AMemInit:
			if in.DataDropped {
				return 0, trap(TrapOOBLoad)
			}
			in.Cells[a.A] = PassiveData
		case ADataDrop:
			in.DataDropped = true
		case ATableInit:
			if in.ElemDropped {
				return 0, trap(TrapNullCall)
			}
			in.Table[a.A] = in.P.PassiveElemFunc()
		case AElemDrop:
			in.ElemDropped = true
		case AStdout, AOpen, AClose, AReaddir, AClock, ARandom:
			panic("plan model: WASI atoms are not modelled")
		case ACallGRef:
			in.Table[SlotGRef] = -3
			acc = w.gleaf(in, acc)
		case AWide:
			name := in.P.Name + ".wide"
			b := int64(acc) * 3
			cf := float32(acc & 0xFF)
			df := float64(acc & 0xFFFF)
			w.chain = append(w.chain, name)
			w.emit(in, Event{Kind: "before", Func: name, Vals: []uint64{uint64(uint32(acc)), uint64(b), uint64(math.Float32bits(cf)), math.Float64bits(df)}, Chain: w.curChain()})
			w.chain = w.chain[:len(w.chain)-1]
			r0 := b + int64(acc)
			r1 := acc + int32(cf) + int32(df)
			w.emit(in, Event{Kind: "after", Func: name, Vals: []uint64{uint64(r0), uint64(uint32(r1))}})
			acc = int32(r0) + r1
		case AAtomicAdd:
			old := in.Cells[a.A]
			in.Cells[a.A] = old + a.B
			acc += old
		}
	}
	return acc + int32(fn) + 1, nil
}

// Host2 is the pure function behind env.h2.
func Host2(x int32) (int32, int32) { return x + 1, x * 2 }
