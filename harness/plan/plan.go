// Package plan defines the instrument guests of the call-history simulators
// (C06, C20, C11, C12): a tape-generated list of functions made of atoms, a
// compiler from plans to WebAssembly (via wasmb, independent of wazero's
// encoders) and an executable model that walks the same atoms over a model
// state, so that "effects before the failure persist, none after" is an exact
// prediction.
package plan

import (
	"fmt"

	"verifharness/tape"
	"verifharness/wasmb"
)

type Kind int

const (
	AStore     Kind = iota // cell A := B
	AStoreAcc              // cell A := acc
	ALoadAcc               // acc += cell A
	AGAdd                  // global A += B
	ACall                  // acc = f_A(acc + B)
	ACallImp               // acc = imported f_A(acc + B)
	ACallI                 // acc = table[A](acc)  (call_indirect)
	AHost                  // acc = host(tag=A, acc)
	ATrap                  // trap of kind A
	AGrow                  // memory.grow A
	ARec                   // acc = rec_A(acc)  (unbounded recursion)
	ATableSet              // table[A] := f_B
	AExit                  // proc_exit(A)
	AMemInit               // memory.init seg0 into cell A (one cell), traps if dropped
	ADataDrop              // data.drop seg0
	ATableInit             // table.init elem1 -> slot A (one entry), traps if dropped
	AElemDrop              // elem.drop elem1
	ATailCall              // return_call f_A(acc + B)   (only when TailCalls)
	AStdout                // fd_write(1, cell A), acc += errno (WASI atoms: not modelled, C11 only)
	AOpen                  // path_open(3,"f",O_CREAT); acc += errno*1000 + fd
	AClose                 // fd_close(last opened fd); acc += errno
	ACallGRef              // table[5] := (immutable funcref global = ref.func gleaf); acc = table[5](acc)
	AAtomicAdd             // acc += atomic.rmw.add(cell A, B)   (only when Atomics)
	AWide                  // (r0,r1) = wide(acc, i64, f32, f64): multi-value, mixed types; acc = low32(r0) + r1
	AFarStore              // page A (1..MaxPages-1), cell B := acc|1   (traps out of bounds unless the memory was grown that far)
	AFarLoad               // acc += page A, cell B                      (same)
	AReaddir               // fd_readdir(3, buf, len=A, cookie=B): acc += errno*1000 (WASI atoms, C11 only)
	AHost2                 // (r0,r1) = host2(acc): a host function with more results than parameters; acc = r0 + r1
	AClock                 // clock_time_get(A: 0 realtime, 1 monotonic): acc += errno*1000 + low 32 bits of the reading (WASI atoms, C11 only)
	ARandom                // random_get(4 bytes): acc += errno*1000 + the word (WASI atoms, C11 only)
	ALoop                  // a counted loop of three iterations (a loop header in the function): acc += 3
	ABrIfRet               // if acc == A { return acc } written as br_if to the function's own label (mostly NOT taken)
)

const (
	TrapUnreachable = iota
	TrapDivZero
	TrapOOBLoad
	TrapOOBStore
	TrapNullCall
	TrapSigMismatch
	TrapTruncOverflow
	NumTraps              // traps available without the threads feature
	TrapAtomicOOB8        = NumTraps
	TrapAtomicCmpxchgOOB8 = NumTraps + 1
	NumTrapsAtomics       = NumTraps + 2
)

var TrapMsg = []string{
	"wasm error: unreachable",
	"wasm error: integer divide by zero",
	"wasm error: out of bounds memory access",
	"wasm error: out of bounds memory access",
	"wasm error: invalid table access",
	"wasm error: indirect call type mismatch",
	"wasm error: integer overflow",
	"wasm error: out of bounds memory access",
	"wasm error: out of bounds memory access",
}

// FarAddr is the address of far cell c of page p: the last NFar words of the page.
func FarAddr(p, c int32) int32 { return (p+1)*65536 - 4*(NFar-c) }

type Atom struct {
	K    Kind
	A, B int32
}

func (a Atom) String() string {
	n := []string{"store", "storeacc", "loadacc", "gadd", "call", "callimp", "calli", "host", "trap", "grow", "rec", "tableset", "exit", "meminit", "datadrop", "tableinit", "elemdrop", "tailcall", "stdout", "open", "close", "callgref", "atomicadd", "wide", "farstore", "farload", "readdir", "host2", "clock", "random", "loop", "brifret"}[a.K]
	return fmt.Sprintf("%s(%d,%d)", n, a.A, a.B)
}

type Func struct {
	Atoms []Atom
	// Ret is how the function leaves when it runs to its end: 0 falls off the
	// end, 1 return, 2 br to the function label, 3 br_if (taken), 4 br_table
	// (arm), 5 br_table (default), 6 br out of a nested block
	Ret int
}

const NumRetKinds = 9

const (
	NCells            = 16
	NFar              = 4 // cells per page beyond the first, at the END of the page
	NGlobals          = 4
	TableSize         = 8
	MaxPages          = 4
	SlotGRef          = 5 // where the funcref-global atom parks its reference
	SlotNull          = 6 // always null initially
	SlotOdd           = 7 // holds a function of another signature
	PassiveData int32 = 0x5EEDF00D
	ActiveData  int32 = 0x00C0FFEE // initial value of the last cell (active data segment)
)

// Plan is one guest module.
type Plan struct {
	Funcs     []Func
	RecLocals [2]int // number of i64 locals of rec0/rec1
	PreFd     int32  // WASI atoms: the pre-opened directory descriptor they use (0 means 3)
	RecHost   bool   // rec0/rec1 call the pure host function env.recprobe at every level before recursing
	// NImports: number of functions imported from module ImportFrom
	// (f_0..f_{NImports-1} of that module's plan).
	NImports   int
	ImportFrom string
	Name       string
	TailCalls  bool
	// StartFn >= 0: the module has a start function that calls f_StartFn(StartArg) and drops the result
	StartFn  int
	StartArg int32
	HasStart bool
	// StartExported: the start function is not the module's start section but an exported "_start"
	StartExported bool
	Host2         bool // imports env.h2 (after the plan imports)
}

// Opts steer generation.
type Opts struct {
	MinFuncs, MaxFuncs int
	MaxAtoms           int
	Host               bool // host atoms
	Traps              bool
	Rec                bool
	Exit               bool
	Grow               bool
	Table              bool
	Segments           bool
	NImports           int
	ImportFrom         string
	TailCalls          bool
	HostTags           int
	WASI               bool // stdout / path_open / fd_close atoms (no model support)
	GRef               bool // funcref-global atom
	Atomics            bool // atomic atoms and traps (needs the threads feature)
	Wide               bool // the multi-value mixed-type function
	ReaddirHeavy       bool // WASI: many fd_readdir atoms
	Host2              bool // env.h2: (i32) -> (i32, i32), pure; the embedder must export it
	Loopy              bool // many loop atoms: exit-code checks at loop headers when close-on-context-done is on
}

// Generate draws a plan from the tape.
func Generate(t *tape.Tape, o Opts) *Plan {
	p := &Plan{NImports: o.NImports, ImportFrom: o.ImportFrom, TailCalls: o.TailCalls, Host2: o.Host2}
	n := t.Range(o.MinFuncs, o.MaxFuncs)
	p.RecLocals = [2]int{t.Choose(8), 8 + t.Choose(193)}
	val := int32(100)
	tags := o.HostTags
	if tags == 0 {
		tags = 4
	}
	for i := 0; i < n; i++ {
		var f Func
		na := t.Range(1, o.MaxAtoms)
		for j := 0; j < na; j++ {
			val++
			// weights: store, storeacc, loadacc, gadd, call, callimp, calli, host, trap, grow, rec, tableset, exit, meminit, datadrop, tableinit, elemdrop, tailcall
			w := []int{4, 3, 2, 3, 4, 0, 0, 0, 0, 0, 0, 0, 0, 0, 0, 0, 0, 0, 0, 0, 0, 0, 0, 0, 0, 0, 0, 0, 0, 0, 2, 2}
			if o.Wide {
				w[AWide] = 2
			}
			if o.Loopy {
				w[ALoop] = 12
			}
			if o.Host2 {
				w[AHost2] = 2
			}
			if o.WASI {
				w[AStdout], w[AOpen], w[AClose], w[AReaddir] = 3, 2, 2, 3
				w[AClock], w[ARandom] = 2, 1
				if o.ReaddirHeavy {
					w[AReaddir] = 14
				}
			}
			if o.GRef {
				w[ACallGRef] = 2
			}
			if o.Atomics {
				w[AAtomicAdd] = 2
			}
			if i == n-1 {
				w[ACall] = 0
			}
			if o.NImports > 0 {
				w[ACallImp] = 3
			}
			if o.Table {
				w[ACallI] = 2
				w[ATableSet] = 1
			}
			if o.Host {
				w[AHost] = 4
			}
			if o.Traps {
				w[ATrap] = 1
			}
			if o.Grow {
				w[AGrow] = 1
				w[AFarStore], w[AFarLoad] = 1, 1
			}
			if o.Rec {
				w[ARec] = 1
			}
			if o.Exit {
				w[AExit] = 1
			}
			if o.Segments {
				w[AMemInit], w[ADataDrop], w[ATableInit], w[AElemDrop] = 1, 1, 1, 1
			}
			if o.TailCalls && i < n-1 {
				w[ATailCall] = 1
			}
			k := Kind(t.Weighted(w...))
			a := Atom{K: k}
			switch k {
			case AStore:
				a.A, a.B = int32(t.Choose(NCells)), val
			case AStoreAcc, ALoadAcc:
				a.A = int32(t.Choose(NCells))
			case AStdout:
				a.A, a.B = int32(t.Choose(NCells)), int32(1+t.Choose(2)) // B: descriptor 1 or 2
			case AGAdd:
				a.A, a.B = int32(t.Choose(NGlobals)), int32(1+t.Choose(9))
			case ACall, ATailCall:
				a.A, a.B = int32(i+1+t.Choose(n-i-1)), int32(t.Choose(5))
			case ACallImp:
				a.A, a.B = int32(t.Choose(o.NImports)), int32(t.Choose(5))
			case ACallI:
				// slots >= i keep the call graph acyclic (slot s only ever holds f_j, j > s)
				lo := i
				if lo > TableSize-1 {
					lo = TableSize - 1
				}
				a.A = int32(lo + t.Choose(TableSize-lo))
			case AHost:
				a.A = int32(t.Choose(tags))
				a.B = int32(t.Choose(2)) // 1: through a function table (call_indirect on table 1) instead of a direct call
			case ATrap:
				if o.Atomics {
					a.A = int32(t.Choose(NumTrapsAtomics))
				} else {
					a.A = int32(t.Choose(NumTraps))
				}
			case AAtomicAdd:
				a.A, a.B = int32(t.Choose(NCells)), int32(1+t.Choose(9))
			case AGrow:
				a.A = int32(t.Choose(3))
			case AClock:
				a.A = int32(t.Choose(2))
			case ABrIfRet:
				a.A, a.B = int32(t.Choose(40)), int32(t.Choose(2)) // arguments are small numbers: sometimes taken
			case AReaddir:
				// buffer sizes from "not even one header" to several entries; cookies computed, not returned
				a.A, a.B = int32(tape.Pick(t, []int{24, 40, 64, 100})), int32(t.Choose(3))
			case AFarStore, AFarLoad:
				a.A, a.B = int32(1+t.Choose(MaxPages-1)), int32(t.Choose(NFar))
			case ARec:
				// B: 0 unbounded, 1 bounded by acc&15, 2 unbounded for odd acc / bounded for even acc
				a.A, a.B = int32(t.Choose(2)), int32(t.Choose(3))
			case ATableSet:
				s := t.Choose(TableSize - 2)
				if s+1 >= n {
					a = Atom{K: AGAdd, A: 0, B: 1}
				} else {
					a.A, a.B = int32(s), int32(s+1+t.Choose(n-s-1))
				}
			case AExit:
				a.A = int32(t.Choose(5))
			case AMemInit:
				a.A = int32(t.Choose(NCells))
			case ATableInit:
				s := t.Choose(TableSize - 2)
				if n-1 <= s {
					a = Atom{K: AGAdd, A: 1, B: 1}
				} else {
					a.A = int32(s)
				}
			}
			f.Atoms = append(f.Atoms, a)
			if k == ATailCall || k == AExit {
				break
			}
		}
		f.Ret = t.Choose(NumRetKinds)
		p.Funcs = append(p.Funcs, f)
	}
	return p
}

// Function indices in the emitted module.
type Layout struct {
	Host, ProcExit             uint32
	FdWrite, PathOpen, FdClose uint32
	FdReaddir                  uint32
	ClockTimeGet, RandomGet    uint32
	Imp0                       uint32 // first imported plan function
	Host2                      uint32 // env.h2, when the plan has it
	RecProbe                   uint32 // env.recprobe, when the plan has it
	F0                         uint32 // first plan function
	Rec0                       uint32
	Odd                        uint32
	Gleaf                      uint32
	Wide                       uint32
	TypeGuest                  uint32
}

func (p *Plan) Layout() Layout {
	l := Layout{Host: 0, ProcExit: 1, FdWrite: 2, PathOpen: 3, FdClose: 4, FdReaddir: 5, ClockTimeGet: 6, RandomGet: 7, Imp0: 8}
	l.F0 = 8 + uint32(p.NImports)
	if p.Host2 {
		l.Host2 = l.F0
		l.F0++
	}
	if p.RecHost {
		l.RecProbe = l.F0
		l.F0++
	}
	l.Rec0 = l.F0 + uint32(len(p.Funcs))
	l.Odd = l.Rec0 + 2
	l.Gleaf = l.Odd + 1
	l.Wide = l.Gleaf + 1
	return l
}

// PassiveElemFunc: the function the passive element segment (elem 1) holds:
// the last plan function (satisfies "slot s holds f_j with j > s" for s < n-1).
func (p *Plan) PassiveElemFunc() int { return len(p.Funcs) - 1 }

// Encode compiles the plan to a WebAssembly binary.
func (p *Plan) Encode() []byte {
	m := &wasmb.Module{Name: p.Name, NameSection: true}
	i32 := []wasmb.ValType{wasmb.I32}
	l := p.Layout()
	preFd := p.PreFd
	if preFd == 0 {
		preFd = 3
	}
	m.ImportFunc("env", "h", []wasmb.ValType{wasmb.I32, wasmb.I32}, i32)
	m.ImportFunc("wasi_snapshot_preview1", "proc_exit", i32, nil)
	w32, w64 := wasmb.I32, wasmb.I64
	m.ImportFunc("wasi_snapshot_preview1", "fd_write", []wasmb.ValType{w32, w32, w32, w32}, i32)
	m.ImportFunc("wasi_snapshot_preview1", "path_open", []wasmb.ValType{w32, w32, w32, w32, w32, w64, w64, w32, w32}, i32)
	m.ImportFunc("wasi_snapshot_preview1", "fd_close", i32, i32)
	m.ImportFunc("wasi_snapshot_preview1", "fd_readdir", []wasmb.ValType{w32, w32, w32, w64, w32}, i32)
	m.ImportFunc("wasi_snapshot_preview1", "clock_time_get", []wasmb.ValType{w32, w64, w32}, i32)
	m.ImportFunc("wasi_snapshot_preview1", "random_get", []wasmb.ValType{w32, w32}, i32)
	for i := 0; i < p.NImports; i++ {
		m.ImportFunc(p.ImportFrom, fmt.Sprintf("f%d", i), i32, i32)
	}
	if p.Host2 {
		m.ImportFunc("env", "h2", i32, []wasmb.ValType{w32, w32})
	}
	if p.RecHost {
		m.ImportFunc("env", "recprobe", i32, i32)
	}
	tGuest := m.AddType(i32, i32)
	tHost := m.AddType([]wasmb.ValType{wasmb.I32, wasmb.I32}, i32)
	n := len(p.Funcs)
	for i, f := range p.Funcs {
		c := &wasmb.Code{}
		// local 0 = param, local 1 = acc
		c.LocalGet(0).LocalSet(1)
		tail := false
		for _, a := range f.Atoms {
			switch a.K {
			case AStore:
				c.I32Const(8 * a.A).I32Const(a.B).I32Store(0)
			case AStoreAcc:
				c.I32Const(8 * a.A).LocalGet(1).I32Store(0)
			case ALoadAcc:
				c.LocalGet(1).I32Const(8 * a.A).I32Load(0).I32Add().LocalSet(1)
			case AGAdd:
				c.GlobalGet(uint32(a.A)).I32Const(a.B).I32Add().GlobalSet(uint32(a.A))
			case ACall:
				c.LocalGet(1).I32Const(a.B).I32Add().Call(l.F0 + uint32(a.A)).LocalSet(1)
			case ATailCall:
				c.LocalGet(1).I32Const(a.B).I32Add().ReturnCall(l.F0 + uint32(a.A))
				tail = true
			case ACallImp:
				c.LocalGet(1).I32Const(a.B).I32Add().Call(l.Imp0 + uint32(a.A)).LocalSet(1)
			case ACallI:
				c.LocalGet(1).I32Const(a.A).CallIndirect(tGuest, 0).LocalSet(1)
			case AHost:
				if a.B == 1 {
					c.I32Const(a.A).LocalGet(1).I32Const(0).CallIndirect(tHost, 1).LocalSet(1)
				} else {
					c.I32Const(a.A).LocalGet(1).Call(l.Host).LocalSet(1)
				}
			case ATrap:
				switch a.A {
				case TrapUnreachable:
					c.Unreachable()
				case TrapDivZero:
					c.LocalGet(1).I32Const(0).I32DivS().LocalSet(1)
				case TrapOOBLoad:
					c.I32Const(0x7ffffff0).I32Load(0).LocalSet(1)
				case TrapOOBStore:
					c.I32Const(-8).LocalGet(1).I32Store(0)
				case TrapNullCall:
					c.LocalGet(1).I32Const(SlotNull).CallIndirect(tGuest, 0).LocalSet(1)
				case TrapSigMismatch:
					c.LocalGet(1).I32Const(SlotOdd).CallIndirect(tGuest, 0).LocalSet(1)
				case TrapTruncOverflow:
					c.F32Const(1e30).I32TruncF32S().LocalSet(1)
				case TrapAtomicOOB8:
					c.I32Const(0x7ffffff0).I32Const(1).Raw(0xFE, 0x20, 0, 0).LocalSet(1)
				case TrapAtomicCmpxchgOOB8:
					c.I32Const(0x7ffffff0).I32Const(1).I32Const(2).Raw(0xFE, 0x4A, 0, 0).LocalSet(1)
				}
			case AGrow:
				c.I32Const(a.A).MemoryGrow().Drop()
			case AReaddir:
				// cookies are indexes: skip ahead by exactly what the previous call made the host read
				// (len/24+2 entries), three times; call the host (the scheduler may run other instances);
				// read again from the last cookie with a larger buffer.  acc += errno*1000 each time
				// (the number of bytes used depends on the host's directory order: not part of the result)
				stride := a.A/24 + 2
				rd := func(ln int32) {
					c.I32Const(preFd).I32Const(0x400).I32Const(ln).LocalGet(2).I64ExtendI32U().I32Const(0x3f0).Call(l.FdReaddir)
					c.I32Const(1000).I32Mul().LocalGet(1).I32Add().LocalSet(1)
				}
				c.I32Const(a.B).LocalSet(2)
				for k := 0; k < 3; k++ {
					rd(a.A)
					if k < 2 {
						c.LocalGet(2).I32Const(stride).I32Add().LocalSet(2)
					}
				}
				c.I32Const(0).LocalGet(1).Call(l.Host).LocalSet(1)
				rd(256)
			case AHost2:
				c.LocalGet(1).Call(l.Host2).I32Add().LocalSet(1)
			case ALoop:
				c.I32Const(0).LocalSet(2).Loop(wasmb.BlockVoid).
					LocalGet(2).I32Const(1).I32Add().LocalTee(2).I32Const(3).I32LtU().BrIf(0).End().
					LocalGet(1).I32Const(3).I32Add().LocalSet(1)
			case ABrIfRet:
				// (atoms are emitted at the top level of the function body: label 0 is the function's)
				if a.B == 1 {
					// ... with another operand pending below the result when the branch leaves the function
					c.I32Const(0x5a5a5a).LocalGet(1).LocalGet(1).I32Const(a.A).I32Eq().BrIf(0).Drop().Drop()
				} else {
					c.LocalGet(1).LocalGet(1).I32Const(a.A).I32Eq().BrIf(0).Drop()
				}
			case AClock:
				c.I32Const(a.A).I64Const(1).I32Const(0x3e0).Call(l.ClockTimeGet).I32Const(1000).I32Mul().
					I32Const(0x3e0).I32Load(0).I32Add().LocalGet(1).I32Add().LocalSet(1)
			case ARandom:
				c.I32Const(0x3d0).I32Const(4).Call(l.RandomGet).I32Const(1000).I32Mul().
					I32Const(0x3d0).I32Load(0).I32Add().LocalGet(1).I32Add().LocalSet(1)
			case AFarStore:
				c.I32Const(FarAddr(a.A, a.B)).LocalGet(1).I32Const(1).I32Or().I32Store(0)
			case AFarLoad:
				c.LocalGet(1).I32Const(FarAddr(a.A, a.B)).I32Load(0).I32Add().LocalSet(1)
			case ARec:
				switch a.B {
				case 0:
					c.I32Const(1 << 30)
				case 1:
					c.LocalGet(1).I32Const(15).I32And()
				default:
					c.LocalGet(1).I32Const(1).I32And().I32Const(30).I32Shl().LocalGet(1).I32Const(7).I32And().I32Or()
				}
				c.Call(l.Rec0 + uint32(a.A)).LocalSet(1)
			case ATableSet:
				c.I32Const(a.A).RefFunc(l.F0 + uint32(a.B)).TableSet(0)
			case AExit:
				c.I32Const(a.A).Call(l.ProcExit)
			case AMemInit:
				c.I32Const(8 * a.A).I32Const(0).I32Const(4).MemoryInit(0)
			case ADataDrop:
				c.DataDrop(0)
			case ATableInit:
				c.I32Const(a.A).I32Const(0).I32Const(1).TableInit(1, 0)
			case AElemDrop:
				c.ElemDrop(1)
			case AStdout:
				c.I32Const(0x100).I32Const(8 * a.A).I32Store(0)
				c.I32Const(0x104).I32Const(4).I32Store(0)
				fd := a.B
				if fd != 2 {
					fd = 1
				}
				c.LocalGet(1).I32Const(fd).I32Const(0x100).I32Const(1).I32Const(0x110).Call(l.FdWrite).I32Add().LocalSet(1)
			case AOpen:
				c.I32Const(0x130).I32Const(-1).I32Store(0)
				c.I32Const(preFd).I32Const(0).I32Const(0x120).I32Const(1).I32Const(1).I64Const(0x42).I64Const(0x42).I32Const(0).I32Const(0x130).Call(l.PathOpen)
				c.I32Const(1000).I32Mul().I32Const(0x130).I32Load(0).I32Add().LocalGet(1).I32Add().LocalSet(1)
			case AClose:
				c.LocalGet(1).I32Const(0x130).I32Load(0).Call(l.FdClose).I32Add().LocalSet(1)
			case ACallGRef:
				c.I32Const(SlotGRef).GlobalGet(NGlobals).TableSet(0)
				c.LocalGet(1).I32Const(SlotGRef).CallIndirect(tGuest, 0).LocalSet(1)
			case AAtomicAdd:
				c.I32Const(8*a.A).I32Const(a.B).Raw(0xFE, 0x1E, 2, 0).LocalGet(1).I32Add().LocalSet(1)
			case AWide:
				// wide(acc, i64(acc)*3, f32(acc&0xFF), f64(acc&0xFFFF)) -> (i64, i32); acc = wrap(r0) + r1
				c.LocalGet(1)
				c.LocalGet(1).I64ExtendI32S().I64Const(3).I64Mul()
				c.LocalGet(1).I32Const(0xFF).I32And().F32ConvertI32S()
				c.LocalGet(1).I32Const(0xFFFF).I32And().F64ConvertI32S()
				c.Call(l.Wide).LocalSet(1).I32WrapI64().LocalGet(1).I32Add().LocalSet(1)
			}
			if tail {
				break
			}
		}
		if !tail {
			c.LocalGet(1).I32Const(int32(i + 1)).I32Add()
			// leave through one of the ways a function can return (same value either way)
			switch f.Ret {
			case 1:
				c.Return()
			case 2:
				c.Br(0)
			case 3:
				c.I32Const(1).BrIf(0).Drop().Unreachable()
			case 4:
				c.I32Const(0).BrTable([]uint32{0, 0}, 0)
			case 5:
				c.I32Const(9).BrTable([]uint32{0}, 0)
			case 6:
				c.LocalSet(1).Block(wasmb.BlockVoid).Block(wasmb.BlockVoid).LocalGet(1).Br(2).End().End().Unreachable()
			case 7:
				// other operands are pending below the result when the function is left
				c.LocalSet(1).I64Const(0x5a5a5a5a5a).LocalGet(1).Return()
			case 8:
				c.LocalSet(1).I32Const(0x5a5a5a).I32Const(0x3c3c3c).LocalGet(1).Br(0)
			}
		}
		m.AddFunc(i32, i32, []wasmb.ValType{wasmb.I32, wasmb.I32}, c.B, fmt.Sprintf("f%d", i))
	}
	// rec0, rec1: rec(n) = n <= 0 ? 0 : rec(n-1)+1, with i64 locals kept live across the call
	// (a huge n exhausts the stack, a small n returns n)
	for r := 0; r < 2; r++ {
		nl := p.RecLocals[r]
		c := &wasmb.Code{}
		locals := make([]wasmb.ValType, nl)
		c.LocalGet(0).I32Const(1).I32LtS().If(wasmb.BlockVoid).I32Const(0).Return().End()
		for i := range locals {
			locals[i] = wasmb.I64
			c.LocalGet(0).I64ExtendI32U().I64Const(int64(i)).I64Add().LocalSet(uint32(1 + i))
		}
		if p.RecHost {
			c.LocalGet(0).Call(l.RecProbe).Drop()
		}
		c.LocalGet(0).I32Const(1).I32Sub().Call(l.Rec0 + uint32(r))
		for i := range locals {
			// adds zero, but keeps the local live across the call
			c.LocalGet(uint32(1 + i)).I32WrapI64().LocalGet(0).I32Const(int32(i)).I32Add().I32Xor().I32Add()
		}
		c.I32Const(1).I32Add()
		m.AddFunc(i32, i32, locals, c.B, fmt.Sprintf("rec%d", r))
	}
	m.AddFunc(nil, nil, nil, (&wasmb.Code{}).B, "")
	// gleaf(x): bumps global 3 of ITS OWN instance and returns x+1; reachable only through the
	// immutable funcref global (index NGlobals)
	m.AddFunc(i32, i32, nil, (&wasmb.Code{}).GlobalGet(3).I32Const(1).I32Add().GlobalSet(3).LocalGet(0).I32Const(1).I32Add().B, "gleaf")
	// table 1 holds the imported host function: host atoms may reach it with call_indirect
	m.Tables = []wasmb.Table{{Elem: wasmb.FuncRef, Lim: wasmb.Limits{Min: TableSize, Max: TableSize, HasMax: true}}, {Elem: wasmb.FuncRef, Lim: wasmb.Limits{Min: 1, Max: 1, HasMax: true}}}
	m.Mem = &wasmb.Limits{Min: 1, Max: MaxPages, HasMax: true}
	for g := 0; g < NGlobals; g++ {
		m.Globals = append(m.Globals, wasmb.Global{Type: wasmb.I32, Mut: true, Init: wasmb.ConstI32(int32(1000 * (g + 1)))})
		m.Exports = append(m.Exports, wasmb.Export{Name: fmt.Sprintf("g%d", g), Kind: wasmb.KindGlobal, Idx: uint32(g)})
	}
	// wide(a i32, b i64, c f32, d f64) -> (b + i64(a), a + trunc(c) + trunc(d))
	{
		wc := &wasmb.Code{}
		wc.LocalGet(1).LocalGet(0).I64ExtendI32S().I64Add()
		wc.LocalGet(0).LocalGet(2).I32TruncF32S().I32Add().LocalGet(3).I32TruncF64S().I32Add()
		m.AddFunc([]wasmb.ValType{wasmb.I32, wasmb.I64, wasmb.F32, wasmb.F64}, []wasmb.ValType{wasmb.I64, wasmb.I32}, nil, wc.B, "wide")
	}
	if p.HasStart {
		if p.StartExported {
			// a WASI-command style start: exported as "_start", run by InstantiateModule after registration
			m.AddFunc(nil, nil, nil, (&wasmb.Code{}).I32Const(p.StartArg).Call(l.F0+uint32(p.StartFn)).Drop().B, "_start")
		} else {
			st := m.AddFunc(nil, nil, nil, (&wasmb.Code{}).I32Const(p.StartArg).Call(l.F0+uint32(p.StartFn)).Drop().B, "")
			m.Start = &st
		}
	}
	m.Globals = append(m.Globals, wasmb.Global{Type: wasmb.FuncRef, Mut: false, Init: wasmb.ConstRefFunc(l.Gleaf)})
	m.Exports = append(m.Exports, wasmb.Export{Name: "mem", Kind: wasmb.KindMemory, Idx: 0})
	// element 0 (active): slot s = f_{s+1}; element 1 (passive): [last f]; element 2: odd at SlotOdd
	var fs []uint32
	for s := 0; s < TableSize-2 && s+1 < n; s++ {
		fs = append(fs, l.F0+uint32(s+1))
	}
	if len(fs) > 0 {
		m.Elems = append(m.Elems, wasmb.Elem{Mode: 0, Offset: wasmb.ConstI32(0), Funcs: fs})
	} else {
		m.Elems = append(m.Elems, wasmb.Elem{Mode: 2, Funcs: []uint32{l.F0}})
	}
	m.Elems = append(m.Elems, wasmb.Elem{Mode: 1, Funcs: []uint32{l.F0 + uint32(p.PassiveElemFunc())}})
	m.Elems = append(m.Elems, wasmb.Elem{Mode: 0, Offset: wasmb.ConstI32(SlotOdd), Funcs: []uint32{l.Odd}})
	// declare every function so ref.func validates
	var all []uint32
	for i := 0; i < n; i++ {
		all = append(all, l.F0+uint32(i))
	}
	all = append(all, l.Gleaf)
	m.Elems = append(m.Elems, wasmb.Elem{Mode: 2, Funcs: all})
	// (last, so that the indexes of the segments above stay what the atoms use)
	m.Elems = append(m.Elems, wasmb.Elem{Mode: 0, TableIdx: 1, Offset: wasmb.ConstI32(0), Funcs: []uint32{l.Host}})
	m.Datas = []wasmb.Data{{Passive: true, Bytes: []byte{0x0D, 0xF0, 0xED, 0x5E}}, {Offset: wasmb.ConstI32(0x120), Bytes: []byte("f")},
		// an active segment that initialises the LAST cell: instances start from the segment's bytes, never
		// from what another instance made of them
		{Offset: wasmb.ConstI32(8 * (NCells - 1)), Bytes: []byte{byte(ActiveData & 0xFF), byte(ActiveData >> 8 & 0xFF), byte(ActiveData >> 16 & 0xFF), byte(ActiveData >> 24 & 0xFF)}}}
	m.DataCount = true
	return m.Encode()
}
