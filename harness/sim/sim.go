// Package sim defines what a simulator is for the supervisor and the worker.
package sim

import (
	"crypto/sha256"
	"encoding/hex"
	"fmt"
	"sort"
	"strings"

	"verifharness/tape"
)

// Violation is a property violation found in one run.  Class is stable under
// shrinking (shrinking keeps candidates whose Class is equal).
type Violation struct {
	Class  string `json:"class"`
	Detail string `json:"detail"`
}

// Result of one simulated run.
type Result struct {
	Violation *Violation `json:"violation,omitempty"`
	// Known lists signatures of recorded known findings this run hit (and
	// judged to match the recorded signature exactly).
	Known []string `json:"known,omitempty"`
	// Stats: fired-fault counters ("fault.<kind>"), probes ("probe.<name>"),
	// anything else the evidence should sum up.
	Stats map[string]int64 `json:"stats,omitempty"`
	// Shape is what distinct_nontrivial is counted over.
	Shape      string `json:"shape,omitempty"`
	Nontrivial bool   `json:"nontrivial,omitempty"`
	// Trace is the deterministic event log of the run (used for the
	// determinism self-test and printed in replay files).
	Trace []string `json:"trace,omitempty"`
	// SimNs is simulated time covered (synctest sims), Steps the number of
	// simulator steps (operations, yields).
	SimNs int64 `json:"sim_ns,omitempty"`
	Steps int64 `json:"steps,omitempty"`
	// Sample is a decoded, human-readable form of the case.
	Sample any `json:"sample,omitempty"`
}

func (r *Result) Stat(k string, d int64) {
	if r.Stats == nil {
		r.Stats = map[string]int64{}
	}
	r.Stats[k] += d
}

func (r *Result) Logf(f string, a ...any) {
	r.Trace = append(r.Trace, fmt.Sprintf(f, a...))
}

func (r *Result) Fail(class, f string, a ...any) {
	if r.Violation == nil {
		r.Violation = &Violation{Class: class, Detail: fmt.Sprintf(f, a...)}
	}
}

func (r *Result) TraceHash() string {
	h := sha256.New()
	for _, l := range r.Trace {
		h.Write([]byte(l))
		h.Write([]byte{'\n'})
	}
	if r.Violation != nil {
		h.Write([]byte("V:" + r.Violation.Class))
	}
	return hex.EncodeToString(h.Sum(nil))[:16]
}

func ShapeOf(parts ...string) string {
	h := sha256.Sum256([]byte(strings.Join(parts, "|")))
	return hex.EncodeToString(h[:8])
}

// Class is one run class of a simulator: a configuration of the workload and
// fault mix that is counted separately.
type Class struct {
	Name   string `json:"name"`
	Engine string `json:"engine"` // "compiler", "interpreter" or "" (n/a)
	// Runs to execute in the quick and thorough tiers.
	Quick    int `json:"quick"`
	Thorough int `json:"thorough"`
	// Isolate: process death / hang of the worker is attributed to the
	// announced run and is a *violation* of the property (class DeathClass).
	// When false, worker death is harness trouble (exit 2).
	DeathIsViolation bool `json:"death_is_violation,omitempty"`
	// RunTimeoutSec is the watchdog per run (0 = default 120).
	RunTimeoutSec int `json:"run_timeout_sec,omitempty"`
	// Batch is the number of runs per worker process (0 = split evenly).
	Batch int `json:"batch,omitempty"`
	// Toolchain: "" default go, "go1.26.8" for synctest workers.
	Toolchain string `json:"toolchain,omitempty"`
	// NeedsCLI: the class drives the command-line tool (cmd/wazero), which the driver builds from the
	// repository under check and announces in VERIF_WAZERO_CLI.
	NeedsCLI bool `json:"needs_cli,omitempty"`
	// NeedsPIEWorker: the driver also builds the worker as a position-independent executable
	// (VERIF_PIE_WORKER) for checks that compare the output of differently laid out binaries.
	NeedsPIEWorker bool `json:"needs_pie_worker,omitempty"`
	// Instrumented: needs the instrumented copy of the repository.
	Instrumented bool `json:"instrumented,omitempty"`
	// ExpectDeath: sacrificial class – every run is expected to kill the
	// worker with a fatal error matching DeathPattern; this confirms a known
	// finding (KnownSig).  Survival is reported as "finding no longer
	// reproduces" (not a violation).
	ExpectDeath  bool   `json:"expect_death,omitempty"`
	DeathPattern string `json:"death_pattern,omitempty"`
	KnownSig     string `json:"known_sig,omitempty"`
	// Sequential: enumerated rather than sampled (run index = case index).
	Enumerated bool `json:"enumerated,omitempty"`
}

// Config is handed to Run.
type Config struct {
	Class  string
	Engine string
	Tier   string
	Run    uint64
	Seed   uint64
}

// Sim is one simulator (one per property).
type Sim interface {
	Property() string
	Classes() []Class
	// Run executes one run.  It must be deterministic in (tape, cfg.Class,
	// cfg.Engine, cfg.Run only for enumerated classes).
	Run(t *tape.Tape, cfg Config) Result
	// Describe static facts for the evidence file.
	Describe() Description
}

type Description struct {
	Rule        string   `json:"rule"`
	RealCode    []string `json:"real_code"`
	Stubs       []string `json:"stubs"`
	Assumptions []string `json:"assumptions"`
	Level       string   `json:"level"`
	FaultKinds  []string `json:"fault_kinds"`
}

var registry = map[string]Sim{}

func Register(s Sim) { registry[strings.ToLower(s.Property())] = s }

func Get(name string) Sim { return registry[strings.ToLower(name)] }

func Names() []string {
	var n []string
	for k := range registry {
		n = append(n, k)
	}
	sort.Strings(n)
	return n
}
