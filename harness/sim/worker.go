package sim

import (
	"bufio"
	"encoding/json"
	"flag"
	"fmt"
	"os"
	"os/exec"
	"strconv"
	"strings"
	"time"

	"verifharness/tape"
)

// Line is one protocol line from worker to supervisor ("@@ " + JSON).
type Line struct {
	T          string           `json:"t"` // start | res | violation | nondet | classes | shrunk | done
	Run        uint64           `json:"run"`
	Hash       string           `json:"hash,omitempty"`
	Shape      string           `json:"shape,omitempty"`
	Nontrivial bool             `json:"nontrivial,omitempty"`
	Stats      map[string]int64 `json:"stats,omitempty"`
	Known      []string         `json:"known,omitempty"`
	Steps      int64            `json:"steps,omitempty"`
	SimNs      int64            `json:"sim_ns,omitempty"`
	Sample     any              `json:"sample,omitempty"`
	Class      string           `json:"class,omitempty"`
	Detail     string           `json:"detail,omitempty"`
	Tape       []uint32         `json:"tape,omitempty"`
	Trace      []string         `json:"trace,omitempty"`
	Classes    []Class          `json:"classes,omitempty"`
	Desc       *Description     `json:"desc,omitempty"`
	Msg        string           `json:"msg,omitempty"`
	TapeLen    int              `json:"tape_len,omitempty"`
}

// Replay is the replay file format.
type Replay struct {
	Property  string     `json:"property"`
	Sim       string     `json:"sim"`
	Class     string     `json:"class"`
	Engine    string     `json:"engine"`
	Tier      string     `json:"tier"`
	Seed      uint64     `json:"seed"`
	Run       uint64     `json:"run"`
	Tape      []uint32   `json:"tape"`
	TapeOrig  int        `json:"tape_len_before_minimisation"`
	Violation *Violation `json:"violation"`
	Trace     []string   `json:"trace"`
	Sample    any        `json:"sample,omitempty"`
	Note      string     `json:"note,omitempty"`
}

var out = bufio.NewWriter(os.Stdout)

func emit(l Line) {
	b, err := json.Marshal(l)
	if err != nil {
		// sample not serialisable: drop it
		l.Sample = fmt.Sprintf("%v", l.Sample)
		b, _ = json.Marshal(l)
	}
	out.WriteString("@@ ")
	out.Write(b)
	out.WriteByte('\n')
	out.Flush()
}

// WorkerMain is the entry point of the worker binary.
func WorkerMain() {
	if len(os.Args) < 2 {
		fmt.Fprintln(os.Stderr, "usage: vworker classes|run|exec|shrink ...")
		os.Exit(2)
	}
	mode := os.Args[1]
	if mode == "child" && len(os.Args) >= 3 {
		if f := childModes[os.Args[2]]; f != nil {
			f(os.Args[3:])
			return
		}
		fmt.Fprintln(os.Stderr, "unknown child mode", os.Args[2])
		os.Exit(2)
	}
	fs := flag.NewFlagSet(mode, flag.ExitOnError)
	simName := fs.String("sim", "", "simulator (property id)")
	class := fs.String("class", "", "run class")
	engine := fs.String("engine", "", "engine")
	tier := fs.String("tier", "quick", "tier")
	seed := fs.Uint64("seed", 1, "seed")
	from := fs.Uint64("from", 0, "first run index")
	to := fs.Uint64("to", 1, "one past last run index")
	tapeFile := fs.String("tape", "", "file with JSON tape (exec/shrink) or replay file")
	vclass := fs.String("vclass", "", "violation class to preserve (shrink)")
	isolate := fs.Bool("isolate", false, "shrink: run each candidate in a child process")
	budget := fs.Int("budget", 400, "shrink: candidate budget")
	detEvery := fs.Int("detevery", 25, "re-execute every n-th run from its tape and compare trace hashes")
	samples := fs.Int("samples", 2, "number of samples to emit")
	tapelog := fs.String("tapelog", "", "append every run's tape to this file before running (crash recovery)")
	timeout := fs.Int("timeout", 120, "exec: watchdog seconds for isolated candidates")
	fs.Parse(os.Args[2:])

	s := Get(*simName)
	if s == nil {
		fmt.Fprintf(os.Stderr, "unknown sim %q; have %v\n", *simName, Names())
		os.Exit(2)
	}
	cfg := Config{Class: *class, Engine: *engine, Tier: *tier, Seed: *seed}
	switch mode {
	case "classes":
		d := s.Describe()
		emit(Line{T: "classes", Classes: s.Classes(), Desc: &d})
	case "run":
		var noDet bool
		for _, c := range s.Classes() {
			if c.Name == *class && c.ExpectDeath {
				noDet = true
			}
		}
		for run := *from; run < *to; run++ {
			cfg.Run = run
			emit(Line{T: "start", Run: run})
			t := tape.New(*seed, run)
			res := s.Run(t, cfg)
			rec := t.Record()
			if res.Violation != nil {
				emit(Line{T: "violation", Run: run, Class: res.Violation.Class, Detail: res.Violation.Detail,
					Tape: rec, Trace: res.Trace, Sample: res.Sample, Hash: res.TraceHash(), Known: res.Known})
				emit(Line{T: "done"})
				return
			}
			l := Line{T: "res", Run: run, Hash: res.TraceHash(), Shape: res.Shape, Nontrivial: res.Nontrivial,
				Stats: res.Stats, Known: res.Known, Steps: res.Steps, SimNs: res.SimNs, TapeLen: len(rec)}
			if int(run-*from) < *samples {
				l.Sample = res.Sample
			}
			if !noDet && *detEvery > 0 && run%uint64(*detEvery) == 0 {
				res2 := s.Run(tape.Replay(rec), cfg)
				if res2.Violation != nil {
					// the same tape, executed again, violated the property: that execution happened (classes
					// that run real goroutines depend on their timing); it is reported as what it is
					emit(Line{T: "violation", Run: run, Class: res2.Violation.Class, Detail: res2.Violation.Detail + " [seen when the run was executed a second time from its recorded tape; the first execution passed]",
						Tape: rec, Trace: res2.Trace, Sample: res2.Sample, Hash: res2.TraceHash(), Known: res2.Known})
					emit(Line{T: "done"})
					return
				}
				if res2.TraceHash() != res.TraceHash() {
					emit(Line{T: "nondet", Run: run, Msg: "trace hash differs on re-execution from the recorded tape",
						Tape: rec, Trace: diffTrace(res.Trace, res2.Trace)})
					emit(Line{T: "done"})
					return
				}
				l.Stats = cloneStats(l.Stats)
				l.Stats["selftest.replayed_equal"]++
			}
			emit(l)
		}
		emit(Line{T: "done"})
	case "exec":
		rec, rp := loadTape(*tapeFile)
		if rp != nil {
			if cfg.Class == "" {
				cfg.Class = rp.Class
			}
			if cfg.Engine == "" {
				cfg.Engine = rp.Engine
			}
			cfg.Run, cfg.Seed = rp.Run, rp.Seed
			if rp.Tier != "" {
				cfg.Tier = rp.Tier
			}
		}
		emit(Line{T: "start", Run: cfg.Run})
		var t *tape.Tape
		if rec == nil && *tapeFile == "" {
			cfg.Run = *from
			t = tape.New(*seed, *from)
			if *tapelog != "" {
				if f, err := os.OpenFile(*tapelog, os.O_CREATE|os.O_WRONLY|os.O_TRUNC, 0o644); err == nil {
					t.Log = f
				}
			}
		} else {
			t = tape.Replay(rec)
		}
		res := s.Run(t, cfg)
		l := Line{T: "res", Run: cfg.Run, Hash: res.TraceHash(), Shape: res.Shape, Trace: res.Trace, Sample: res.Sample,
			Stats: res.Stats, Known: res.Known, Tape: t.Record()}
		if res.Violation != nil {
			l.T = "violation"
			l.Class = res.Violation.Class
			l.Detail = res.Violation.Detail
		}
		emit(l)
		emit(Line{T: "done"})
	case "shrink":
		rec, rp := loadTape(*tapeFile)
		if rp != nil {
			cfg.Class, cfg.Engine, cfg.Run, cfg.Seed = rp.Class, rp.Engine, rp.Run, rp.Seed
			if rp.Tier != "" {
				cfg.Tier = rp.Tier
			}
			if *vclass == "" && rp.Violation != nil {
				*vclass = rp.Violation.Class
			}
		}
		fails := func(c []uint32) bool {
			if *isolate {
				return execIsolated(*simName, cfg, c, *vclass, time.Duration(*timeout)*time.Second)
			}
			r := s.Run(tape.Replay(c), cfg)
			return r.Violation != nil && r.Violation.Class == *vclass
		}
		if !fails(rec) {
			emit(Line{T: "shrunk", Msg: "not reproducible", Tape: rec})
			emit(Line{T: "done"})
			return
		}
		min := tape.Shrink(rec, fails, *budget)
		emit(Line{T: "shrunk", Tape: min, Msg: "ok"})
		emit(Line{T: "done"})
	default:
		fmt.Fprintln(os.Stderr, "unknown mode", mode)
		os.Exit(2)
	}
}

func cloneStats(m map[string]int64) map[string]int64 {
	n := map[string]int64{}
	for k, v := range m {
		n[k] = v
	}
	return n
}

func diffTrace(a, b []string) []string {
	for i := 0; i < len(a) || i < len(b); i++ {
		var x, y string
		if i < len(a) {
			x = a[i]
		}
		if i < len(b) {
			y = b[i]
		}
		if x != y {
			return []string{fmt.Sprintf("first difference at event %d", i), "first:  " + x, "second: " + y}
		}
	}
	return []string{"traces equal, violation class differs"}
}

func loadTape(path string) ([]uint32, *Replay) {
	if path == "" {
		return nil, nil
	}
	b, err := os.ReadFile(path)
	if err != nil {
		fmt.Fprintln(os.Stderr, "cannot read tape:", err)
		os.Exit(2)
	}
	var rp Replay
	if err := json.Unmarshal(b, &rp); err == nil && rp.Sim != "" {
		return rp.Tape, &rp
	}
	var rec []uint32
	if err := json.Unmarshal(b, &rec); err != nil {
		fmt.Fprintln(os.Stderr, "cannot parse tape:", err)
		os.Exit(2)
	}
	return rec, nil
}

// execIsolated runs one candidate tape in a child process of the same binary
// and reports whether it fails with vclass.  Process death or a hang counts as
// failing with class DeathClass / HangClass.
func execIsolated(simName string, cfg Config, rec []uint32, vclass string, timeout time.Duration) bool {
	f, err := os.CreateTemp("", "vtape-*.json")
	if err != nil {
		return false
	}
	defer os.Remove(f.Name())
	b, _ := json.Marshal(rec)
	f.Write(b)
	f.Close()
	cmd := exec.Command(os.Args[0], "exec", "-sim", simName, "-class", cfg.Class, "-engine", cfg.Engine,
		"-tier", cfg.Tier, "-seed", strconv.FormatUint(cfg.Seed, 10), "-from", strconv.FormatUint(cfg.Run, 10), "-tape", f.Name())
	cmd.Env = os.Environ()
	outb := &strings.Builder{}
	cmd.Stdout = outb
	cmd.Stderr = nil
	done := make(chan error, 1)
	if err := cmd.Start(); err != nil {
		return false
	}
	go func() { done <- cmd.Wait() }()
	select {
	case <-done:
	case <-time.After(timeout):
		cmd.Process.Kill()
		<-done
		return vclass == HangClass
	}
	got := ""
	sawDone := false
	for _, ln := range strings.Split(outb.String(), "\n") {
		if !strings.HasPrefix(ln, "@@ ") {
			continue
		}
		var l Line
		if json.Unmarshal([]byte(ln[3:]), &l) != nil {
			continue
		}
		if l.T == "violation" {
			got = l.Class
		}
		if l.T == "done" {
			sawDone = true
		}
	}
	if !sawDone {
		return vclass == DeathClass
	}
	return got == vclass
}

var childModes = map[string]func(args []string){}

// RegisterChildMode registers a helper mode of the worker binary
// ("vworker child <name> ..."), used by simulators that need to observe
// behaviour across separate OS processes.
func RegisterChildMode(name string, f func(args []string)) { childModes[name] = f }

const (
	DeathClass = "process-death"
	HangClass  = "hang"
)
