//go:build instrumented

// Package cache is the sim-disk simulator for C13: the on-disk compilation
// cache is deterministic and crash-safe.  It runs against the instrumented
// copy, where internal/filecache and cache.go see verifshim/simos instead of
// package os.
package cache

import (
	"bytes"
	"context"
	"crypto/sha256"
	"encoding/json"
	"fmt"
	"os"
	"os/exec"
	"sort"
	"strconv"
	"strings"

	"github.com/tetratelabs/wazero"
	"github.com/tetratelabs/wazero/api"
	"github.com/tetratelabs/wazero/imports/wasi_snapshot_preview1"
	"github.com/tetratelabs/wazero/verifshim/simos"
	"github.com/tetratelabs/wazero/verifshim/simrt"

	"verifharness/plan"
	"verifharness/sim"
	"verifharness/tape"
	"verifharness/wasmb"
)

type c13 struct{}

func init() {
	sim.Register(c13{})
	sim.RegisterChildMode("c13det", childDeterminism)
}

// childDeterminism: "vworker child c13det <tape json> <garbage>": regenerates
// the module from the tape in a fresh OS process, after perturbing the heap,
// and prints the hash of its cache entry.
func childDeterminism(args []string) {
	var rec []uint32
	if err := json.Unmarshal([]byte(args[0]), &rec); err != nil {
		fmt.Println("bad tape", err)
		os.Exit(2)
	}
	n, _ := strconv.Atoi(args[1])
	var junk [][]byte
	for i := 0; i < n; i++ {
		junk = append(junk, make([]byte, 100+i%4096))
	}
	_ = junk
	p := genPlan(tape.Replay(rec))
	path, b, _, err := reference(p.Encode())
	if err != nil {
		fmt.Println("ERR", err)
		os.Exit(2)
	}
	fmt.Printf("ENTRY %s %x %d\n", path, sha256.Sum256(b), len(b))
}

func (c13) Property() string { return "C13" }

func (c13) Classes() []sim.Class {
	return []sim.Class{
		{Name: "crash-points", Engine: "compiler", Quick: 48, Thorough: 320, Instrumented: true, RunTimeoutSec: 900, Batch: 1},
		{Name: "write-faults", Engine: "compiler", Quick: 32, Thorough: 400, Instrumented: true, RunTimeoutSec: 900, Batch: 1},
		{Name: "truncation", Engine: "compiler", Quick: 32, Thorough: 600, Instrumented: true, RunTimeoutSec: 900, Batch: 1},
		{Name: "read-faults", Engine: "compiler", Quick: 32, Thorough: 600, Instrumented: true, RunTimeoutSec: 900, Batch: 1},
		{Name: "concurrent-writers", Engine: "compiler", Quick: 160, Thorough: 6000, Instrumented: true, RunTimeoutSec: 300},
		{Name: "determinism-processes", Engine: "compiler", Quick: 24, Thorough: 800, Instrumented: true, RunTimeoutSec: 300, NeedsPIEWorker: true},
		// entries of more than a megabyte (over a hundred thousand functions): every internal buffer is crossed
		{Name: "large-entry", Engine: "compiler", Quick: 3, Thorough: 24, Instrumented: true, RunTimeoutSec: 600, Batch: 1},
	}
}

func (c13) Describe() sim.Description {
	return sim.Description{
		Level: "fault_enumeration",
		Rule: "class large-entry: modules of 65-140 thousand functions (entries over a megabyte) written cold and read back by a fresh runtime; otherwise: per run one tape-generated module (plan vocabulary, 3-8 functions). Determinism: the entry written by three fresh runtimes on fresh sim-disks is byte-identical (reference entry); class determinism-processes repeats it in separate OS processes with different GOMAXPROCS, environment and allocation history. " +
			"Class crash-points ENUMERATES every crash point of the add operation: before each mutating syscall the sim-disk logged (CreateTemp, Write, Sync, Close, Rename, ...) and inside each Write after k bytes (k in 0, 1, every 512th byte, len-1; thorough: every k for writes up to 1000 bytes, else about 1000 evenly spaced k); the crash freezes the disk and unwinds the writer; the post-crash disk is produced under process death (completed syscalls persist, k-byte prefix of the in-flight write) and under power loss (file data persists only up to its last Sync, unsynced tail dropped or zero-filled, each directory operation persisted or not - all-persisted, none, and tape-sampled subsets); " +
			"a new runtime over the surviving disk must find under the final name nothing or a byte-identical entry, compile successfully, and run the plan correctly. Class truncation: every truncation length of the reference entry (quick: all structure boundaries +-1 and every 97th byte; thorough: every length) and foreign-version entries must give an error or a fresh compile, never a success that used the damaged bytes. " +
			"Class read-faults: short reads and EIO on the entry. Class concurrent-writers: two runtimes compile the same module as baton-scheduled tasks, yields at every sim-disk syscall, optional crash. Non-trivial: the crash landed inside the add operation (or the cut/fault hit the entry); distinct = (module, crash point, persistence model)",
		RealCode:    []string{"internal/filecache (file_cache.go)", "cache.go", "wazevo engine_cache.go serialize/deserialize and stale handling", "the optimizing compiler", "runtime.go CompileModule/InstantiateModule"},
		Stubs:       []string{"package os as seen by internal/filecache/file_cache.go and cache.go = verifshim/simos (in-memory disk with volatile/durable layers)"},
		Assumptions: []string{"the sim-disk is a conservative model of POSIX persistence (anything not synced may be lost; metadata and data unordered), not of a specific file system", "interpreter has no file cache: compiler only"},
		FaultKinds:  []string{"crash_before_syscall", "crash_inside_write", "power_loss_unsynced_data", "power_loss_directory_op_lost", "transient_write_error", "truncated_entry", "foreign_version_entry", "short_read", "read_eio", "concurrent_writer"},
	}
}

const cacheDir = "/cache"

type world struct {
	rt    wazero.Runtime
	cache wazero.CompilationCache
	ctx   context.Context
	// sharedCache: the cache object belongs to several worlds (closed by whoever created it)
	sharedCache bool
}

// newWorld creates a runtime whose compilation cache lives on the installed sim-disk.
func newWorld() (*world, error) { return newWorldOn(nil) }

// newWorldOn: a runtime on the given CompilationCache object (nil: its own, over the same directory).
func newWorldOn(shared wazero.CompilationCache) (*world, error) {
	ctx := context.Background()
	cache := shared
	if cache == nil {
		var err error
		if cache, err = wazero.NewCompilationCacheWithDir(cacheDir); err != nil {
			return nil, err
		}
	}
	rt := wazero.NewRuntimeWithConfig(ctx, wazero.NewRuntimeConfigCompiler().WithCompilationCache(cache))
	if _, err := wasi_snapshot_preview1.Instantiate(ctx, rt); err != nil {
		return nil, err
	}
	_, err := rt.NewHostModuleBuilder("env").NewFunctionBuilder().
		WithGoModuleFunction(api.GoModuleFunc(func(ctx context.Context, mod api.Module, stack []uint64) {
			tag, v := int32(uint32(stack[0])), int32(uint32(stack[1]))
			stack[0] = uint64(uint32(v*3 + tag))
		}), []api.ValueType{api.ValueTypeI32, api.ValueTypeI32}, []api.ValueType{api.ValueTypeI32}).Export("h").Instantiate(ctx)
	if err != nil {
		return nil, err
	}
	return &world{rt: rt, cache: cache, ctx: ctx, sharedCache: shared != nil}, nil
}

func (w *world) close() {
	w.rt.Close(w.ctx)
	if !w.sharedCache {
		w.cache.Close(w.ctx)
	}
}

// entryFiles lists regular files of the cache directory that are not temp files.
func entryFiles(d *simos.Disk) map[string][]byte {
	out := map[string][]byte{}
	for p, b := range d.Files() {
		if strings.HasPrefix(p, cacheDir+"/") && !strings.HasSuffix(p, ".tmp") {
			out[p] = b
		}
	}
	return out
}

// runPlan instantiates the compiled module and checks it against the plan model.
func runPlan(w *world, cm wazero.CompiledModule, p *plan.Plan) string {
	if p == nil {
		return "" // external binary: compile-level checks only
	}
	mod, err := w.rt.InstantiateModule(w.ctx, cm, wazero.NewModuleConfig().WithName(""))
	if err != nil {
		return fmt.Sprintf("instantiate failed: %v", err)
	}
	defer mod.Close(w.ctx)
	in := plan.NewInst(p, "", nil)
	pw := &plan.World{Host: func(_ *plan.World, _ *plan.Inst, tag, v int32) (int32, *plan.Fail) { return v*3 + tag, nil }}
	for fn := range p.Funcs {
		arg := int32(10 + fn)
		want, fail := pw.APICall(in, fn, arg)
		res, err := mod.ExportedFunction(fmt.Sprintf("f%d", fn)).Call(w.ctx, uint64(uint32(arg)))
		if fail != nil {
			if err == nil {
				return fmt.Sprintf("f%d(%d): model predicts %s, call succeeded", fn, arg, fail)
			}
			first := strings.SplitN(err.Error(), "\n", 2)[0]
			if fail.Kind == "trap" && first != fail.Msg {
				return fmt.Sprintf("f%d(%d): model predicts %q, got %q", fn, arg, fail.Msg, first)
			}
			continue
		}
		if err != nil {
			return fmt.Sprintf("f%d(%d): model predicts %d, got error %v", fn, arg, want, strings.SplitN(err.Error(), "\n", 2)[0])
		}
		if uint32(res[0]) != uint32(want) {
			return fmt.Sprintf("f%d(%d) = %d, model predicts %d", fn, arg, int32(uint32(res[0])), want)
		}
	}
	for c := 0; c < plan.NCells; c++ {
		v, _ := mod.Memory().ReadUint32Le(uint32(8 * c))
		if int32(v) != in.Cells[c] {
			return fmt.Sprintf("cell %d = %d, model has %d", c, int32(v), in.Cells[c])
		}
	}
	for pg := 1; pg < in.Pages; pg++ {
		for c := 0; c < plan.NFar; c++ {
			v, _ := mod.Memory().ReadUint32Le(uint32(plan.FarAddr(int32(pg), int32(c))))
			if int32(v) != in.Far[pg][c] {
				return fmt.Sprintf("page %d far cell %d = %d, model has %d", pg, c, int32(v), in.Far[pg][c])
			}
		}
	}
	return ""
}

// compileGuarded runs CompileModule and converts a crash sentinel into crashed=true.
func compileGuarded(w *world, bin []byte) (cm wazero.CompiledModule, err error, crashed bool, crashAt string, panicked any) {
	defer func() {
		if r := recover(); r != nil {
			if cs, ok := r.(simos.CrashSentinel); ok {
				crashed, crashAt = true, cs.At
				return
			}
			panicked = r
		}
	}()
	cm, err = w.rt.CompileModule(w.ctx, bin)
	return
}

func genPlan(t *tape.Tape) *plan.Plan {
	p := plan.Generate(t, plan.Opts{MinFuncs: 3, MaxFuncs: 8, MaxAtoms: 6, Host: true, Traps: true, Grow: true, Table: true, Segments: true, GRef: true, Wide: true})
	p.Name = "pc"
	return p
}

// reference compiles bin on a fresh disk and returns the path and bytes of its entry.
func reference(bin []byte) (string, []byte, []simos.Syscall, error) {
	d := simos.NewDisk()
	simos.Current = d
	defer func() { simos.Current = nil }()
	w, err := newWorld()
	if err != nil {
		return "", nil, nil, err
	}
	defer w.close()
	before := entryFiles(d)
	d.Arm()
	if _, err := w.rt.CompileModule(w.ctx, bin); err != nil {
		return "", nil, nil, err
	}
	log := append([]simos.Syscall(nil), d.Log()...)
	for p, b := range entryFiles(d) {
		if _, ok := before[p]; !ok {
			return p, b, log, nil
		}
	}
	return "", nil, log, fmt.Errorf("compiling wrote no cache entry (files: %v)", d.List())
}

// dwarfBinaries: small real-world modules with DWARF sections from the repository's own test data (their
// cache entries carry a source-map table, which generated plans never have).
func dwarfBinary(i int) []byte {
	repo := os.Getenv("VERIF_REPO")
	if repo == "" {
		repo = "/repo"
	}
	names := []string{"zig/main.wasm", "zig-cc/main.wasm"}
	b, err := os.ReadFile(repo + "/internal/testing/dwarftestdata/testdata/" + names[i%len(names)])
	if err != nil {
		return nil
	}
	return b
}

// largeEntry: a module of n trivial functions (f_i returns i), compiled cold into the cache directory, then
// compiled by a fresh runtime over the same directory (a hit that has to read the whole entry back), and
// called at both ends and across the megabyte boundaries of the entry's tables.
func largeEntry(t *tape.Tape, res *sim.Result) {
	n := tape.Pick(t, []int{65536, 131071, 131072, 140000}) + t.Choose(64)
	m := &wasmb.Module{}
	i32 := []wasmb.ValType{wasmb.I32}
	probes := map[int]bool{0: true, n - 1: true, 65535: true, 65536: true, 131069: true, 131070: true, 131071: true, n / 2: true}
	for i := 0; i < n; i++ {
		name := ""
		if probes[i] {
			name = fmt.Sprintf("f%d", i)
		}
		m.AddFunc(nil, i32, nil, (&wasmb.Code{}).I32Const(int32(i)).B, name)
	}
	bin := m.Encode()
	d := simos.NewDisk()
	simos.Current = d
	w, err := newWorld()
	if err != nil {
		panic(err)
	}
	before := entryFiles(d)
	if _, err := w.rt.CompileModule(w.ctx, bin); err != nil {
		panic(fmt.Sprintf("harness: cold compile of %d functions failed: %v", n, err))
	}
	w.close()
	simos.Current = nil
	var path string
	var entry []byte
	for p, b := range entryFiles(d) {
		if _, ok := before[p]; !ok {
			path, entry = p, b
		}
	}
	res.Logf("%d functions, module %d bytes, entry %d bytes", n, len(bin), len(entry))
	res.Stat("probe.entry_bytes", int64(len(entry)))
	res.Shape = sim.ShapeOf(fmt.Sprint(n))
	res.Nontrivial = len(entry) > 1<<20
	res.Sample = map[string]any{"functions": n, "entry_bytes": len(entry)}
	if path == "" {
		res.Fail("writer-error", "compiling %d functions wrote no cache entry", n)
		return
	}
	simos.Current = d
	defer func() { simos.Current = nil }()
	w2, err := newWorld()
	if err != nil {
		res.Fail("restart-failed", "a new runtime over the cache directory holding a complete %d-byte entry cannot start: %v", len(entry), err)
		return
	}
	defer w2.close()
	cm, err, crashed, _, pan := compileGuarded(w2, bin)
	if pan != nil || crashed || err != nil {
		res.Fail("restart-failed", "CompileModule of %d functions by a new runtime over the cache directory holding the complete, untouched %d-byte entry failed: %v %v", n, len(entry), err, pan)
		return
	}
	mod, err := w2.rt.InstantiateModule(w2.ctx, cm, wazero.NewModuleConfig().WithName(""))
	if err != nil {
		res.Fail("restart-wrong-code", "the %d-function module read back from its %d-byte entry does not instantiate: %v", n, len(entry), err)
		return
	}
	for i := range probes {
		if i >= n {
			continue
		}
		got, err := mod.ExportedFunction(fmt.Sprintf("f%d", i)).Call(w2.ctx)
		if err != nil || len(got) != 1 || uint32(got[0]) != uint32(i) {
			res.Fail("restart-wrong-code", "f%d of the %d-function module read back from its %d-byte entry returned %v %v", i, n, len(entry), got, err)
			return
		}
		res.Steps++
	}
	if b, ok := d.Content(path); !ok || !bytes.Equal(b, entry) {
		res.Fail("incomplete-entry-visible", "the %d-byte entry changed while it was only read", len(entry))
	}
}

func (c13) Run(t *tape.Tape, cfg sim.Config) (res sim.Result) {
	defer func() { simos.Current = nil }()
	if cfg.Class == "large-entry" {
		largeEntry(t, &res)
		return
	}
	p := genPlan(t)
	bin := p.Encode()
	if cfg.Class == "truncation" && cfg.Run%8 == 1 {
		// a module without any function of its own (a memory, a global, exports): its entry has no code
		nm := &wasmb.Module{Mem: &wasmb.Limits{Min: 1}}
		nm.Globals = []wasmb.Global{{Type: wasmb.I32, Mut: true, Init: wasmb.ConstI32(int32(cfg.Run))}}
		nm.Exports = append(nm.Exports, wasmb.Export{Name: "g", Kind: wasmb.KindGlobal, Idx: 0}, wasmb.Export{Name: "mem", Kind: wasmb.KindMemory, Idx: 0})
		bin, p = nm.Encode(), nil
		res.Stat("probe.entries_of_modules_without_functions", 1)
	}
	if cfg.Class == "truncation" && cfg.Run%3 == 2 {
		if b := dwarfBinary(int(cfg.Run / 3)); b != nil {
			bin, p = b, nil
			res.Stat("probe.dwarf_binary_entries", 1)
		}
	}
	refPath, ref, log, err := reference(bin)
	if err != nil {
		panic(fmt.Sprintf("harness: reference compile failed: %v", err))
	}
	// determinism clause
	for i := 0; i < 2; i++ {
		p2, b2, _, err := reference(bin)
		if err != nil || p2 != refPath || !bytes.Equal(b2, ref) {
			res.Fail("nondeterministic-entry", "compiling the same module twice in fresh runtimes produced different cache entries (path %s vs %s, %d vs %d bytes, first difference at byte %d)", refPath, p2, len(ref), len(b2), firstDiff(ref, b2))
			return
		}
	}
	res.Stat("probe.entry_bytes", int64(len(ref)))
	var ops []string
	for _, s := range log {
		ops = append(ops, s.Op)
	}
	res.Logf("module %d bytes, entry %d bytes at %s, add syscalls: %v", len(bin), len(ref), refPath, ops)
	if p != nil {
		res.Sample = map[string]any{"plan": describe(p), "entry_bytes": len(ref), "add_syscalls": ops}
	} else {
		res.Sample = map[string]any{"module": "repository DWARF test binary", "entry_bytes": len(ref), "add_syscalls": ops}
	}
	res.Shape = sim.ShapeOf(fmt.Sprint(len(ref)), strings.Join(ops, ","), cfg.Class)
	switch cfg.Class {
	case "crash-points":
		crashPoints(t, cfg, &res, p, bin, refPath, ref, log)
	case "write-faults":
		writeFaults(t, cfg, &res, p, bin, refPath, ref, log)
	case "truncation":
		truncation(t, cfg, &res, p, bin, refPath, ref)
	case "read-faults":
		readFaults(t, cfg, &res, p, bin, refPath, ref)
	case "concurrent-writers":
		concurrent(t, cfg, &res, p, bin, refPath, ref)
	case "determinism-processes":
		// the same module compiled in separate OS processes with different GOMAXPROCS,
		// environment and allocation history must give the same entry
		planTape, _ := json.Marshal(t.Record())
		want := fmt.Sprintf("ENTRY %s %x %d", refPath, sha256.Sum256(ref), len(ref))
		for i, v := range []struct {
			gmp  string
			junk int
		}{{"1", 0}, {"7", 20000 + t.Choose(50000)}, {"16", 3}} {
			self := os.Args[0]
			if pie := os.Getenv("VERIF_PIE_WORKER"); pie != "" && i == 2 {
				// another binary: the same sources linked position-independent, loaded at a random address
				self = pie
				res.Stat("probe.entry_compared_with_a_position_independent_binary", 1)
			}
			cmd := exec.Command(self, "child", "c13det", string(planTape), strconv.Itoa(v.junk))
			cmd.Env = []string{"GOMAXPROCS=" + v.gmp, fmt.Sprintf("X%d=%d", i, v.junk), "TZ=UTC"}
			out, err := cmd.CombinedOutput()
			got := strings.TrimSpace(string(out))
			if err != nil || got != want {
				res.Fail("nondeterministic-entry", "a fresh OS process (GOMAXPROCS=%s, %d junk allocations first) produced %q (err %v); this process produced %q", v.gmp, v.junk, got, err, want)
				return
			}
			res.Steps++
		}
		res.Nontrivial = true
		res.Stat("probe.cross_process_entries_equal", 3)
	}
	return
}

func describe(p *plan.Plan) []string {
	var out []string
	for i, f := range p.Funcs {
		s := fmt.Sprintf("f%d:", i)
		for _, a := range f.Atoms {
			s += " " + a.String()
		}
		out = append(out, s)
	}
	return out
}

func firstDiff(a, b []byte) int {
	for i := 0; i < len(a) && i < len(b); i++ {
		if a[i] != b[i] {
			return i
		}
	}
	if len(a) < len(b) {
		return len(a)
	}
	return len(b)
}

// restartCheck: a new process over the surviving disk.
func restartCheck(res *sim.Result, what string, d *simos.Disk, p *plan.Plan, bin []byte, refPath string, ref []byte, alsoOK ...[]byte) bool {
	// (1) the final name holds nothing or a complete entry (or the stale entry that was there before the writer started)
	if b, ok := d.Content(refPath); ok && !bytes.Equal(b, ref) && !(len(alsoOK) > 0 && bytes.Equal(b, alsoOK[0])) {
		res.Fail("incomplete-entry-visible", "%s: the entry is visible under its final name but incomplete or different (%d bytes, reference %d bytes, first difference at %d)", what, len(b), len(ref), firstDiff(b, ref))
		return false
	}
	simos.Current = d
	defer func() { simos.Current = nil }()
	w, err := newWorld()
	if err != nil {
		res.Fail("restart-failed", "%s: a new runtime over the surviving cache directory cannot start: %v", what, err)
		return false
	}
	defer w.close()
	cm, err, crashed, _, pan := compileGuarded(w, bin)
	if pan != nil || crashed {
		res.Fail("restart-panic", "%s: CompileModule after restart panicked: %v", what, pan)
		return false
	}
	if err != nil {
		res.Fail("restart-failed", "%s: CompileModule after restart failed: %v", what, err)
		return false
	}
	if msg := runPlan(w, cm, p); msg != "" {
		res.Fail("restart-wrong-code", "%s: the module compiled after restart misbehaves: %s", what, msg)
		return false
	}
	return true
}

func crashPoints(t *tape.Tape, cfg sim.Config, res *sim.Result, p *plan.Plan, bin []byte, refPath string, ref []byte, log []simos.Syscall) {
	type cp struct{ at, byte int }
	var pts []cp
	for i, s := range log {
		pts = append(pts, cp{i, -1})
		if s.Op == "Write" {
			ks := map[int]bool{0: true, 1: true, s.N - 1: true}
			step := 512
			if cfg.Tier == "thorough" {
				step = 1 + s.N/1000 // every byte for entries up to 1000 bytes, else about 1000 points per write
			}
			for k := step; k < s.N; k += step {
				ks[k] = true
			}
			var sorted []int
			for k := range ks {
				if k >= 0 && k < s.N {
					sorted = append(sorted, k)
				}
			}
			sort.Ints(sorted)
			for _, k := range sorted {
				pts = append(pts, cp{i, k})
			}
		}
	}
	pts = append(pts, cp{len(log), -1}) // after the last syscall: no crash inside add
	// in a third of the runs an entry written by another version sits under the final name: the
	// writer then deletes it first (one more syscall); crash points cover that step too
	var stale []byte
	if t.Chance(1, 3) {
		stale = append([]byte(nil), ref...)
		stale[7] ^= 0x01
		pts = append(pts, cp{len(log) + 1, -1})
		res.Stat("probe.crash_enumeration_with_stale_entry", 1)
	}
	inside := 0
	for _, pt := range pts {
		d := simos.NewDisk()
		simos.Current = d
		w, err := newWorld()
		if err != nil {
			panic(err)
		}
		if stale != nil {
			d.Install(refPath, stale)
		}
		d.Arm()
		d.CrashAt, d.CrashByte = pt.at, pt.byte
		if stale != nil && pt.byte >= 0 {
			d.CrashAt++ // the delete of the stale entry comes first: the write is one syscall later
		}
		_, cerr, crashed, at, pan := compileGuarded(w, bin)
		simos.Current = nil
		if pan != nil {
			res.Fail("writer-panic", "crash point (%d,%d): CompileModule panicked with %v", pt.at, pt.byte, pan)
			return
		}
		what := fmt.Sprintf("crash point #%d byte %d (%s)", pt.at, pt.byte, at)
		if !crashed {
			if pt.at < len(log) && stale == nil {
				res.Fail("crash-point-not-reached", "%s: the add operation made fewer syscalls than in the reference run (err=%v)", what, cerr)
				return
			}
			what = "no crash (complete add)"
		} else {
			inside++
			res.Stat("fault.crash_"+map[bool]string{true: "inside_write", false: "before_syscall"}[pt.byte >= 0], 1)
		}
		// process death
		if !restartCheck(res, what+" / process death", d.AfterProcessDeath(), p, bin, refPath, ref, stale) {
			return
		}
		// power loss: all directory ops persisted, none, and two sampled subsets
		models := []func(n int) int{
			func(n int) int { return n - 1 },
			func(n int) int { return 0 },
			func(n int) int { return t.Choose(n) },
			func(n int) int { return t.Choose(n) },
		}
		for mi, ch := range models {
			res.Stat("fault.power_loss_model", 1)
			if !restartCheck(res, fmt.Sprintf("%s / power loss (persistence choice %d)", what, mi), d.AfterPowerLoss(ch), p, bin, refPath, ref, stale) {
				return
			}
		}
		res.Steps++
	}
	res.Stat("probe.crash_points_enumerated", int64(len(pts)))
	res.Nontrivial = inside > 0
	res.Logf("%d crash points enumerated, %d inside the add operation", len(pts), inside)
}

// writeFaults: every mutating syscall of the add operation fails ONCE (a Write after 0, some or all but one
// of its bytes with ENOSPC; Sync and Rename with EIO) while the process lives on: the disk was full or
// hiccuped for a moment.  CompileModule may fail or succeed; whatever it returns, the final name must hold
// nothing or the complete entry, and a later CompileModule on the same directory (faults over) must succeed
// and run correctly.
func writeFaults(t *tape.Tape, cfg sim.Config, res *sim.Result, p *plan.Plan, bin []byte, refPath string, ref []byte, log []simos.Syscall) {
	type fp struct{ at, byte int }
	var pts []fp
	for i, s := range log {
		switch s.Op {
		case "Write":
			for _, k := range []int{0, 1, 40, s.N / 2, s.N - 1} {
				if k >= 0 && k < s.N {
					pts = append(pts, fp{i, k})
				}
			}
		case "Sync", "Rename":
			pts = append(pts, fp{i, -1})
		}
	}
	fired := 0
	for _, pt := range pts {
		d := simos.NewDisk()
		simos.Current = d
		w, err := newWorld()
		if err != nil {
			panic(err)
		}
		d.Arm()
		d.ErrAt, d.ErrByte = pt.at, pt.byte
		_, cerr, crashed, _, pan := compileGuarded(w, bin)
		simos.Current = nil
		if pan != nil || crashed {
			res.Fail("writer-panic", "write fault (%d,%d): CompileModule panicked with %v", pt.at, pt.byte, pan)
			return
		}
		if d.ErrFired == "" {
			res.Fail("crash-point-not-reached", "write fault (%d,%d): the add operation made fewer syscalls than in the reference run (err=%v)", pt.at, pt.byte, cerr)
			return
		}
		fired++
		res.Stat("fault.transient_write_error", 1)
		what := fmt.Sprintf("transient error at %s (after %d bytes), CompileModule returned error=%v", d.ErrFired, pt.byte, cerr != nil)
		w.close()
		if !restartCheck(res, what, d, p, bin, refPath, ref) {
			return
		}
		res.Steps++
	}
	res.Nontrivial = fired > 0
	res.Logf("%d transient write faults enumerated", fired)
}

// concurrentWarm: the entry is on disk already (warm start) and TWO runtimes share one CompilationCache
// object (one engine): both compile the module, instantiate it and run the plan, as baton-scheduled tasks
// with switches at ANY yield point (the window of interest is inside the engine, not at a disk syscall).
func concurrentWarm(t *tape.Tape, res *sim.Result, p *plan.Plan, bin []byte, refPath string, ref []byte) {
	d := simos.NewDisk()
	simos.Current = d
	d.Install(refPath, ref)
	cache, err := wazero.NewCompilationCacheWithDir(cacheDir)
	if err != nil {
		panic(err)
	}
	defer func() { simos.Current = nil }()
	w1, err := newWorldOn(cache)
	if err != nil {
		panic(err)
	}
	w2, err := newWorldOn(cache)
	if err != nil {
		panic(err)
	}
	d.Arm()
	var msgs [2]string
	var pans [2]any
	prob := []int{2, 6, 20}[t.Choose(3)]
	stagger := 0
	task := func(i int, w *world) func() {
		return func() {
			defer func() {
				if r := recover(); r != nil {
					if _, ok := r.(simos.CrashSentinel); ok {
						panic(r)
					}
					pans[i] = r
				}
			}()
			// the second user arrives a tape-chosen number of scheduling points later
			for n := stagger * i; n > 0; n-- {
				simrt.Yield("stagger")
			}
			cm, err := w.rt.CompileModule(w.ctx, bin)
			if err != nil {
				msgs[i] = "compile: " + err.Error()
				return
			}
			msgs[i] = runPlan(w, cm, p)
		}
	}
	// schedule: the first user runs until a tape-chosen scheduling point INSIDE the engine's cache code
	// (counted over the yield sites of engine_cache.go / engine.go), then the other user runs for as long
	// as it can; besides that, rare random switches
	changeAt, seen := t.Choose(40), 0
	choose := func(en []*simrt.Task, cur *simrt.Task, site string) int {
		if cur == nil {
			return 0
		}
		if strings.Contains(site, "engine_cache.go") || strings.Contains(site, "wazevo/engine.go") {
			if seen++; seen == changeAt+1 && len(en) > 1 {
				return 1
			}
		}
		if t.Chance(1, 50*prob) && len(en) > 1 {
			return 1
		}
		return 0
	}
	s := simrt.Run(choose, 200000, false, task(0, w1), task(1, w2))
	res.Stat("probe.warm_shared_cache_concurrent_users", 1)
	res.Stat("probe.task_switches", int64(s.Switches))
	if s.Deadlock {
		res.Fail("deadlock", "two users of a warm shared cache deadlocked: %s", s.DeadlockInfo)
		return
	}
	for i := 0; i < 2; i++ {
		if pans[i] != nil {
			res.Fail("writer-panic", "warm start, two runtimes on one CompilationCache: user %d panicked: %v", i, pans[i])
			return
		}
		if msgs[i] != "" {
			res.Fail("restart-wrong-code", "warm start, two runtimes on one CompilationCache: user %d: %s", i, msgs[i])
			return
		}
	}
	w1.close()
	w2.close()
	cache.Close(context.Background())
	res.Nontrivial = s.Switches > 0
	res.Shape = sim.ShapeOf("warm", fmt.Sprint(s.Switches))
	res.Steps = int64(s.Yields)
}

func truncation(t *tape.Tape, cfg sim.Config, res *sim.Result, p *plan.Plan, bin []byte, refPath string, ref []byte) {
	lens := map[int]bool{}
	if cfg.Tier == "thorough" {
		for l := 0; l < len(ref); l++ {
			lens[l] = true
		}
	} else {
		// structure boundaries: magic, version, function count, offsets, code length, code, checksum, source map
		for _, b := range []int{0, 1, 5, 6, 7, 8, 12, 16, 20, 24, 32, 40, 48, len(ref) - 1, len(ref) - 4, len(ref) - 5, len(ref) - 8, len(ref) - 9, len(ref) - 13} {
			for dlt := -1; dlt <= 1; dlt++ {
				if l := b + dlt; l >= 0 && l < len(ref) {
					lens[l] = true
				}
			}
		}
		for l := 0; l < len(ref); l += 97 {
			lens[l] = true
		}
		for i := 0; i < 24; i++ {
			lens[t.Choose(len(ref))] = true
		}
	}
	var sorted []int
	for l := range lens {
		sorted = append(sorted, l)
	}
	sort.Ints(sorted)
	check := func(what string, content []byte, damaged bool) bool {
		d := simos.NewDisk()
		simos.Current = d
		defer func() { simos.Current = nil }()
		d.Install(refPath, content)
		w, err := newWorld()
		if err != nil {
			res.Fail("restart-failed", "%s: runtime cannot start: %v", what, err)
			return false
		}
		defer w.close()
		d.Arm()
		cm, err, _, _, pan := compileGuarded(w, bin)
		if pan != nil {
			res.Fail("damaged-entry-panic", "%s: CompileModule panicked: %v", what, pan)
			return false
		}
		if err != nil {
			res.Stat("probe.damaged_entry_reported_as_error", 1)
			return true // reported
		}
		readded := false
		for _, s := range d.Log() {
			if s.Op == "Rename" && s.To == refPath {
				readded = true
			}
		}
		if damaged && !readded {
			res.Fail("damaged-entry-executed", "%s: CompileModule succeeded without compiling afresh (no new entry was added): the damaged entry was used", what)
			return false
		}
		if readded {
			res.Stat("probe.damaged_entry_discarded_and_recompiled", 1)
			if b, _ := d.Content(refPath); !bytes.Equal(b, ref) {
				res.Fail("incomplete-entry-visible", "%s: after recompiling, the entry under the final name differs from the reference", what)
				return false
			}
		}
		if msg := runPlan(w, cm, p); msg != "" {
			res.Fail("restart-wrong-code", "%s: module misbehaves: %s", what, msg)
			return false
		}
		return true
	}
	for _, l := range sorted {
		res.Stat("fault.truncated_entry", 1)
		if !check(fmt.Sprintf("entry truncated to %d of %d bytes", l, len(ref)), ref[:l], true) {
			return
		}
		res.Steps++
	}
	// intact entry: must be used or recompiled, and work
	if !check("intact entry", ref, false) {
		return
	}
	// foreign versions: same length and different length
	verLen := int(ref[6])
	for _, variant := range []string{"same-length", "shorter", "longer"} {
		var e []byte
		switch variant {
		case "same-length":
			e = append([]byte(nil), ref...)
			e[7] ^= 0x01
		case "shorter":
			e = append(append([]byte(nil), ref[:6]...), byte(verLen-1))
			e = append(e, ref[7:7+verLen-1]...)
			e = append(e, ref[7+verLen:]...)
		case "longer":
			e = append(append([]byte(nil), ref[:6]...), byte(verLen+1))
			e = append(e, ref[7:7+verLen]...)
			e = append(e, 'x')
			e = append(e, ref[7+verLen:]...)
		}
		res.Stat("fault.foreign_version_entry", 1)
		if !check("entry written by another version ("+variant+")", e, true) {
			return
		}
	}
	res.Nontrivial = true
	res.Logf("%d truncation lengths and 3 foreign-version entries checked", len(sorted))
}

func readFaults(t *tape.Tape, cfg sim.Config, res *sim.Result, p *plan.Plan, bin []byte, refPath string, ref []byte) {
	n := 12
	for i := 0; i < n; i++ {
		for _, kind := range []string{"short", "eio"} {
			d := simos.NewDisk()
			simos.Current = d
			d.Install(refPath, ref)
			w, err := newWorld()
			if err != nil {
				panic(err)
			}
			d.Arm()
			d.ReadFaultAt, d.ReadFaultKind = i, kind
			cm, cerr, _, _, pan := compileGuarded(w, bin)
			what := fmt.Sprintf("%s on read #%d of the entry", kind, i)
			res.Stat("fault.read_"+kind, 1)
			if pan != nil {
				simos.Current = nil
				res.Fail("damaged-entry-panic", "%s: CompileModule panicked: %v", what, pan)
				return
			}
			if cerr == nil {
				if msg := runPlan(w, cm, p); msg != "" {
					simos.Current = nil
					res.Fail("restart-wrong-code", "%s: CompileModule succeeded but the module misbehaves (a partially read entry was executed?): %s", what, msg)
					return
				}
			} else {
				res.Stat("probe.read_fault_reported_as_error", 1)
			}
			w.close()
			simos.Current = nil
			res.Steps++
		}
	}
	res.Nontrivial = true
}

func concurrent(t *tape.Tape, cfg sim.Config, res *sim.Result, p *plan.Plan, bin []byte, refPath string, ref []byte) {
	if t.Chance(1, 4) {
		concurrentWarm(t, res, p, bin, refPath, ref)
		return
	}
	d := simos.NewDisk()
	simos.Current = d
	w1, err := newWorld()
	if err != nil {
		panic(err)
	}
	w2, err := newWorld()
	if err != nil {
		panic(err)
	}
	d.Arm()
	crash := t.Chance(1, 2)
	if crash {
		d.CrashAt = t.Choose(14)
		if t.Chance(1, 2) {
			d.CrashByte = t.Choose(len(ref))
		}
	}
	// in half of the runs the second writer compiles a DIFFERENT module: each key must end up with ITS
	// module's entry
	bin2, p2, refPath2, ref2 := bin, p, refPath, ref
	if t.Chance(1, 2) {
		p2 = genPlan(t)
		bin2 = p2.Encode()
		var err error
		if refPath2, ref2, _, err = reference(bin2); err != nil {
			panic(fmt.Sprintf("harness: reference compile of the second module failed: %v", err))
		}
		simos.Current = d
		res.Stat("probe.concurrent_writers_of_different_modules", 1)
	}
	var errs [2]error
	var crashed [2]bool
	var pans [2]any
	choose := func(en []*simrt.Task, cur *simrt.Task, site string) int {
		if !strings.HasPrefix(site, "os.") && !strings.HasPrefix(site, "finish") && !strings.HasPrefix(site, "start") {
			return 0 // switch only at sim-disk syscalls
		}
		return t.Choose(len(en))
	}
	s := simrt.Run(choose, 100000, false,
		func() { _, errs[0], crashed[0], _, pans[0] = compileGuarded(w1, bin) },
		func() { _, errs[1], crashed[1], _, pans[1] = compileGuarded(w2, bin2) },
	)
	simos.Current = nil
	res.Stat("probe.task_switches", int64(s.Switches))
	if s.Deadlock {
		res.Fail("deadlock", "two concurrent writers deadlocked: %s", s.DeadlockInfo)
		return
	}
	for i := 0; i < 2; i++ {
		if pans[i] != nil {
			res.Fail("writer-panic", "writer %d panicked: %v", i, pans[i])
			return
		}
		if !crash && errs[i] != nil {
			res.Fail("writer-error", "writer %d failed although nothing crashed: %v", i, errs[i])
			return
		}
	}
	what := fmt.Sprintf("two concurrent writers (%d task switches, crash=%v at #%d byte %d)", s.Switches, crash, d.CrashAt, d.CrashByte)
	if crash {
		res.Stat("fault.concurrent_crash", 1)
	}
	if !restartCheck(res, what+" / process death", d.AfterProcessDeath(), p, bin, refPath, ref) {
		return
	}
	if !restartCheck(res, what+" / power loss", d.AfterPowerLoss(func(n int) int { return t.Choose(n) }), p, bin, refPath, ref) {
		return
	}
	if refPath2 != refPath {
		if !restartCheck(res, what+" / second module / process death", d.AfterProcessDeath(), p2, bin2, refPath2, ref2) {
			return
		}
	}
	res.Nontrivial = s.Switches > 0
	res.Shape = sim.ShapeOf(res.Shape, fmt.Sprint(s.Switches, crash, d.CrashAt))
	res.Steps = int64(s.Yields)
}
