// Package calls holds the call-history simulators: C06 (failure containment)
// and C20 (function listeners riding on the same histories).
package calls

import (
	"context"
	"errors"
	"fmt"
	"runtime"
	"runtime/debug"
	"strings"

	"github.com/tetratelabs/wazero"
	"github.com/tetratelabs/wazero/api"
	"github.com/tetratelabs/wazero/experimental"
	"github.com/tetratelabs/wazero/imports/wasi_snapshot_preview1"
	"github.com/tetratelabs/wazero/sys"

	"verifharness/plan"
	"verifharness/sim"
	"verifharness/tape"
	"verifharness/wasmb"
)

// decision is one scripted host-function behaviour, decided by the model run
// and replayed by the real host function.
type decision struct {
	tag, v  int32 // expected arguments
	action  int
	id      int   // panic id / exit code
	inst    int   // target instance (close other, reenter)
	fn      int   // reenter: function
	arg     int32 // reenter: argument
	swallow bool  // reenter: swallow the inner error
	wrap    bool  // reenter, not swallowed: panic with an error of the host's own that WRAPS the inner error
	stack   bool  // reenter: use CallWithStack
	ret     int32 // value to return (normal return)
	swret   int32 // value to return after swallowing
}

const (
	actRet = iota
	actPanicErr
	actPanicStr
	actRuntimeErr
	actCloseSelf
	actCloseOther
	actReenter
)

type simPanic struct{ id int }

func (p *simPanic) Error() string { return fmt.Sprintf("simpanic-%d", p.id) }

// recorded listener event
type recEvent struct {
	kind  string
	fn    string
	vals  []uint64
	chain []string
	lidx  int // which compilation's listener received the event
	extra int // length of the slice handed to the listener minus the number of parameters (results)
}

func (r *runner) enc(p *plan.Plan) []byte {
	b := p.Encode()
	if r.dwarf {
		b = append(b, wasmb.DegenerateDWARFKind(r.dwarfKind)...)
	}
	return b
}

type runner struct {
	recCount          bool // the recursing functions carry counting listeners
	recBefore, recEnd int64
	t                 *tape.Tape
	res               *sim.Result
	engine            string
	listen            bool
	subset            map[string]bool // nil = all functions
	// ensureTerm: the runtime has close-on-context-done; every top-level call gets its own cancellable
	// context, cancelled after the call returned (never during it)
	ensureTerm bool
	termWaits  int
	dwarf      bool // binaries carry wasmb.DegenerateDWARF
	dwarfKind  int
	walkMax    int // multi: the second factory's listeners look at this many frames only (0: all)
	// implicit: these instances are created with Runtime.InstantiateWithConfig from the binary (their
	// compilation is closed with them) while other instances of the same binary stay open
	implicit map[int]bool
	// multi: the factory is combined with a second one through MultiFunctionListenerFactory
	multi bool
	// perInstCompile: every instance is a separate CompileModule call with its own factory, all
	// functions listened: the events of instance i must reach the listeners instance i's factory made
	perInstCompile bool
	// instSubset, when set, gives each instance (= each compilation) its own selection
	instSubset []map[string]bool
	// noFactory: these instances are compiled with NO listener factory in the context at all (the others
	// with one): their functions report nothing, the listened functions they call report as ever
	noFactory map[int]bool
	w          *plan.World
	insts      []*plan.Inst
	mods       []api.Module
	rt         wazero.Runtime
	ctx        context.Context
	script     []decision
	spos       int
	events     []recEvent
	reDepth    int
	opts       classOpts
	faults     int
	maxNest    int
	hostErr    string
}

type classOpts struct {
	faultRate int // numerator of /16 chance that a host call misbehaves
	reenter   bool
	rec       bool
	deep      int // >0: build a deep chain plan of that depth
	exit      bool
}

func (r *runner) listens(in *plan.Inst, name string) bool {
	if !r.listen || strings.Contains(name, ".rec") {
		return false
	}
	if in != nil && (r.instSubset != nil || r.noFactory != nil) {
		for i, x := range r.insts {
			if x == in {
				return r.listensIdx(i, name)
			}
		}
	}
	if r.subset == nil {
		return true
	}
	return r.subset[name]
}

// listensIdx: the selection used when instance idx was compiled.
func (r *runner) listensIdx(idx int, name string) bool {
	if !r.listen || strings.Contains(name, ".rec") || r.noFactory[idx] {
		return false
	}
	if r.instSubset != nil && idx >= 0 && idx < len(r.instSubset) && r.instSubset[idx] != nil {
		return r.instSubset[idx][name]
	}
	if r.subset == nil {
		return true
	}
	return r.subset[name]
}

// modelHost is World.Host: draws the decision, records it, applies it to the model.
func (r *runner) modelHost(w *plan.World, in *plan.Inst, tag, v int32) (int32, *plan.Fail) {
	t := r.t
	d := decision{tag: tag, v: v, ret: v*3 + tag}
	if t.Chance(r.opts.faultRate, 16) {
		wts := []int{0, 3, 2, 2, 1, 1, 0}
		if r.opts.reenter && r.reDepth < 3 {
			wts[actReenter] = 6
		}
		d.action = t.Weighted(wts...)
	}
	idx := len(r.script)
	r.script = append(r.script, d)
	set := func() { r.script[idx] = d }
	switch d.action {
	case actRet:
		return d.ret, nil
	case actPanicErr:
		d.id = t.Choose(1000)
		set()
		r.faults++
		return 0, &plan.Fail{Kind: "panic-error", Msg: fmt.Sprintf("simpanic-%d", d.id)}
	case actPanicStr:
		d.id = t.Choose(1000)
		set()
		r.faults++
		return 0, &plan.Fail{Kind: "panic-string", Msg: fmt.Sprintf("simstring-%d", d.id)}
	case actRuntimeErr:
		r.faults++
		return 0, &plan.Fail{Kind: "runtime-error", Msg: "runtime error: index out of range [5] with length 3"}
	case actCloseSelf:
		d.id = 10 + t.Choose(5)
		set()
		r.faults++
		if !in.Closed {
			in.Closed, in.ExitCode = true, uint32(d.id)
		}
		return d.ret, nil
	case actCloseOther:
		d.inst = t.Choose(len(r.insts))
		d.id = 20 + t.Choose(5)
		set()
		r.faults++
		o := r.insts[d.inst]
		if !o.Closed {
			o.Closed, o.ExitCode = true, uint32(d.id)
		}
		return d.ret, nil
	case actReenter:
		d.inst = t.Choose(len(r.insts))
		tgt := r.insts[d.inst]
		d.fn = t.Choose(len(tgt.P.Funcs))
		d.arg = int32(t.Choose(100))
		d.swallow = t.Chance(1, 2)
		d.wrap = !d.swallow && t.Chance(1, 3)
		d.stack = t.Chance(1, 3)
		d.swret = 7
		set()
		r.reDepth++
		if r.reDepth > r.maxNest {
			r.maxNest = r.reDepth
		}
		saved := w.Depth
		res, f := w.APICall(tgt, d.fn, d.arg)
		w.Depth = saved
		r.reDepth--
		if f != nil {
			if d.swallow {
				return d.swret, nil
			}
			r.faults++
			ff := *f
			ff.Rethrown = true
			if d.wrap {
				// the caller sees the HOST's failure (which happens to wrap, say, another instance's exit
				// error): never the inner error as if it were the call's own
				ff.Kind, ff.Msg, ff.ExitCode = "host-wrapped", "", 0
			}
			return 0, &ff
		}
		return res, nil
	}
	return 0, nil
}

// realHost is the host function seen by the guests.
func (r *runner) realHost(ctx context.Context, mod api.Module, stack []uint64) {
	tag, v := int32(uint32(stack[0])), int32(uint32(stack[1]))
	if r.spos >= len(r.script) {
		r.hostErr = fmt.Sprintf("host function called %d times, the model predicts only %d calls (args tag=%d v=%d)", r.spos+1, len(r.script), tag, v)
		panic("harness: unexpected host call")
	}
	d := r.script[r.spos]
	r.spos++
	if d.tag != tag || d.v != v {
		r.hostErr = fmt.Sprintf("host call #%d received (tag=%d, v=%d), the model predicts (tag=%d, v=%d)", r.spos, tag, v, d.tag, d.v)
		panic("harness: host call arguments differ")
	}
	switch d.action {
	case actRet:
		stack[0] = uint64(uint32(d.ret))
	case actPanicErr:
		panic(&simPanic{d.id})
	case actPanicStr:
		panic(fmt.Sprintf("simstring-%d", d.id))
	case actRuntimeErr:
		xs := make([]int, 3)
		i := 5
		if r.spos < 0 {
			i = 0
		}
		_ = xs[i]
	case actCloseSelf:
		mod.CloseWithExitCode(ctx, uint32(d.id))
		stack[0] = uint64(uint32(d.ret))
	case actCloseOther:
		r.mods[d.inst].CloseWithExitCode(ctx, uint32(d.id))
		stack[0] = uint64(uint32(d.ret))
	case actReenter:
		fn := r.mods[d.inst].ExportedFunction(fmt.Sprintf("f%d", d.fn))
		var res uint64
		var err error
		if d.stack {
			st := []uint64{uint64(uint32(d.arg))}
			err = fn.CallWithStack(ctx, st)
			res = st[0]
		} else {
			var rs []uint64
			rs, err = fn.Call(ctx, uint64(uint32(d.arg)))
			if err == nil {
				res = rs[0]
			}
		}
		if err != nil {
			if d.swallow {
				stack[0] = uint64(uint32(d.swret))
				return
			}
			if d.wrap {
				panic(&hostWrap{inner: err})
			}
			panic(err)
		}
		stack[0] = res & 0xFFFFFFFF
	}
}

// factory: the recording factory of compilation idx, alone or (multi) combined with a second factory
// through experimental.MultiFunctionListenerFactory, whose listeners walk the stack iterator too.
func (r *runner) factory(idx int) experimental.FunctionListenerFactory {
	if !r.multi {
		return lfactory{r, idx}
	}
	second := experimental.FunctionListenerFactoryFunc(func(def api.FunctionDefinition) experimental.FunctionListener {
		if !r.listensIdx(idx, def.DebugName()) {
			return nil
		}
		return walkLst{max: r.walkMax}
	})
	return experimental.MultiFunctionListenerFactory(second, lfactory{r, idx})
}

// walkLst walks the stack it is given (all of it, or only the first max frames) and does nothing else.
type walkLst struct{ max int }

func (w walkLst) Before(_ context.Context, _ api.Module, _ api.FunctionDefinition, _ []uint64, si experimental.StackIterator) {
	max := w.max
	if max <= 0 {
		max = 600
	}
	for n := 0; n < max && si.Next(); n++ {
		_ = si.Function().Definition()
	}
}
func (walkLst) After(context.Context, api.Module, api.FunctionDefinition, []uint64) {}
func (walkLst) Abort(context.Context, api.Module, api.FunctionDefinition, error)    {}

// listener
type lfactory struct {
	r   *runner
	idx int // instance (compilation) index, -1 for the host module
}

// cntLst only counts: the listener of the recursing functions (class overflow), whose depth, and so
// whose number of events, is implementation-defined; begun and ended calls must balance.
type cntLst struct{ r *runner }

func (l cntLst) Before(context.Context, api.Module, api.FunctionDefinition, []uint64, experimental.StackIterator) {
	l.r.recBefore++
}
func (l cntLst) After(context.Context, api.Module, api.FunctionDefinition, []uint64) { l.r.recEnd++ }
func (l cntLst) Abort(context.Context, api.Module, api.FunctionDefinition, error)    { l.r.recEnd++ }

func (f lfactory) NewFunctionListener(def api.FunctionDefinition) experimental.FunctionListener {
	if f.r.recCount && strings.Contains(def.DebugName(), ".rec") {
		return cntLst{f.r}
	}
	if !f.r.listensIdx(f.idx, def.DebugName()) {
		return nil
	}
	return &lst{r: f.r, idx: f.idx}
}

type lst struct {
	r   *runner
	idx int // the compilation (instance index) whose factory created this listener; -1 host module or shared compilation
}

func (l *lst) Before(ctx context.Context, mod api.Module, def api.FunctionDefinition, params []uint64, si experimental.StackIterator) {
	e := recEvent{kind: "before", fn: def.DebugName(), extra: len(params) - len(def.ParamTypes()), lidx: l.idx}
	for i, pt := range def.ParamTypes() {
		if i < len(params) {
			e.vals = append(e.vals, decodeVal(pt, params[i]))
		}
	}
	n := 0
	for si.Next() {
		e.chain = append(e.chain, si.Function().Definition().DebugName())
		n++
		if n > 500 {
			break
		}
	}
	l.r.events = append(l.r.events, e)
}
func (l *lst) After(ctx context.Context, mod api.Module, def api.FunctionDefinition, results []uint64) {
	e := recEvent{kind: "after", fn: def.DebugName(), extra: len(results) - len(def.ResultTypes()), lidx: l.idx}
	for i, rt := range def.ResultTypes() {
		if i < len(results) {
			e.vals = append(e.vals, decodeVal(rt, results[i]))
		}
	}
	l.r.events = append(l.r.events, e)
}
func (l *lst) Abort(ctx context.Context, mod api.Module, def api.FunctionDefinition, err error) {
	l.r.events = append(l.r.events, recEvent{kind: "abort", fn: def.DebugName(), lidx: l.idx})
}

// decodeVal: 32-bit types are carried in the low half of the uint64 slot.
func decodeVal(t api.ValueType, v uint64) uint64 {
	if t == api.ValueTypeI32 || t == api.ValueTypeF32 {
		return v & 0xFFFFFFFF
	}
	return v
}

// classify maps an error returned by Call to (kind, first line).
// hostWrap: an error of the host function's own that wraps the error of a nested call.
type hostWrap struct{ inner error }

func (h *hostWrap) Error() string { return "host function failed: " + strings.SplitN(h.inner.Error(), "\n", 2)[0] }
func (h *hostWrap) Unwrap() error { return h.inner }

func classify(err error) (kind, msg string, code uint32) {
	if err == nil {
		return "ok", "", 0
	}
	var hw *hostWrap
	if errors.As(err, &hw) {
		return "host-wrapped", "", 0
	}
	var ee *sys.ExitError
	if errors.As(err, &ee) {
		return "exit", "", ee.ExitCode()
	}
	first := strings.SplitN(err.Error(), "\n", 2)[0]
	first = strings.TrimSuffix(first, " (recovered by wazero)")
	var sp *simPanic
	if errors.As(err, &sp) {
		return "panic-error", first, 0
	}
	var re runtime.Error
	if errors.As(err, &re) {
		return "runtime-error", first, 0
	}
	if first == "wasm error: stack overflow" || first == "stack overflow" {
		// the compiler returns the bare runtime error, the interpreter wraps it
		return "stack-overflow", "wasm error: stack overflow", 0
	}
	if strings.HasPrefix(first, "wasm error: ") {
		return "trap", first, 0
	}
	if strings.HasPrefix(first, "simstring-") {
		return "panic-string", first, 0
	}
	return "other", first, 0
}

func (r *runner) setup(plans []*plan.Plan, names []string, imports []int) {
	r.ctx = context.Background()
	cctx := r.ctx
	if r.listen {
		cctx = experimental.WithFunctionListenerFactory(r.ctx, r.factory(-1))
	}
	var cfg wazero.RuntimeConfig
	if r.engine == "interpreter" {
		cfg = wazero.NewRuntimeConfigInterpreter()
	} else {
		cfg = wazero.NewRuntimeConfigCompiler()
	}
	cfg = cfg.WithCoreFeatures(api.CoreFeaturesV2 | experimental.CoreFeaturesTailCall | experimental.CoreFeaturesThreads).WithCloseOnContextDone(r.ensureTerm)
	r.rt = wazero.NewRuntimeWithConfig(r.ctx, cfg)
	if _, err := wasi_snapshot_preview1.Instantiate(r.ctx, r.rt); err != nil {
		panic(err)
	}
	_, err := r.rt.NewHostModuleBuilder("env").NewFunctionBuilder().
		WithGoModuleFunction(api.GoModuleFunc(r.realHost), []api.ValueType{api.ValueTypeI32, api.ValueTypeI32}, []api.ValueType{api.ValueTypeI32}).
		WithName("h").Export("h").
		NewFunctionBuilder().
		WithGoModuleFunction(api.GoModuleFunc(func(ctx context.Context, mod api.Module, stack []uint64) {
			r0, r1 := plan.Host2(int32(uint32(stack[0])))
			stack[0], stack[1] = uint64(uint32(r0)), uint64(uint32(r1))
		}), []api.ValueType{api.ValueTypeI32}, []api.ValueType{api.ValueTypeI32, api.ValueTypeI32}).
		WithName("h2").Export("h2").
		NewFunctionBuilder().
		WithGoModuleFunction(api.GoModuleFunc(func(context.Context, api.Module, []uint64) {}), []api.ValueType{api.ValueTypeI32}, []api.ValueType{api.ValueTypeI32}).
		WithName("recprobe").Export("recprobe").Instantiate(cctx)
	if err != nil {
		panic(err)
	}
	compiled := map[*plan.Plan]wazero.CompiledModule{}
	for i, p := range plans {
		cm := compiled[p]
		ictx := cctx
		if r.listen && (r.instSubset != nil || r.perInstCompile || r.noFactory != nil) {
			// one compilation per instance, each with its own listener selection (or the SAME selection but
			// its own listener objects: perInstCompile)
			cm = nil
			ictx = experimental.WithFunctionListenerFactory(r.ctx, r.factory(i))
			if r.noFactory[i] {
				ictx = r.ctx
			}
		}
		if cm == nil {
			cm, err = r.rt.CompileModule(ictx, r.enc(p))
			if err != nil {
				panic(fmt.Sprintf("harness: plan does not compile: %v", err))
			}
			compiled[p] = cm
		}
		var mod api.Module
		if r.implicit[i] {
			// compiled implicitly: the compilation is closed together with the instance
			mod, err = r.rt.InstantiateWithConfig(ictx, r.enc(p), wazero.NewModuleConfig().WithName(names[i]))
		} else {
			mod, err = r.rt.InstantiateModule(ictx, cm, wazero.NewModuleConfig().WithName(names[i]))
		}
		if err != nil {
			panic(fmt.Sprintf("harness: plan does not instantiate: %v", err))
		}
		r.mods = append(r.mods, mod)
		var imp *plan.Inst
		if imports[i] >= 0 {
			imp = r.insts[imports[i]]
		}
		r.insts = append(r.insts, plan.NewInst(p, names[i], imp))
	}
}

// compareState checks every instance's observable state against the model.
func (r *runner) compareState(after string) bool {
	for i, in := range r.insts {
		mod := r.mods[i]
		mem := mod.Memory()
		if got := int(mem.Size() / 65536); got != in.Pages {
			r.res.Fail("state-mismatch", "after %s: instance %d (%s) memory is %d pages, model has %d", after, i, in.Name, got, in.Pages)
			return false
		}
		for c := 0; c < plan.NCells; c++ {
			v, _ := mem.ReadUint32Le(uint32(8 * c))
			if int32(v) != in.Cells[c] {
				r.res.Fail("state-mismatch", "after %s: instance %d (%s) cell %d = %d, model has %d (effects before a failure must persist, none after)", after, i, in.Name, c, int32(v), in.Cells[c])
				return false
			}
		}
		for pg := 1; pg < in.Pages; pg++ {
			for c := 0; c < plan.NFar; c++ {
				v, _ := mem.ReadUint32Le(uint32(plan.FarAddr(int32(pg), int32(c))))
				if int32(v) != in.Far[pg][c] {
					r.res.Fail("state-mismatch", "after %s: instance %d (%s) page %d far cell %d = %d, model has %d (grown pages start zeroed)", after, i, in.Name, pg, c, int32(v), in.Far[pg][c])
					return false
				}
			}
		}
		for g := 0; g < plan.NGlobals; g++ {
			v := mod.ExportedGlobal(fmt.Sprintf("g%d", g)).Get()
			if int32(uint32(v)) != in.Globals[g] {
				r.res.Fail("state-mismatch", "after %s: instance %d (%s) global %d = %d, model has %d", after, i, in.Name, g, int32(uint32(v)), in.Globals[g])
				return false
			}
		}
		if mod.IsClosed() != in.Closed {
			r.res.Fail("state-mismatch", "after %s: instance %d (%s) IsClosed=%v, model has %v", after, i, in.Name, mod.IsClosed(), in.Closed)
			return false
		}
	}
	return true
}

func eqU32(a, b []uint64) bool {
	if len(a) != len(b) {
		return false
	}
	for i := range a {
		if a[i] != b[i] {
			return false
		}
	}
	return true
}

func eqStr(a, b []string) bool {
	if len(a) != len(b) {
		return false
	}
	for i := range a {
		if a[i] != b[i] {
			return false
		}
	}
	return true
}

// compareEvents checks the recorded listener stream against the prediction.
// knownDeep: apply the recorded known-finding signatures (abort cap, compiler
// iterator cap); returns the signatures that matched.
func (r *runner) compareEvents(what string, deep int, deepChain bool) (known []string) {
	want := r.w.Events
	got := r.events
	// known finding (compiler): frames unwound by stack exhaustion get no Abort
	exhaustion := false
	if r.engine == "compiler" {
		for _, we := range want {
			exhaustion = exhaustion || we.Exhaustion
		}
	}
	skipped := 0
	defer func() {
		if skipped > 0 && r.res.Violation == nil {
			known = append(known, "compiler-no-abort-on-stack-exhaustion")
		}
	}()
	// bracketing automaton over the recorded stream, independent of the model
	var stack []string
	for i, e := range got {
		if exhaustion {
			break // judged against the model below, where exactly the exhaustion aborts may be absent
		}
		switch e.kind {
		case "before":
			stack = append(stack, e.fn)
		default:
			if len(stack) == 0 || stack[len(stack)-1] != e.fn {
				top := "<empty>"
				if len(stack) > 0 {
					top = stack[len(stack)-1]
				}
				r.res.Fail("listener-nesting", "%s: event %d is %s %s but the innermost open call is %s", what, i, e.kind, e.fn, top)
				return
			}
			stack = stack[:len(stack)-1]
		}
	}
	if deep == 0 && len(stack) != 0 && !exhaustion {
		r.res.Fail("listener-unbalanced", "%s: %d before-events never got an after- or abort-event (innermost %s)", what, len(stack), stack[len(stack)-1])
		return
	}
	gi := 0
	for wi, we := range want {
		if exhaustion && we.Exhaustion && (gi >= len(got) || got[gi].kind != "abort" || got[gi].fn != we.Func) {
			skipped++
			continue
		}
		if gi >= len(got) {
			if deep > 0 && we.Kind == "abort" && r.engine == "compiler" {
				// known finding (compiler): aborts beyond MaxFrames (30) are dropped
				missing := len(want) - wi
				if missing == deep-30 {
					known = append(known, "listener-abort-capped-at-30-frames")
					return
				}
			}
			r.res.Fail("listener-missing", "%s: event stream ends after %d events; model predicts %d (next: %s)", what, len(got), len(want), we)
			return
		}
		ge := got[gi]
		gi++
		if ge.kind != we.Kind || ge.fn != we.Func {
			r.res.Fail("listener-sequence", "%s: event %d is %s %s, model predicts %s", what, wi, ge.kind, ge.fn, we)
			return
		}
		if r.perInstCompile && we.Inst != nil {
			want := -1
			first := -1
			for i, in := range r.insts {
				if in == we.Inst {
					want = i
				}
				if first < 0 && in.P == we.Inst.P {
					first = i
				}
			}
			if ge.lidx != want {
				if ge.lidx == first {
					// recorded known finding: the engine keeps the listeners of the FIRST compilation of a binary
					known = append(known, "listeners-of-first-compilation-serve-later-compilations")
				} else {
					r.res.Fail("listener-misrouted", "%s: event %d %s %s of instance %d reached the listener made by the factory of compilation %d", what, wi, ge.kind, ge.fn, want, ge.lidx)
					return
				}
			}
		}
		if we.Kind != "abort" && ge.extra != 0 {
			r.res.Fail("listener-values", "%s: event %d %s %s: the slice handed to the listener has %d values, the function has %d (%v)", what, wi, ge.kind, ge.fn, len(we.Vals)+ge.extra, len(we.Vals), we.Vals)
			return
		}
		if we.Kind != "abort" && !eqU32(ge.vals, we.Vals) {
			r.res.Fail("listener-values", "%s: event %d %s %s carries %v, model predicts %v", what, wi, ge.kind, ge.fn, ge.vals, we.Vals)
			return
		}
		if we.Kind == "before" && !eqStr(ge.chain, we.Chain) {
			if deepChain && r.engine == "compiler" && len(we.Chain) > 29 && len(ge.chain) == 29 && eqStr(ge.chain, we.Chain[:29]) {
				known = append(known, "compiler-stack-iterator-capped-at-29-frames")
				continue
			}
			r.res.Fail("listener-stack", "%s: event %d before %s lists call chain %v, model predicts %v", what, wi, ge.fn, ge.chain, we.Chain)
			return
		}
	}
	if gi != len(got) {
		r.res.Fail("listener-extra", "%s: %d extra events after the predicted %d (first extra: %s %s)", what, len(got)-gi, len(want), got[gi].kind, got[gi].fn)
	}
	return
}

func init() {
	debug.SetGCPercent(100)
}
