package calls

import (
	"context"
	"fmt"
	"strings"
	"time"

	"github.com/tetratelabs/wazero"
	"github.com/tetratelabs/wazero/api"
	"github.com/tetratelabs/wazero/experimental"

	"verifharness/sim"
	"verifharness/tape"
	"verifharness/wasmb"
)

// Class concurrent-calls (C20): two calls are in flight on ONE module instance, from two goroutines, each
// with its own api.Function.  The listener of call A stops in the middle of walking its stack iterator
// (after a tape-chosen number of frames), lets call B run completely (all its before/after events, each of
// whose listeners walks its own iterator), and then finishes its walk.  Every Before must list exactly the
// chain of ITS call; the events of each call are bracketed on their own.
type ccKey struct{}

type ccListener struct {
	s *ccState
}

type ccState struct {
	pauseAfter int
	pausedOnce bool
	startB     chan struct{}
	doneB      chan struct{}
	chains     map[string][]string // "<call>:<function>" -> chain seen at its Before
	events     map[string][]string // call -> event list
	multi      bool
}

func (l ccListener) Before(ctx context.Context, _ api.Module, def api.FunctionDefinition, _ []uint64, si experimental.StackIterator) {
	who, _ := ctx.Value(ccKey{}).(string)
	s := l.s
	s.events[who] = append(s.events[who], "before "+def.Name())
	var chain []string
	n := 0
	for si.Next() {
		chain = append(chain, si.Function().Definition().Name())
		n++
		if who == "A" && def.Name() == "leaf" && !s.pausedOnce && n == s.pauseAfter {
			s.pausedOnce = true
			close(s.startB)
			select {
			case <-s.doneB:
			case <-time.After(10 * time.Second):
			}
		}
	}
	s.chains[who+":"+def.Name()] = chain
}

func (l ccListener) After(ctx context.Context, _ api.Module, def api.FunctionDefinition, _ []uint64) {
	who, _ := ctx.Value(ccKey{}).(string)
	l.s.events[who] = append(l.s.events[who], "after "+def.Name())
}

func (l ccListener) Abort(ctx context.Context, _ api.Module, def api.FunctionDefinition, _ error) {
	who, _ := ctx.Value(ccKey{}).(string)
	l.s.events[who] = append(l.s.events[who], "abort "+def.Name())
}

func runConcurrentCalls(t *tape.Tape, cfg sim.Config) (res sim.Result) {
	ctx := context.Background()
	var rc wazero.RuntimeConfig
	if cfg.Engine == "interpreter" {
		rc = wazero.NewRuntimeConfigInterpreter()
	} else {
		rc = wazero.NewRuntimeConfigCompiler()
	}
	rt := wazero.NewRuntimeWithConfig(ctx, rc)
	defer rt.Close(ctx)
	// leaf(x)=x+1; a chain a1 -> a2 -> ... -> leaf of tape-chosen depth; b1 -> leaf
	depth := t.Range(1, 4)
	m := &wasmb.Module{NameSection: true, Name: "cc"}
	i32 := []wasmb.ValType{wasmb.I32}
	leaf := m.AddFunc(i32, i32, nil, (&wasmb.Code{}).LocalGet(0).I32Const(1).I32Add().B, "leaf")
	prev := leaf
	wantA := []string{"leaf"}
	for d := depth; d >= 1; d-- {
		name := fmt.Sprintf("a%d", d)
		prev = m.AddFunc(i32, i32, nil, (&wasmb.Code{}).LocalGet(0).Call(prev).I32Const(1).I32Add().B, name)
		wantA = append(wantA, name)
	}
	m.AddFunc(i32, i32, nil, (&wasmb.Code{}).LocalGet(0).Call(leaf).I32Const(10).I32Add().B, "b1")
	s := &ccState{pauseAfter: 1 + t.Choose(depth+1), startB: make(chan struct{}), doneB: make(chan struct{}), chains: map[string][]string{}, events: map[string][]string{}}
	var factory experimental.FunctionListenerFactory = experimental.FunctionListenerFactoryFunc(func(api.FunctionDefinition) experimental.FunctionListener {
		return ccListener{s}
	})
	if t.Chance(1, 3) {
		// combined with a second factory whose listeners only walk the stack
		s.multi = true
		factory = experimental.MultiFunctionListenerFactory(factory, experimental.FunctionListenerFactoryFunc(func(api.FunctionDefinition) experimental.FunctionListener {
			return walkLst{}
		}))
		res.Stat("probe.multi_function_listener_factory", 1)
	}
	lctx := experimental.WithFunctionListenerFactory(ctx, factory)
	mod, err := rt.InstantiateWithConfig(lctx, m.Encode(), wazero.NewModuleConfig().WithName(""))
	if err != nil {
		panic(err)
	}
	fa, fb := mod.ExportedFunction("a1"), mod.ExportedFunction("b1")
	go func() {
		<-s.startB
		fb.Call(context.WithValue(ctx, ccKey{}, "B"), 5)
		close(s.doneB)
	}()
	ra, err := fa.Call(context.WithValue(ctx, ccKey{}, "A"), 7)
	res.Steps = int64(depth + 2)
	res.Shape = sim.ShapeOf(fmt.Sprint(depth, s.pauseAfter))
	res.Nontrivial = s.pausedOnce
	res.Logf("chain of depth %d, A's listener pauses after %d frames of its walk", depth, s.pauseAfter)
	res.Sample = res.Trace
	if err != nil || len(ra) != 1 || ra[0] != uint64(7+1+depth) {
		res.Fail("result-mismatch", "a1(7) with another call in flight on the instance returned %v %v", ra, err)
		return
	}
	if got := s.chains["A:leaf"]; strings.Join(got, "<") != strings.Join(wantA, "<") {
		res.Fail("listener-stack", "two calls in flight on one instance (a1 chain of depth %d; b1 runs completely while the before-listener of a1's leaf has walked %d frames): a1's leaf lists the call chain %v, expected %v", depth, s.pauseAfter, got, wantA)
		return
	}
	if got := s.chains["B:leaf"]; strings.Join(got, "<") != "leaf<b1" {
		res.Fail("listener-stack", "two calls in flight on one instance: b1's leaf lists the call chain %v, expected [leaf b1]", got)
		return
	}
	var wantEv []string
	for i := len(wantA) - 1; i >= 0; i-- {
		wantEv = append(wantEv, "before "+wantA[i])
	}
	for _, f := range wantA {
		wantEv = append(wantEv, "after "+f)
	}
	if strings.Join(s.events["A"], ",") != strings.Join(wantEv, ",") || strings.Join(s.events["B"], ",") != "before b1,before leaf,after leaf,after b1" {
		res.Fail("listener-sequence", "two calls in flight on one instance: events of A %v (expected %v), events of B %v", s.events["A"], wantEv, s.events["B"])
	}
	return
}
