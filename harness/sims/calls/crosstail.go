package calls

import (
	"context"
	"fmt"

	"github.com/tetratelabs/wazero"
	"github.com/tetratelabs/wazero/api"
	"github.com/tetratelabs/wazero/experimental"

	"verifharness/sim"
	"verifharness/tape"
	"verifharness/wasmb"
)

// runCrossTail (class overflow, some runs): two instances bounce a counter between each other with
// return_call_indirect through a shared table, every hop crossing the instance boundary, for a number of
// hops far beyond any frame ceiling.  The engines may run that in constant stack (the call returns) or
// not (then the caller gets the stack-overflow error); the process survives either way, both instances
// keep working, and the same function object is usable afterwards.
func runCrossTail(t *tape.Tape, cfg sim.Config) (res sim.Result) {
	ctx := context.Background()
	var rc wazero.RuntimeConfig
	if cfg.Engine == "interpreter" {
		rc = wazero.NewRuntimeConfigInterpreter()
	} else {
		rc = wazero.NewRuntimeConfigCompiler()
	}
	rt := wazero.NewRuntimeWithConfig(ctx, rc.WithCoreFeatures(api.CoreFeaturesV2|experimental.CoreFeaturesTailCall))
	defer rt.Close(ctx)
	tm := &wasmb.Module{}
	tm.Tables = []wasmb.Table{{Elem: wasmb.FuncRef, Lim: wasmb.Limits{Min: 2}}}
	tm.Exports = append(tm.Exports, wasmb.Export{Name: "t", Kind: wasmb.KindTable, Idx: 0})
	if _, err := rt.InstantiateWithConfig(ctx, tm.Encode(), wazero.NewModuleConfig().WithName("t")); err != nil {
		panic(err)
	}
	bouncer := func(self, other int32) []byte {
		m := &wasmb.Module{}
		m.Imports = append(m.Imports, wasmb.Import{Module: "t", Name: "t", Kind: wasmb.KindTable, Table: wasmb.Table{Elem: wasmb.FuncRef, Lim: wasmb.Limits{Min: 2}}})
		ti := m.AddType([]wasmb.ValType{wasmb.I32}, []wasmb.ValType{wasmb.I32})
		// f(n): n == 0 ? 77 : return_call_indirect table[other](n-1)
		c := (&wasmb.Code{}).LocalGet(0).I32Eqz().If(wasmb.BlockVoid).I32Const(77).Return().End().
			LocalGet(0).I32Const(1).I32Sub().I32Const(other).ReturnCallIndirect(ti, 0)
		f := m.AddFunc([]wasmb.ValType{wasmb.I32}, []wasmb.ValType{wasmb.I32}, nil, c.B, "f")
		m.Elems = []wasmb.Elem{{Mode: 0, Offset: wasmb.ConstI32(self), Funcs: []uint32{f}}}
		return m.Encode()
	}
	a, err := rt.InstantiateWithConfig(ctx, bouncer(0, 1), wazero.NewModuleConfig().WithName("a"))
	if err != nil {
		panic(fmt.Sprintf("harness: %v", err))
	}
	if _, err = rt.InstantiateWithConfig(ctx, bouncer(1, 0), wazero.NewModuleConfig().WithName("b")); err != nil {
		panic(err)
	}
	f := a.ExportedFunction("f")
	small := uint64(2 + t.Choose(40))
	hops := uint64(1)<<24 + uint64(t.Choose(1000))
	res.Stat("probe.cross_instance_tail_call_recursion", 1)
	res.Nontrivial = true
	res.Shape = sim.ShapeOf("crosstail")
	step := func(what string, n uint64, mustReturn bool) bool {
		r, err := f.Call(ctx, n)
		kind, msg, _ := classify(err)
		res.Logf("%s f(%d) -> %v %s", what, n, r, kind)
		switch {
		case err == nil && len(r) == 1 && r[0] == 77:
			return true
		case !mustReturn && kind == "stack-overflow":
			return true
		}
		res.Fail("error-kind", "%s: f(%d), tail calls bouncing between two instances, returned %v %s %q (expected 77%s)", what, n, r, kind, msg, map[bool]string{true: "", false: " or the stack-overflow error"}[mustReturn])
		return false
	}
	if !step("before", small, true) || !step("far beyond any frame ceiling:", hops, false) || !step("the same function object afterwards:", small, true) {
		return
	}
	res.Steps = 3
	// (the number of hops and whether the big call returned differ per engine: not part of the trace)
	res.Trace = nil
	res.Logf("cross-instance tail-call recursion survived")
	res.Sample = res.Trace
	return
}
