package calls

import (
	"context"
	"errors"
	"fmt"
	"strings"

	"github.com/tetratelabs/wazero"
	"github.com/tetratelabs/wazero/api"
	"github.com/tetratelabs/wazero/imports/wasi_snapshot_preview1"
	"github.com/tetratelabs/wazero/sys"

	"verifharness/sim"
	"verifharness/tape"
	"verifharness/wasmb"
)

// Class exit-then-wasi: the instance has exited (proc_exit, a host function closing it, or a nested
// call whose exit error the host function swallowed) and code of it still runs or runs again and reaches
// a WASI function.  Whatever that code does, the caller must get the exit error carrying the code, and the
// other instance keeps working.  Recorded known finding: the WASI function dereferences the released
// system context and the caller gets a Go runtime error instead.
func runExitThenWASI(t *tape.Tape, cfg sim.Config) (res sim.Result) {
	ctx := context.Background()
	var rc wazero.RuntimeConfig
	if cfg.Engine == "interpreter" {
		rc = wazero.NewRuntimeConfigInterpreter()
	} else {
		rc = wazero.NewRuntimeConfigCompiler()
	}
	rt := wazero.NewRuntimeWithConfig(ctx, rc)
	defer rt.Close(ctx)
	if _, err := wasi_snapshot_preview1.Instantiate(ctx, rt); err != nil {
		panic(err)
	}
	code := uint32(1 + t.Choose(200))
	variant := t.Choose(3)
	wasiFn := t.Choose(3) // fd_write, clock_time_get, random_get
	var mods [2]api.Module
	_, err := rt.NewHostModuleBuilder("env").NewFunctionBuilder().
		WithGoModuleFunction(api.GoModuleFunc(func(ctx context.Context, mod api.Module, stack []uint64) {
			switch stack[0] {
			case 1: // close the calling instance and return
				mod.CloseWithExitCode(ctx, code)
			case 2: // nested call that exits; the error is swallowed
				if _, err := mod.ExportedFunction("exit").Call(ctx, uint64(code)); err == nil {
					panic("harness: the nested exit returned no error")
				}
			}
		}), []api.ValueType{api.ValueTypeI32}, nil).Export("h").Instantiate(ctx)
	if err != nil {
		panic(err)
	}
	m := &wasmb.Module{Mem: &wasmb.Limits{Min: 1}}
	i32, i64 := wasmb.I32, wasmb.I64
	h := m.ImportFunc("env", "h", []wasmb.ValType{i32}, nil)
	pexit := m.ImportFunc("wasi_snapshot_preview1", "proc_exit", []wasmb.ValType{i32}, nil)
	fdw := m.ImportFunc("wasi_snapshot_preview1", "fd_write", []wasmb.ValType{i32, i32, i32, i32}, []wasmb.ValType{i32})
	clk := m.ImportFunc("wasi_snapshot_preview1", "clock_time_get", []wasmb.ValType{i32, i64, i32}, []wasmb.ValType{i32})
	rnd := m.ImportFunc("wasi_snapshot_preview1", "random_get", []wasmb.ValType{i32, i32}, []wasmb.ValType{i32})
	m.AddFunc([]wasmb.ValType{i32}, nil, nil, (&wasmb.Code{}).LocalGet(0).Call(pexit).B, "exit")
	wasi := func(c *wasmb.Code) *wasmb.Code {
		switch wasiFn {
		case 0:
			// iovec at 16: {ptr 32, len 2}
			c.I32Const(16).I32Const(32).I32Store(0).I32Const(20).I32Const(2).I32Store(0)
			return c.I32Const(1).I32Const(16).I32Const(1).I32Const(64).Call(fdw)
		case 1:
			return c.I32Const(0).I64Const(1).I32Const(64).Call(clk)
		}
		return c.I32Const(64).I32Const(8).Call(rnd)
	}
	// use(): mem[0]++ ; the WASI call; returns mem[0]
	m.AddFunc(nil, []wasmb.ValType{i32}, nil, wasi((&wasmb.Code{}).I32Const(0).I32Const(0).I32Load(0).I32Const(1).I32Add().I32Store(0)).Drop().I32Const(0).I32Load(0).B, "use")
	// viahost(tag): mem[0]++ ; h(tag) ; the WASI call ; returns mem[0]
	m.AddFunc([]wasmb.ValType{i32}, []wasmb.ValType{i32}, nil, wasi((&wasmb.Code{}).I32Const(0).I32Const(0).I32Load(0).I32Const(1).I32Add().I32Store(0).LocalGet(0).Call(h)).Drop().I32Const(0).I32Load(0).B, "viahost")
	cm, err := rt.CompileModule(ctx, m.Encode())
	if err != nil {
		panic(fmt.Sprintf("harness: %v", err))
	}
	for i := range mods {
		if mods[i], err = rt.InstantiateModule(ctx, cm, wazero.NewModuleConfig().WithName("").WithStartFunctions()); err != nil {
			panic(err)
		}
	}
	a, b := mods[0], mods[1]
	judge := func(what string, err error) bool {
		var ee *sys.ExitError
		if errors.As(err, &ee) {
			if ee.ExitCode() != code {
				res.Fail("error-kind", "%s: exit error with code %d, the instance exited with %d", what, ee.ExitCode(), code)
				return false
			}
			return true
		}
		if err != nil && strings.Contains(err.Error(), "nil pointer dereference") && strings.Contains(err.Error(), "wasi_snapshot_preview1.") {
			res.Known = append(res.Known, "wasi-call-after-exit-nil-dereference")
			return true
		}
		res.Fail("error-kind", "%s: returned %v, expected the exit error with code %d", what, first(err), code)
		return false
	}
	wname := []string{"fd_write", "clock_time_get", "random_get"}[wasiFn]
	switch variant {
	case 0:
		_, err := a.ExportedFunction("exit").Call(ctx, uint64(code))
		if !judge("exit("+fmt.Sprint(code)+")", err) {
			return
		}
		_, err = a.ExportedFunction("use").Call(ctx)
		res.Logf("exit(%d), then use() [%s] on the same instance -> %v", code, wname, first(err))
		if !judge("use() ["+wname+"] on the instance that exited", err) {
			return
		}
	case 1:
		_, err := a.ExportedFunction("viahost").Call(ctx, 1)
		res.Logf("viahost: the host function closes the instance with %d and returns, the guest goes on into %s -> %v", code, wname, first(err))
		if !judge("a call whose host function closed the instance and returned, the guest continuing into "+wname, err) {
			return
		}
	case 2:
		_, err := a.ExportedFunction("viahost").Call(ctx, 2)
		res.Logf("viahost: the host function swallows a nested exit(%d), the guest goes on into %s -> %v", code, wname, first(err))
		if !judge("a call whose host function swallowed the exit error of a nested call, the guest continuing into "+wname, err) {
			return
		}
	}
	if v, ok := a.Memory().ReadUint32Le(0); !ok || v != 1 {
		res.Fail("state-mismatch", "the exited instance's counter is %d, expected 1 (effects made before the failure persist)", v)
		return
	}
	// the sibling instance is untouched
	r, err := b.ExportedFunction("use").Call(ctx)
	if err != nil || len(r) != 1 || r[0] != 1 {
		res.Fail("other-instance-affected", "after instance 0 exited, use() [%s] on instance 1 returned %v %v, expected [1] <nil>", wname, r, first(err))
		return
	}
	res.Steps = 3
	res.Nontrivial = true
	res.Shape = sim.ShapeOf(fmt.Sprint(variant, wasiFn))
	res.Sample = res.Trace
	return
}

func first(err error) string {
	if err == nil {
		return "<nil>"
	}
	return strings.SplitN(err.Error(), "\n", 2)[0]
}
