package calls

import (
	"context"
	"fmt"
	"runtime/debug"
	"strings"
	"time"

	"github.com/tetratelabs/wazero"
	"github.com/tetratelabs/wazero/api"
	"github.com/tetratelabs/wazero/experimental"

	"verifharness/plan"
	"verifharness/sim"
	"verifharness/sims/term"
	"verifharness/tape"
)

type c06 struct{}
type c20 struct{}

func init() {
	sim.Register(c06{})
	sim.Register(c20{})
}

func (c06) Property() string { return "C06" }
func (c20) Property() string { return "C20" }

func (c06) Classes() []sim.Class {
	var cs []sim.Class
	for _, e := range []string{"interpreter", "compiler"} {
		cs = append(cs,
			sim.Class{Name: "faultfree", Engine: e, Quick: 800, Thorough: 30000, DeathIsViolation: true, RunTimeoutSec: 60},
			sim.Class{Name: "history", Engine: e, Quick: 3000, Thorough: 150000, DeathIsViolation: true, RunTimeoutSec: 60},
			sim.Class{Name: "overflow", Engine: e, Quick: 60, Thorough: 1500, DeathIsViolation: true, RunTimeoutSec: 120, Batch: 4},
			// the same histories with a listener factory attached at compile time (listeners change the
			// host-call and unwinding paths of both engines); events are judged as in C20
			sim.Class{Name: "history-with-listeners", Engine: e, Quick: 1000, Thorough: 40000, DeathIsViolation: true, RunTimeoutSec: 60},
		)
	}
	for _, e := range []string{"interpreter", "compiler"} {
		// code of an instance that has exited reaches a WASI function
		cs = append(cs, sim.Class{Name: "exit-then-wasi", Engine: e, Quick: 30, Thorough: 600, DeathIsViolation: true, RunTimeoutSec: 60})
	}
	for _, e := range []string{"interpreter", "compiler"} {
		cs = append(cs, sim.Class{Name: "reentrant-unbounded", Engine: e, Quick: 1, Thorough: 3, ExpectDeath: true,
			DeathPattern: "stack overflow|goroutine stack exceeds", KnownSig: "unbounded-host-reentrancy-fatal-stack-overflow", RunTimeoutSec: 120, Batch: 1})
	}
	return cs
}

func (c20) Classes() []sim.Class {
	var cs []sim.Class
	for _, e := range []string{"interpreter", "compiler"} {
		cs = append(cs,
			sim.Class{Name: "all", Engine: e, Quick: 2000, Thorough: 80000, RunTimeoutSec: 60},
			sim.Class{Name: "subset", Engine: e, Quick: 1500, Thorough: 60000, RunTimeoutSec: 60},
			sim.Class{Name: "subsets-large", Engine: e, Quick: 300, Thorough: 12000, RunTimeoutSec: 60},
			sim.Class{Name: "deep", Engine: e, Quick: 60, Thorough: 2000, RunTimeoutSec: 60},
			// stack exhaustion below listened frames (the recursing functions themselves carry no listener)
			sim.Class{Name: "overflow", Engine: e, Quick: 60, Thorough: 1500, RunTimeoutSec: 120, Batch: 4},
			// frames unwound because the module was closed under a running call (close-on-context-done):
			// the termination simulator's scenarios with a bracket-checking listener on every function
			sim.Class{Name: "termination", Engine: e, Quick: 300, Thorough: 12000, RunTimeoutSec: 60},
			// two calls in flight on one instance; a listener pauses in the middle of its stack walk
			sim.Class{Name: "concurrent-calls", Engine: e, Quick: 100, Thorough: 4000, RunTimeoutSec: 60},
		)
	}
	return cs
}

func (c06) Describe() sim.Description {
	return sim.Description{
		Level: "exploration",
		Rule: "tape-generated plans (3-8 guest functions of atoms: stores, global updates, direct/indirect/imported calls, host calls, traps of 7 kinds, memory.grow, table.set, proc_exit, bulk-memory segment ops) instantiated three times " +
			"(named instance, second instance of the same compiled module, a second plan importing the first one's functions); histories of 5-30 top-level Call/CallWithStack; host-call atoms misbehave per tape at any nesting depth " +
			"(panic(error), panic(string), Go runtime error, close own module, close another instance, re-enter any instance and swallow or propagate the inner error). The plan model predicts error kind, results, and all instances' cells/globals/memory size/closed state after every call. " +
			"Class exit-then-wasi: an instance that has exited (proc_exit; a host function closing it; a nested exit swallowed by the host function) runs on or is called again and reaches a WASI function: the caller must get the exit error with the code (recorded known finding: a recovered nil dereference). Class overflow: unbounded recursion, half of the time calling a host function at every level. " +
			"Non-trivial: at least one failure fired at guest depth >= 1 or inside a re-entrant call, followed by at least one more call; distinct = distinct sequences of call outcomes",
		RealCode: []string{"both engines' call/recover/unwind paths", "internal/wasmdebug", "imports/wasi_snapshot_preview1 proc_exit", "module close", "experimental listeners (C20)"},
		Stubs:    []string{"the host function env.h is the simulator's (scripted from the tape)"},
		Assumptions: []string{
			"error kinds are recognised by errors.As for ExitError/runtime.Error/the simulator's panic type and by the first line of the message for traps",
			"stack-trace text and timing are not judged",
			"class reentrant-unbounded runs in a sacrificial child with debug.SetMaxStack lowered to 64 MB",
		},
		FaultKinds: []string{"host_panic_error", "host_panic_string", "host_runtime_error", "close_self", "close_other", "reenter_propagate", "reenter_swallow", "guest_trap", "guest_exit", "stack_overflow"},
	}
}

func (c20) Describe() sim.Description {
	d := c06{}.Describe()
	d.Rule = "same histories as C06 with a recording FunctionListenerFactory for all functions or a tape-chosen subset (host function included; tail calls and the unbounded-recursion functions excluded); " +
		"the plan model predicts the exact event stream (before with parameters and call chain from the callee outward per call engine, after with results, abort on unwinding); checked: bracketing automaton, values, chains, and results/state equal to the model (= the listener-free semantics). " +
		"Class overflow: stack exhaustion below listened frames, the recursing functions carrying counting listeners. Class termination: the C07 scenarios (guest loops ended by cancel/deadline/close under WithCloseOnContextDone) with a bracket-checking listener on every function. Class deep: call chains of depth 31-60 ending in a host panic, judged against the recorded known-finding signatures. Non-trivial: a failure unwound through >= 2 listened frames or a re-entrant call happened; distinct = distinct event streams"
	return d
}

func (c06) Run(t *tape.Tape, cfg sim.Config) sim.Result {
	return run(t, cfg, cfg.Class == "history-with-listeners")
}
func (c20) Run(t *tape.Tape, cfg sim.Config) sim.Result {
	if cfg.Class == "termination" {
		return term.RunListened(t, cfg)
	}
	if cfg.Class == "concurrent-calls" {
		return runConcurrentCalls(t, cfg)
	}
	return run(t, cfg, true)
}

func run(t *tape.Tape, cfg sim.Config, listen bool) (res sim.Result) {
	r := &runner{t: t, res: &res, engine: cfg.Engine, listen: listen}
	if cfg.Class == "reentrant-unbounded" {
		return runUnbounded(r)
	}
	if cfg.Class == "exit-then-wasi" {
		return runExitThenWASI(t, cfg)
	}
	if cfg.Class == "overflow" && !listen && t.Chance(1, 6) {
		return runCrossTail(t, cfg)
	}
	if cfg.Class == "deep" {
		return runDeep(r, &res)
	}
	o := plan.Opts{MinFuncs: 3, MaxFuncs: 8, MaxAtoms: 6, Host: true, Traps: true, Exit: true, Grow: true, Table: true, Segments: true, HostTags: 4, GRef: true, Atomics: true, Wide: true, Host2: true}
	o.Loopy = t.Chance(1, 5)
	switch cfg.Class {
	case "faultfree":
		r.opts = classOpts{}
		o.Traps, o.Exit = false, false
	case "overflow":
		r.recCount = listen
		r.opts = classOpts{faultRate: 2, reenter: true, rec: true}
		o.Rec = true
		o.MaxFuncs = 5
	default:
		r.opts = classOpts{faultRate: 4, reenter: true, exit: true}
	}
	if cfg.Class == "subsets-large" {
		// more functions than one 64-bit word; each instance is a separate compilation of the same
		// binary with its own listener selection, the selections differing around word boundaries
		o.MinFuncs, o.MaxFuncs, o.MaxAtoms = 66, 140, 3
		r.opts = classOpts{faultRate: 2}
	}
	pa := plan.Generate(t, o)
	pa.Name = "pa"
	if cfg.Class == "overflow" && t.Chance(1, 2) {
		// the recursing functions call a (listened) host function at every level: the level at which the
		// stack runs out is then sometimes a host call
		pa.RecHost = true
		res.Stat("probe.recursion_calling_a_host_function_at_every_level", 1)
	}
	ob := o
	ob.NImports, ob.ImportFrom = len(pa.Funcs), "a"
	ob.Rec = false
	pb := plan.Generate(t, ob)
	pb.Name = "pb"
	if listen && cfg.Class == "subset" {
		r.subset = map[string]bool{}
		for i := range pa.Funcs {
			if t.Chance(1, 2) {
				r.subset[fmt.Sprintf("pa.f%d", i)] = true
			}
		}
		for i := range pb.Funcs {
			if t.Chance(1, 2) {
				r.subset[fmt.Sprintf("pb.f%d", i)] = true
			}
		}
		if t.Chance(1, 2) {
			r.subset["env.h"] = true
		}
	}
	if listen && cfg.Class == "subsets-large" {
		base := map[string]bool{"env.h": t.Chance(1, 2)}
		for i := range pa.Funcs {
			if t.Chance(1, 3) {
				base[fmt.Sprintf("pa.f%d", i)] = true
			}
		}
		// functions 64 positions after a selected one (deterministic order)
		var aliases []int
		for i := range pa.Funcs {
			if base[fmt.Sprintf("pa.f%d", i)] && i+64 < len(pa.Funcs) {
				aliases = append(aliases, i+64)
			}
		}
		mk := func() map[string]bool {
			m := map[string]bool{}
			for k, v := range base {
				m[k] = v
			}
			// differ from the base selection only at a few functions, preferably 64 positions away from a selected one
			for n := 1 + t.Choose(3); n > 0; n-- {
				j := t.Choose(len(pa.Funcs))
				if len(aliases) > 0 && t.Chance(2, 3) {
					j = aliases[t.Choose(len(aliases))]
				}
				name := fmt.Sprintf("pa.f%d", j)
				m[name] = !m[name]
			}
			return m
		}
		r.subset = base
		r.instSubset = []map[string]bool{mk(), mk(), nil}
	}
	if listen && (cfg.Class == "all" || cfg.Class == "subset") && t.Chance(1, 4) {
		r.noFactory = map[int]bool{t.Choose(3): true}
		res.Stat("probe.one_instance_compiled_without_any_listener_factory", 1)
	}
	if listen && cfg.Class == "all" && t.Chance(1, 3) {
		r.perInstCompile = true
		res.Stat("probe.one_compilation_per_instance_same_selection", 1)
	}
	if listen && (cfg.Class == "all" || cfg.Class == "subset") && t.Chance(1, 4) {
		r.multi = true
		if t.Chance(1, 2) {
			r.walkMax = 1 + t.Choose(2) // the listener in front of the recording one reads only the top of the stack
		}
		res.Stat("probe.multi_function_listener_factory", 1)
	}
	if t.Chance(1, 3) {
		r.ensureTerm = true
		res.Stat("probe.close_on_context_done_enabled_never_triggered", 1)
	}
	if listen && t.Chance(1, 4) {
		r.implicit = map[int]bool{1: true}
		res.Stat("probe.instance_compiled_implicitly_next_to_another_of_the_same_binary", 1)
	}
	if t.Chance(1, 5) {
		// guest-chosen debug sections (read when a stack trace is built): rows without a file
		r.dwarf = true
		r.dwarfKind = t.Choose(3)
		res.Stat("probe.degenerate_dwarf_sections", 1)
	}
	r.setup([]*plan.Plan{pa, pa, pb}, []string{"a", "", "b"}, []int{-1, -1, 0})
	defer r.rt.Close(r.ctx)
	if t.Chance(1, 4) {
		// experimental snapshot support switched on for every call (no snapshot is ever taken): the
		// engines then run calls through their checkpoint-aware paths
		r.ctx = experimental.WithSnapshotter(r.ctx)
		res.Stat("probe.snapshotter_context", 1)
	}
	r.w = &plan.World{Host: r.modelHost, Listen: r.listens, EnsureTerm: r.ensureTerm, Interp: r.engine == "interpreter"}
	ncalls := t.Range(5, 30)
	overflows := 0
	cached := map[string]api.Function{}
	var outcomes []string
	failedDeep, callsAfterFail := 0, 0
	for i := 0; i < ncalls && res.Violation == nil; i++ {
		if !listen && cfg.Class != "overflow" && t.Chance(1, 12) && len(r.insts) < 6 {
			r.laterInstantiation(pa, pb, i)
			continue
		}
		k := t.Choose(len(r.insts))
		in := r.insts[k]
		fn := t.Choose(len(in.P.Funcs))
		useRec := r.opts.rec && k != 2 && t.Chance(1, 3)
		arg := int32(t.Choose(1000))
		if useRec {
			// a small depth returns, a huge one exhausts the stack; the same function objects see both
			arg = tape.Pick(t, []int32{3, 1 << 30, 12, 0})
		}
		useStack := t.Chance(1, 3)
		refetch := t.Chance(1, 3)
		// model first
		r.script, r.spos, r.events, r.hostErr = nil, 0, nil, ""
		r.recBefore, r.recEnd = 0, 0
		overflowsBefore := r.w.Overflows
		r.w.Events = nil
		r.w.Depth = 0
		r.w.MaxDepthSeen = 0
		faultsBefore, nestBefore := r.faults, r.maxNest
		var mres int32
		var mfail *plan.Fail
		fname := fmt.Sprintf("f%d", fn)
		if useRec {
			fname = fmt.Sprintf("rec%d", t.Choose(2))
			mres, mfail = r.w.APICallRec(in, int(fname[3]-'0'), arg)
		} else {
			mres, mfail = r.w.APICall(in, fn, arg)
		}
		if mfail != nil && mfail.Kind == "stack-overflow" {
			overflows++
			if overflows > 2 {
				break // each overflow on the compiler costs up to 400 MB of stack
			}
		}
		what := fmt.Sprintf("call #%d inst%d(%s).%s(%d)", i, k, in.Name, fname, arg)
		key := fmt.Sprintf("%d.%s", k, fname)
		f := cached[key]
		if f == nil || refetch {
			f = r.mods[k].ExportedFunction(fname)
			cached[key] = f
		}
		var got uint64
		var err error
		callCtx, cancelCall := context.WithCancel(r.ctx)
		escaped := ""
		func() {
			// containment: whatever the guest or a host function does, Call returns
			defer func() {
				if p := recover(); p != nil {
					escaped = fmt.Sprint(p)
				}
			}()
			if useStack {
				st := []uint64{uint64(uint32(arg))}
				err = f.CallWithStack(callCtx, st)
				got = st[0]
			} else {
				var rs []uint64
				rs, err = f.Call(callCtx, uint64(uint32(arg)))
				if err == nil {
					if len(rs) != 1 {
						escaped = fmt.Sprintf("returned %d results", len(rs))
					} else {
						got = rs[0]
					}
				}
			}
		}()
		if escaped != "" {
			res.Fail("panic-escaped-call", "%s: a Go panic left api.Function.Call instead of an error (model predicts %s): %s", what, mfail, escaped)
			break
		}
		cancelCall() // the usual "defer cancel()": the call is over, nothing may react to this any more
		if err != nil && r.ensureTerm && r.termWaits < 2 && !r.mods[k].IsClosed() {
			r.termWaits++
			for w := 0; w < 8 && !r.mods[k].IsClosed(); w++ {
				time.Sleep(100 * time.Microsecond)
			}
		}
		kind, msg, code := classify(err)
		res.Logf("%s -> %s %s model=%s hostcalls=%d", what, kind, msg, mfail, len(r.script))
		outcomes = append(outcomes, fmt.Sprintf("%s:%s", fname, kind))
		if r.hostErr != "" {
			res.Fail("host-call-sequence", "%s: %s", what, r.hostErr)
			break
		}
		if r.spos != len(r.script) {
			res.Fail("host-call-sequence", "%s: the guest made %d host calls, the model predicts %d", what, r.spos, len(r.script))
			break
		}
		switch {
		case mfail == nil:
			if err != nil {
				res.Fail("error-kind", "%s: model predicts success with %d, wazero returned %s %q", what, mres, kind, msg)
			} else if uint32(got) != uint32(mres) {
				res.Fail("result-mismatch", "%s returned %d, model predicts %d", what, int32(uint32(got)), mres)
			}
		case mfail.Kind == "exit":
			if kind != "exit" || code != mfail.ExitCode {
				res.Fail("error-kind", "%s: model predicts exit error with code %d, wazero returned %s %q code %d", what, mfail.ExitCode, kind, msg, code)
			}
		default:
			if kind != mfail.Kind || msg != mfail.Msg {
				res.Fail("error-kind", "%s: model predicts %s %q, wazero returned %s %q", what, mfail.Kind, mfail.Msg, kind, msg)
			}
		}
		if res.Violation != nil {
			break
		}
		if !r.compareState(what) {
			break
		}
		if listen {
			res.Known = append(res.Known, r.compareEvents(what, 0, false)...)
			if r.recBefore != r.recEnd && res.Violation == nil {
				if r.engine == "compiler" && r.w.Overflows > overflowsBefore {
					res.Known = append(res.Known, "compiler-no-abort-on-stack-exhaustion")
				} else {
					res.Fail("listener-unbalanced", "%s: the recursing function got %d before-events but %d after/abort-events (stack exhaustions predicted in this call: %d)", what, r.recBefore, r.recEnd, r.w.Overflows-overflowsBefore)
				}
			}
			res.Known = dedup(res.Known)
		}
		if failedDeep > 0 {
			callsAfterFail++
		}
		if (r.faults > faultsBefore || mfail != nil) && (r.w.MaxDepthSeen >= 2 || r.maxNest > nestBefore) {
			failedDeep++
		}
		res.Steps++
	}
	res.Shape = sim.ShapeOf(outcomes...)
	if listen {
		res.Shape = sim.ShapeOf(append(outcomes, fmt.Sprint(len(r.subset)))...)
	}
	res.Nontrivial = failedDeep > 0 && callsAfterFail > 0
	if cfg.Class == "faultfree" {
		res.Nontrivial = res.Steps >= 5
	}
	res.Stat("fault.injected_total", int64(r.faults))
	res.Stat("probe.max_reentrancy_depth_"+fmt.Sprint(r.maxNest), 1)
	res.Stat("probe.failure_below_depth_1_then_more_calls", int64(b2i(res.Nontrivial)))
	res.Stat("calls", res.Steps)
	smp := res.Trace
	if len(smp) > 10 {
		smp = smp[:10]
	}
	res.Sample = map[string]any{"plan_a": describePlan(pa), "plan_b": describePlan(pb), "calls": smp}
	return
}

// laterInstantiation: another instance of plan A or B whose start function calls one of its functions.
// The start function may trap, exit, or fail inside a (scripted) host call; instantiation then fails,
// effects on OTHER instances (through imports, re-entrant host calls) persist, and everybody keeps working.
func (r *runner) laterInstantiation(pa, pb *plan.Plan, step int) {
	t := r.t
	src, name, imp := pa, fmt.Sprintf("late%d", step), -1
	if t.Chance(1, 2) && !r.insts[0].Closed {
		src, imp = pb, 0 // (importing from "a" needs it to be still registered)
	}
	cp := *src
	cp.HasStart, cp.StartFn, cp.StartArg = true, t.Choose(len(src.Funcs)), int32(t.Choose(100))
	cp.StartExported = t.Chance(1, 2)
	p := &cp
	var impInst *plan.Inst
	if imp >= 0 {
		impInst = r.insts[imp]
	}
	in := plan.NewInst(p, name, impInst)
	// the model runs the start function first
	r.script, r.spos, r.events, r.hostErr = nil, 0, nil, ""
	r.w.Events = nil
	r.w.Depth, r.w.MaxDepthSeen = 0, 0
	// the instance is visible to the scripted host (re-entry / close-other targets) only after success
	_, mfail := r.w.APICall(in, p.StartFn, p.StartArg)
	cm, err := r.rt.CompileModule(r.ctx, r.enc(p))
	if err != nil {
		panic(fmt.Sprintf("harness: start plan does not compile: %v", err))
	}
	mod, ierr := r.rt.InstantiateModule(r.ctx, cm, wazero.NewModuleConfig().WithName(name))
	what := fmt.Sprintf("step #%d instantiate %s with start f%d(%d)", step, p.Name, p.StartFn, p.StartArg)
	kind, msg, code := classify(ierr)
	r.res.Logf("%s -> %s %s model=%s hostcalls=%d", what, kind, msg, mfail, len(r.script))
	if r.hostErr != "" {
		r.res.Fail("host-call-sequence", "%s: %s", what, r.hostErr)
		return
	}
	if r.spos != len(r.script) {
		r.res.Fail("host-call-sequence", "%s: the start function made %d host calls, the model predicts %d", what, r.spos, len(r.script))
		return
	}
	switch {
	case mfail == nil:
		if ierr != nil {
			r.res.Fail("error-kind", "%s: model predicts success, wazero returned %s %q", what, kind, msg)
			return
		}
		r.insts = append(r.insts, in)
		r.mods = append(r.mods, mod)
	case mfail.Kind == "exit" && p.StartExported && mfail.ExitCode == 0:
		// "_start" ending in exit code 0 is success by convention: no error, the returned module is closed
		if ierr != nil || mod == nil || !mod.IsClosed() {
			r.res.Fail("error-kind", "%s: _start exited with code 0: expected no error and a closed module, got %s %q", what, kind, msg)
			return
		}
	case mfail.Kind == "exit":
		// a start function that exits: instantiation returns the exit error (exit code 0 included)
		if kind != "exit" || code != mfail.ExitCode {
			r.res.Fail("error-kind", "%s: model predicts exit error with code %d, wazero returned %s %q code %d", what, mfail.ExitCode, kind, msg, code)
			return
		}
	default:
		if ierr == nil {
			r.res.Fail("error-kind", "%s: model predicts %s %q, instantiation succeeded", what, mfail.Kind, mfail.Msg)
			return
		}
		// the failure is wrapped ("start function[..] failed: ..."): the original must be recognisable
		if !strings.Contains(ierr.Error(), strings.TrimPrefix(mfail.Msg, "wasm error: ")) {
			r.res.Fail("error-kind", "%s: model predicts %s %q, wazero returned %q", what, mfail.Kind, mfail.Msg, msg)
			return
		}
	}
	if mfail != nil && r.res.Violation == nil {
		// whatever made the start function fail (a trap, an exit - its own or one executed by a function of
		// ANOTHER instance it called), nothing of the failed instance stays behind under its name
		if m := r.rt.Module(name); m != nil {
			r.res.Fail("failed-instantiation-leaks", "%s failed (%s) but a module is registered under its name %q (IsClosed=%v)", what, mfail, name, m.IsClosed())
			return
		}
	}
	r.compareState(what)
	r.res.Stat("fault.later_instantiation_with_start", 1)
}

func b2i(b bool) int {
	if b {
		return 1
	}
	return 0
}

func describePlan(p *plan.Plan) []string {
	var out []string
	for i, f := range p.Funcs {
		s := fmt.Sprintf("f%d:", i)
		for _, a := range f.Atoms {
			s += " " + a.String()
		}
		out = append(out, s)
	}
	return out
}

// runDeep: a chain f0 -> f1 -> ... -> f_{d-1} -> host, the host panics.
func runDeep(r *runner, res *sim.Result) sim.Result {
	t := r.t
	depth := 31 + t.Choose(30)
	p := &plan.Plan{Name: "pa"}
	for i := 0; i < depth; i++ {
		if i < depth-1 {
			p.Funcs = append(p.Funcs, plan.Func{Atoms: []plan.Atom{{K: plan.AStore, A: int32(i % plan.NCells), B: int32(i)}, {K: plan.ACall, A: int32(i + 1), B: 1}}})
		} else {
			p.Funcs = append(p.Funcs, plan.Func{Atoms: []plan.Atom{{K: plan.AHost, A: 1}}})
		}
	}
	r.opts = classOpts{}
	r.setup([]*plan.Plan{p}, []string{"a"}, []int{-1})
	defer r.rt.Close(r.ctx)
	r.w = &plan.World{Listen: r.listens}
	mode := t.Choose(3)
	r.w.Host = func(w *plan.World, in *plan.Inst, tag, v int32) (int32, *plan.Fail) {
		d := decision{tag: tag, v: v, ret: v*3 + tag}
		switch mode {
		case 1:
			d.action, d.id = actPanicErr, 1
			r.script = append(r.script, d)
			return 0, &plan.Fail{Kind: "panic-error", Msg: "simpanic-1"}
		case 2:
			d.action = actRuntimeErr
			r.script = append(r.script, d)
			return 0, &plan.Fail{Kind: "runtime-error", Msg: "runtime error: index out of range [5] with length 3"}
		}
		r.script = append(r.script, d)
		return d.ret, nil
	}
	mres, mfail := r.w.APICall(r.insts[0], 0, 5)
	rs, err := r.mods[0].ExportedFunction("f0").Call(r.ctx, 5)
	kind, msg, _ := classify(err)
	what := fmt.Sprintf("deep chain depth=%d mode=%d", depth, mode)
	res.Logf("%s -> %s %s", what, kind, msg)
	if mfail == nil {
		if err != nil || uint32(rs[0]) != uint32(mres) {
			res.Fail("result-mismatch", "%s: model predicts %d, got %v %v", what, mres, rs, err)
		}
	} else if kind != mfail.Kind || msg != mfail.Msg {
		res.Fail("error-kind", "%s: model predicts %s %q, got %s %q", what, mfail.Kind, mfail.Msg, kind, msg)
	}
	if res.Violation == nil && r.compareState(what) {
		deep := 0
		if mfail != nil {
			deep = depth + 1 // frames incl. the host function
		}
		res.Known = append(res.Known, dedup(r.compareEvents(what, deep, true))...)
	}
	res.Shape = sim.ShapeOf(fmt.Sprint(depth, mode))
	res.Nontrivial = true
	res.Steps = 1
	res.Sample = what
	return *res
}

func dedup(xs []string) []string {
	seen := map[string]bool{}
	var out []string
	for _, x := range xs {
		if !seen[x] {
			seen[x] = true
			out = append(out, x)
		}
	}
	return out
}

// runUnbounded: guest f0 calls the host, the host re-enters f0, forever.  On
// the pinned tree this ends in Go's fatal "stack overflow" (known finding);
// the worker is sacrificial.
func runUnbounded(r *runner) sim.Result {
	debug.SetMaxStack(64 << 20)
	p := &plan.Plan{Name: "pa", Funcs: []plan.Func{{Atoms: []plan.Atom{{K: plan.AHost, A: 0}}}}}
	r.setup([]*plan.Plan{p}, []string{"a"}, []int{-1})
	// script: every host call re-enters f0
	n := 0
	for i := 0; i < 4_000_000; i++ {
		r.script = append(r.script, decision{tag: 0, v: 5, action: actReenter, inst: 0, fn: 0, arg: 5})
	}
	_, err := r.mods[0].ExportedFunction("f0").Call(r.ctx, 5)
	n = r.spos
	var res sim.Result
	kind, msg, _ := classify(err)
	res.Logf("unbounded host re-entrancy returned after %d host calls: %s %s", n, kind, msg)
	res.Stat("probe.unbounded_reentrancy_survived", 1)
	res.Nontrivial = true
	res.Shape = "survived"
	return res
}
