// Package config is the derivation-tree simulator for C19 (configuration
// values are immutable).
package config

import (
	"bytes"
	"context"
	"fmt"
	"io"
	"io/fs"
	"os"
	"reflect"
	"sort"
	"strings"
	"testing/fstest"

	"github.com/tetratelabs/wazero"
	"github.com/tetratelabs/wazero/api"
	"github.com/tetratelabs/wazero/experimental"
	"github.com/tetratelabs/wazero/experimental/sock"
	"github.com/tetratelabs/wazero/sys"

	"verifharness/sim"
	"verifharness/sims/wasifs"
	"verifharness/tape"
	w "verifharness/wasiguest"
	"verifharness/wasmb"
)

type c19 struct{}

func init() { sim.Register(c19{}) }

func (c19) Property() string { return "C19" }

func (c19) Classes() []sim.Class {
	return []sim.Class{
		{Name: "tree", Engine: "interpreter", Quick: 4000, Thorough: 150000},
		{Name: "tree", Engine: "compiler", Quick: 500, Thorough: 20000},
		{Name: "tree-sock", Engine: "interpreter", Quick: 1000, Thorough: 40000},
		{Name: "concurrent-derivations", Engine: "interpreter", Quick: 1500, Thorough: 60000, Instrumented: true},
	}
}

func (c19) Describe() sim.Description {
	return sim.Description{
		Level: "exploration",
		Rule: "tape-generated derivation trees of 8-30 steps by 2-3 simulated clients: each step picks ANY earlier RuntimeConfig/ModuleConfig/FSConfig node and applies a With... method with tape-drawn arguments (overlapping env keys, overriding guest paths, args, names, start functions, stdio, clocks, random source), or instantiates a module with a node (class tree-sock: with a sock configuration in the context; that class also grows a tree of experimental/sock Config values with WithTCPListener). " +
			"Model: persistent values (node = parent's record + delta). After EVERY step, for EVERY node: (1) a structural fingerprint (reflection walk over wazero-owned structs, slices, maps; foreign pointers by identity) equals the one taken at creation; (2) for one tape-chosen ModuleConfig node (all of them at the end) what a guest observes when instantiated with it - args, environ, preopen names, module name, which start functions ran, where stdout goes, wall clock, random bytes - equals the model's record. " +
			"Non-trivial: some node has >= 2 children derived with the same kind of method, or a key/path override happened; distinct = distinct derivation shapes (parent index, method) sequences",
		RealCode:    []string{"config.go, fsconfig.go With... methods and clone", "runtime.go InstantiateModule", "internal/sys context construction", "WASI args/environ/prestat/clock/random as the observation channel"},
		Stubs:       []string{"none"},
		Assumptions: []string{"classes tree / tree-sock: clients interleave at call granularity, which equals sequential orders; class concurrent-derivations (instrumented copy: statement-level yields in config.go and fsconfig.go, switched on for this class only): 2-3 baton-scheduled tasks derive from the same shared values at the same time, interleaved statement by statement; a data race that needs two accesses inside ONE statement to overlap is out of reach"},
		FaultKinds:  []string{"none (the adversary is the derivation order and argument overlap)"},
	}
}

// ---- structural fingerprint

func fingerprint(v any) string {
	var sb strings.Builder
	seen := map[uintptr]bool{}
	fp(&sb, reflect.ValueOf(v), seen, 0)
	return sb.String()
}

func wazeroOwned(t reflect.Type) bool {
	for t.Kind() == reflect.Ptr {
		t = t.Elem()
	}
	return strings.HasPrefix(t.PkgPath(), "github.com/tetratelabs/wazero")
}

func fp(sb *strings.Builder, v reflect.Value, seen map[uintptr]bool, depth int) {
	if depth > 12 {
		sb.WriteString("<deep>")
		return
	}
	switch v.Kind() {
	case reflect.Invalid:
		sb.WriteString("nil")
	case reflect.Bool:
		fmt.Fprintf(sb, "%v", v.Bool())
	case reflect.Int, reflect.Int8, reflect.Int16, reflect.Int32, reflect.Int64:
		fmt.Fprintf(sb, "%d", v.Int())
	case reflect.Uint, reflect.Uint8, reflect.Uint16, reflect.Uint32, reflect.Uint64, reflect.Uintptr:
		fmt.Fprintf(sb, "%d", v.Uint())
	case reflect.String:
		fmt.Fprintf(sb, "%q", v.String())
	case reflect.Func, reflect.Chan, reflect.UnsafePointer:
		if v.IsNil() {
			sb.WriteString("nil")
		} else {
			fmt.Fprintf(sb, "@%x", v.Pointer())
		}
	case reflect.Interface:
		if v.IsNil() {
			sb.WriteString("nil")
			return
		}
		e := v.Elem()
		sb.WriteString(e.Type().String() + ":")
		fp(sb, e, seen, depth+1)
	case reflect.Ptr:
		if v.IsNil() {
			sb.WriteString("nil")
			return
		}
		if !wazeroOwned(v.Type()) {
			fmt.Fprintf(sb, "@%x", v.Pointer()) // foreign: by identity
			return
		}
		if seen[v.Pointer()] {
			sb.WriteString("<cycle>")
			return
		}
		seen[v.Pointer()] = true
		sb.WriteString("&")
		fp(sb, v.Elem(), seen, depth+1)
	case reflect.Struct:
		if !wazeroOwned(v.Type()) {
			sb.WriteString(v.Type().String() + "{..}")
			return
		}
		sb.WriteString(v.Type().Name() + "{")
		for i := 0; i < v.NumField(); i++ {
			sb.WriteString(v.Type().Field(i).Name + "=")
			fp(sb, v.Field(i), seen, depth+1)
			sb.WriteString(";")
		}
		sb.WriteString("}")
	case reflect.Slice:
		if v.IsNil() {
			sb.WriteString("nil[]")
			return
		}
		if v.Type().Elem().Kind() == reflect.Uint8 {
			fmt.Fprintf(sb, "%q", v.Bytes())
			return
		}
		sb.WriteString("[")
		for i := 0; i < v.Len(); i++ {
			fp(sb, v.Index(i), seen, depth+1)
			sb.WriteString(",")
		}
		sb.WriteString("]")
	case reflect.Array:
		sb.WriteString("[")
		for i := 0; i < v.Len(); i++ {
			fp(sb, v.Index(i), seen, depth+1)
			sb.WriteString(",")
		}
		sb.WriteString("]")
	case reflect.Map:
		if v.IsNil() {
			sb.WriteString("nilmap")
			return
		}
		var items []string
		it := v.MapRange()
		for it.Next() {
			var kb, vb strings.Builder
			fp(&kb, it.Key(), seen, depth+1)
			fp(&vb, it.Value(), seen, depth+1)
			items = append(items, kb.String()+"->"+vb.String())
		}
		sort.Strings(items)
		sb.WriteString("map{" + strings.Join(items, ",") + "}")
	default:
		fmt.Fprintf(sb, "?%v", v.Kind())
	}
}

// ---- model records

type mcRec struct {
	name      string
	nameSet   bool
	args      []string
	env       [][2]string
	starts    []string
	startsSet bool
	stdout    int // index into stdout buffers, -1 none
	wall      int // fixed wall clock seconds, -1 default
	rand      int // random byte, -1 default
	fs        *fcRec
	stderr    int // index into stdout buffers, -1 none
	stdin     int // id of the constant stdin, -1 none
	nano      int // fixed monotonic clock value, -1 default
	sleepFn   int // id of the nanosleep function, -1 default
	yieldFn   int // id of the osyield function, -1 default
	sysWall   bool
}

// closerFS is an fs.FS with a Close method of its own, like *zip.ReadCloser: once closed nothing opens.
type closerFS struct {
	fs.FS
	closed bool
}

func (c *closerFS) Close() error { c.closed = true; return nil }
func (c *closerFS) Open(name string) (fs.File, error) {
	if c.closed {
		return nil, fmt.Errorf("open %s: the file system was closed", name)
	}
	return c.FS.Open(name)
}

type fcRec struct {
	mounts [][2]string // guestPath as given, marker file name
	// hasNil: a mount was overridden with a nil file system: what a guest sees of such a pre-open is not
	// specified; values holding one are judged by their structure only
	hasNil bool
}

func (r *mcRec) clone() *mcRec {
	n := *r
	n.args = append([]string(nil), r.args...)
	n.env = append([][2]string(nil), r.env...)
	n.starts = append([]string(nil), r.starts...)
	return &n
}

func (r *fcRec) clone() *fcRec {
	return &fcRec{mounts: append([][2]string(nil), r.mounts...), hasNil: r.hasNil}
}

type node struct {
	kind   string // rc | mc | fc
	val    any
	fp     string
	mc     *mcRec
	fc     *fcRec
	rc     *rcRec
	parent int
	how    string
	nsock  int // sc: number of listeners configured
}

type rcRec struct {
	limit    uint32
	features api.CoreFeatures
}

// fnCalls counts invocations of configured nanosleep (id) / osyield (1000+id) functions.
var fnCalls = map[int]int{}

// constStdin is a stateless stdin: every Read returns the same bytes once per call.
type constStdin struct{ id int }

func (c constStdin) Read(p []byte) (int, error) {
	return copy(p, fmt.Sprintf("stdin-%d", c.id)), nil
}

type constReader struct{ b byte }

func (c constReader) Read(p []byte) (int, error) {
	for i := range p {
		p[i] = c.b
	}
	return len(p), nil
}

func cleanGuest(p string) string {
	// mirror of the documented normalisation: leading "./" and "/" and trailing "/" are ignored
	for strings.HasSuffix(p, "/") {
		p = p[:len(p)-1]
	}
	for {
		switch {
		case strings.HasPrefix(p, "/"):
			p = p[1:]
		case strings.HasPrefix(p, "./"):
			p = p[2:]
		case p == ".":
			p = ""
		default:
			return p
		}
	}
}

var (
	envKeys    = []string{"A", "B", "HOME", "X"}
	guestPaths = []string{"/", "/data", "/tmp", "data", "./tmp", "/data/", "/etc", "/opt", "/usr/", "./home", "/var"}
	modNames   = []string{"", "m1", "m2"}
)

func (c19) Run(t *tape.Tape, cfg sim.Config) (res sim.Result) {
	if cfg.Class == "concurrent-derivations" {
		return runConcurrentDerivations(t, cfg)
	}
	ctx := context.Background()
	rt := wasifs.RuntimeFor(cfg.Engine)
	var stdouts []*bytes.Buffer
	nodes := []*node{}
	add := func(kind string, val any, parent int, how string) *node {
		n := &node{kind: kind, val: val, fp: fingerprint(val), parent: parent, how: how}
		nodes = append(nodes, n)
		return n
	}
	n0 := add("mc", wazero.NewModuleConfig(), -1, "NewModuleConfig")
	n0.mc = &mcRec{stdout: -1, wall: -1, rand: -1, stderr: -1, stdin: -1, nano: -1, sleepFn: -1, yieldFn: -1}
	n1 := add("fc", wazero.NewFSConfig(), -1, "NewFSConfig")
	n1.fc = &fcRec{}
	n2 := add("rc", wazero.NewRuntimeConfigInterpreter(), -1, "NewRuntimeConfigInterpreter")
	n2.rc = &rcRec{limit: 65536, features: api.CoreFeaturesV2}
	if cfg.Class == "tree-sock" {
		add("sc", sock.NewConfig(), -1, "sock.NewConfig")
	}
	var shape []string
	overrides, fanout := 0, 0
	childKinds := map[string]int{}
	nsteps := t.Range(8, 30)
	marker := 0
	checkAll := func(after string) bool {
		for i, n := range nodes {
			if got := fingerprint(n.val); got != n.fp {
				res.Fail("config-mutated", "after %s: node %d (%s, created by %s from node %d) changed structurally\n was: %s\n now: %s", after, i, n.kind, n.how, n.parent, clip(n.fp), clip(got))
				return false
			}
		}
		return true
	}
	midChecks := 0
	duringInstantiate = func() {
		midChecks++
		if res.Violation == nil {
			checkAll("(in the middle of an InstantiateModule call)")
		}
	}
	heldObs = nil
	defer func() {
		if heldObs != nil {
			heldObs.g.Mod.Close(ctx)
			heldObs = nil
		}
	}()
	defer func() {
		duringInstantiate = nil
		res.Stat("probe.structural_checks_in_the_middle_of_instantiation", int64(midChecks))
	}()
	observe := func(i int, after string) bool {
		n := nodes[i]
		if n.kind != "mc" {
			return true
		}
		var sockNode *node
		if cfg.Class == "tree-sock" && t.Chance(1, 2) {
			// the context carries one of the TREE's socket configurations (at most 3 listeners)
			var scs []*node
			for _, o := range nodes {
				if o.kind == "sc" && o.nsock > 0 && o.nsock <= 3 {
					scs = append(scs, o)
				}
			}
			if len(scs) > 0 {
				sockNode = scs[t.Choose(len(scs))]
			} else {
				sockNode = &node{kind: "sc", val: sock.NewConfig().WithTCPListener("127.0.0.1", 0), nsock: 1}
			}
		}
		return observeMC(&res, rt, n, i, after, stdouts, sockNode, t.Chance(1, 3))
	}
	for step := 0; step < nsteps && res.Violation == nil; step++ {
		client := t.Choose(3)
		pi := t.Choose(len(nodes))
		if cfg.Class == "tree-sock" && t.Chance(2, 5) {
			// favour the socket configurations (a chain of several listeners, then siblings)
			var scs []int
			for i, n := range nodes {
				if n.kind == "sc" {
					scs = append(scs, i)
				}
			}
			pi = scs[len(scs)-1-t.Choose(min(len(scs), 3))]
		}
		p := nodes[pi]
		var how string
		switch p.kind {
		case "sc":
			// port 0 (the system chooses: no clashes between worker processes); the hosts differ instead
			host := fmt.Sprintf("127.0.%d.%d", 1+step/200, 2+step%200)
			how = fmt.Sprintf("WithTCPListener(%s,0)", host)
			add("sc", p.val.(sock.Config).WithTCPListener(host, 0), pi, how).nsock = p.nsock + 1
		case "mc":
			mc := p.val.(wazero.ModuleConfig)
			rec := p.mc.clone()
			var nv wazero.ModuleConfig
			switch t.Weighted(6, 3, 2, 2, 2, 2, 1, 2, 2, 1, 1, 1, 1, 1, 1, 1) {
			case 9:
				stdouts = append(stdouts, &bytes.Buffer{})
				how = fmt.Sprintf("WithStderr(buf%d)", len(stdouts)-1)
				nv = mc.WithStderr(stdouts[len(stdouts)-1])
				rec.stderr = len(stdouts) - 1
			case 10:
				how = fmt.Sprintf("WithStdin(const %d)", step)
				nv = mc.WithStdin(constStdin{step})
				rec.stdin = step
			case 11:
				v := 5000 + step
				how = fmt.Sprintf("WithNanotime(%d)", v)
				nv = mc.WithNanotime(func() int64 { return int64(v) }, sys.ClockResolution(1))
				rec.nano = v
			case 12:
				id := step
				how = fmt.Sprintf("WithNanosleep(fn%d)", id)
				nv = mc.WithNanosleep(func(ns int64) { fnCalls[id]++ })
				rec.sleepFn = id
			case 13:
				id := step
				how = fmt.Sprintf("WithOsyield(fn%d)", id)
				nv = mc.WithOsyield(func() { fnCalls[1000+id]++ })
				rec.yieldFn = id
			case 14:
				how = "WithSysWalltime()"
				nv = mc.WithSysWalltime()
				rec.wall, rec.sysWall = -1, true
			case 15:
				marker++
				mname := fmt.Sprintf("marker%d", marker)
				how = fmt.Sprintf("WithFS(%s)", mname)
				nv = mc.WithFS(fstest.MapFS{mname: &fstest.MapFile{Data: []byte("x")}})
				rec.fs = &fcRec{mounts: [][2]string{{"/", mname}}}
			case 0:
				k, v := tape.Pick(t, envKeys), fmt.Sprintf("v%d", step)
				how = fmt.Sprintf("WithEnv(%s,%s)", k, v)
				nv = mc.WithEnv(k, v)
				found := false
				for j := range rec.env {
					if rec.env[j][0] == k {
						rec.env[j][1] = v
						found = true
						overrides++
					}
				}
				if !found {
					rec.env = append(rec.env, [2]string{k, v})
				}
			case 1:
				var args []string
				for j := t.Choose(4); j > 0; j-- {
					args = append(args, fmt.Sprintf("arg%d-%d", step, j))
				}
				how = fmt.Sprintf("WithArgs(%v)", args)
				nv = mc.WithArgs(args...)
				rec.args = args
			case 2:
				name := tape.Pick(t, modNames)
				how = fmt.Sprintf("WithName(%q)", name)
				nv = mc.WithName(name)
				rec.name, rec.nameSet = name, true
			case 3:
				var st []string
				for j := 1; j <= 3; j++ {
					if t.Chance(1, 2) {
						st = append(st, fmt.Sprintf("s%d", j))
					}
				}
				how = fmt.Sprintf("WithStartFunctions(%v)", st)
				// the embedder passes a slice it keeps using afterwards (the argument is the caller's)
				arg := append(make([]string, 0, len(st)+2), st...)
				nv = mc.WithStartFunctions(arg...)
				for j := range arg {
					arg[j] = "overwritten-by-the-caller"
				}
				rec.starts, rec.startsSet = st, true
			case 4:
				stdouts = append(stdouts, &bytes.Buffer{})
				how = fmt.Sprintf("WithStdout(buf%d)", len(stdouts)-1)
				nv = mc.WithStdout(stdouts[len(stdouts)-1])
				rec.stdout = len(stdouts) - 1
			case 5:
				sec := 1000 + step
				how = fmt.Sprintf("WithWalltime(%d)", sec)
				nv = mc.WithWalltime(func() (int64, int32) { return int64(sec), 0 }, sys.ClockResolution(1))
				rec.wall, rec.sysWall = sec, false
			case 6:
				if t.Chance(1, 3) {
					// explicitly "the default": every instantiation then starts the same deterministic sequence
					how = "WithRandSource(nil)"
					nv = mc.WithRandSource(nil)
					rec.rand = -1
					break
				}
				b := byte(0x40 + step)
				how = fmt.Sprintf("WithRandSource(%#x)", b)
				nv = mc.WithRandSource(constReader{b})
				rec.rand = int(b)
			case 7:
				// attach an FSConfig node
				var fcs []int
				for j, n := range nodes {
					if n.kind == "fc" {
						fcs = append(fcs, j)
					}
				}
				fi := fcs[t.Choose(len(fcs))]
				how = fmt.Sprintf("WithFSConfig(node%d)", fi)
				nv = mc.WithFSConfig(nodes[fi].val.(wazero.FSConfig))
				rec.fs = nodes[fi].fc
			case 8:
				// instantiate with this node: must not change it
				how = "instantiate"
				if !observe(pi, fmt.Sprintf("step %d", step)) {
					return
				}
				shape = append(shape, fmt.Sprintf("%d:inst", pi))
				if !checkAll(fmt.Sprintf("step %d client %d instantiate(node%d)", step, client, pi)) {
					return
				}
				continue
			}
			n := add("mc", nv, pi, how)
			n.mc = rec
		case "fc":
			fc := p.val.(wazero.FSConfig)
			rec := p.fc.clone()
			gp := tape.Pick(t, guestPaths)
			marker++
			mname := fmt.Sprintf("marker%d", marker)
			var mfs fs.FS = fstest.MapFS{mname: &fstest.MapFile{Data: []byte("x")}}
			if t.Chance(1, 3) {
				// a file system that can be closed (an archive the embedder opened and owns): it is the embedder's
				// to close, and every configuration holding it keeps working while the embedder has not
				mfs = &closerFS{FS: mfs}
			}
			how = fmt.Sprintf("WithFSMount(%s,%q)", mname, gp)
			nv := fc.WithFSMount(mfs, gp)
			nilMount := false
			switch t.Choose(5) {
			case 4:
				// a nil file system: overrides an existing mount of the path (the pre-open keeps its place and
				// name, nothing is behind it), adds nothing otherwise
				mname, nilMount = "", true
				how = fmt.Sprintf("WithFSMount(nil,%q)", gp)
				nv = fc.WithFSMount(nil, gp)
			case 2:
				mname = ""
				how = fmt.Sprintf("WithDirMount(scratch,%q)", gp)
				nv = fc.WithDirMount(os.TempDir(), gp)
			case 3:
				mname = ""
				how = fmt.Sprintf("WithReadOnlyDirMount(scratch,%q)", gp)
				nv = fc.WithReadOnlyDirMount(os.TempDir(), gp)
			}
			found := false
			for j := range rec.mounts {
				if cleanGuest(rec.mounts[j][0]) == cleanGuest(gp) {
					rec.mounts[j] = [2]string{gp, mname}
					found = true
					overrides++
				}
			}
			if !found && !nilMount {
				rec.mounts = append(rec.mounts, [2]string{gp, mname})
			}
			if found && nilMount {
				rec.hasNil = true
			}
			n := add("fc", nv, pi, how)
			n.fc = rec
		case "rc":
			rc := p.val.(wazero.RuntimeConfig)
			rec := *p.rc
			var nv wazero.RuntimeConfig
			switch t.Choose(6) {
			case 0:
				rec.limit = uint32(1 + t.Choose(4))
				how = fmt.Sprintf("WithMemoryLimitPages(%d)", rec.limit)
				nv = rc.WithMemoryLimitPages(rec.limit)
			case 1:
				rec.features = tape.Pick(t, []api.CoreFeatures{api.CoreFeaturesV1, api.CoreFeaturesV2})
				how = fmt.Sprintf("WithCoreFeatures(%d)", rec.features)
				nv = rc.WithCoreFeatures(rec.features)
			case 2:
				b := t.Chance(1, 2)
				how = fmt.Sprintf("WithCloseOnContextDone(%v)", b)
				nv = rc.WithCloseOnContextDone(b)
			case 3:
				b := t.Chance(1, 2)
				how = fmt.Sprintf("WithDebugInfoEnabled(%v)", b)
				nv = rc.WithDebugInfoEnabled(b)
			case 4:
				b := t.Chance(1, 2)
				how = fmt.Sprintf("WithCustomSections(%v)", b)
				nv = rc.WithCustomSections(b)
			default:
				b := t.Chance(1, 2)
				how = fmt.Sprintf("WithMemoryCapacityFromMax(%v)", b)
				nv = rc.WithMemoryCapacityFromMax(b)
			}
			n := add("rc", nv, pi, how)
			n.rc = &rec
		}
		key := fmt.Sprintf("%d/%s", pi, strings.SplitN(how, "(", 2)[0])
		childKinds[key]++
		if childKinds[key] == 2 {
			fanout++
		}
		shape = append(shape, fmt.Sprintf("%d:%s", pi, strings.SplitN(how, "(", 2)[0]))
		res.Logf("step %d client %d: node%d = node%d.%s", step, client, len(nodes)-1, pi, how)
		if !checkAll(fmt.Sprintf("step %d client %d node%d.%s", step, client, pi, how)) {
			return
		}
		// observe one earlier ModuleConfig node
		oi := t.Choose(len(nodes))
		if !observe(oi, fmt.Sprintf("step %d (node%d.%s)", step, pi, how)) {
			return
		}
		res.Steps++
	}
	for i := range nodes {
		if !observe(i, "the whole derivation") {
			return
		}
		if nodes[i].kind == "rc" && !observeRC(&res, nodes[i], i) {
			return
		}
	}
	checkAll("all observations")
	_ = ctx
	res.Shape = sim.ShapeOf(shape...)
	res.Nontrivial = fanout > 0 || overrides > 0
	res.Stat("probe.sibling_fanout", int64(fanout))
	res.Stat("probe.key_or_path_override", int64(overrides))
	res.Stat("nodes", int64(len(nodes)))
	smp := res.Trace
	if len(smp) > 12 {
		smp = smp[:12]
	}
	res.Sample = smp
	return
}

func clip(s string) string {
	if len(s) > 700 {
		return s[:700] + "…"
	}
	return s
}

// observeMC instantiates the shim with the node's configuration and compares
// what the guest sees with the node's record.
// keptGuest: the guest of the previous observation, left running until the next one.
type keptGuest struct {
	g         *w.Guest
	idx       int
	args, env []string
}

var heldObs *keptGuest

func observeMC(res *sim.Result, rt any, n *node, idx int, after string, stdouts []*bytes.Buffer, sockNode *node, namedBinary bool) bool {
	rec := n.mc
	mc := n.val.(wazero.ModuleConfig)
	g, err := newGuestKeepName(mc, rt, sockNode, namedBinary)
	if err != nil {
		res.Fail("config-observation", "after %s: instantiating with node %d (%s) failed: %v", after, idx, n.how, err)
		return false
	}
	ctx := context.Background()
	// the guest observed BEFORE this one is still running: what it was given at its instantiation is its
	// own; instantiating with another node of the tree (this one) must not reach it
	prev := heldObs
	heldObs = nil
	hold := false
	defer func() {
		if prev != nil {
			prev.g.Mod.Close(ctx)
		}
		if !hold {
			g.Mod.Close(ctx)
		}
	}()
	fail := func(f string, a ...any) bool {
		res.Fail("config-observation", "after %s: guest instantiated with node %d (created by %s): %s", after, idx, n.how, fmt.Sprintf(f, a...))
		return false
	}
	if prev != nil {
		res.Stat("probe.earlier_guest_read_again_after_a_later_instantiation", 1)
		pa, ok1 := readList(prev.g, "args")
		pe, ok2 := readList(prev.g, "environ")
		if !ok1 || !ok2 || strings.Join(pa, "\x00") != strings.Join(prev.args, "\x00") || strings.Join(pe, "\x00") != strings.Join(prev.env, "\x00") {
			res.Fail("config-observation", "after %s: the guest instantiated EARLIER with node %d is still running and now reads args %q environ %q; at its instantiation it read args %q environ %q -- instantiating with node %d (created by %s) reached it", after, prev.idx, pa, pe, prev.args, prev.env, idx, n.how)
			return false
		}
	}
	// module name
	wantName := ""
	if namedBinary {
		wantName = "named-shim" // the binary's own name applies when the configuration sets none
	}
	if rec.nameSet {
		wantName = rec.name
	}
	if !rec.nameSet {
		// default: the module's own name (none in the shim) -> ""
	}
	if g.Mod.Name() != wantName {
		return fail("module name %q, model has %q", g.Mod.Name(), wantName)
	}
	// args
	args, ok := readList(g, "args")
	if !ok {
		return fail("args_get failed")
	}
	if strings.Join(args, "\x00") != strings.Join(rec.args, "\x00") {
		return fail("args %q, model has %q", args, rec.args)
	}
	env, ok := readList(g, "environ")
	if !ok {
		return fail("environ_get failed")
	}
	var wantEnv []string
	for _, kv := range rec.env {
		wantEnv = append(wantEnv, kv[0]+"="+kv[1])
	}
	if strings.Join(env, "\x00") != strings.Join(wantEnv, "\x00") {
		return fail("environ %q, model has %q", env, wantEnv)
	}
	if g.Mod.Name() == "" {
		// (a named instance would block the next instantiation under that name)
		hold = true
		defer func() { heldObs = &keptGuest{g: g, idx: idx, args: args, env: env} }()
	}
	// preopens
	var pre []string
	for fd := uint64(3); rec.fs == nil || !rec.fs.hasNil; fd++ {
		e, err := g.Call(ctx, "fd_prestat_get", fd, 0x100)
		if err != nil || e != 0 {
			break
		}
		l := g.U32(0x104)
		e, err = g.Call(ctx, "fd_prestat_dir_name", fd, 0x200, uint64(l))
		if err != nil || e != 0 {
			return fail("fd_prestat_dir_name(%d) failed", fd)
		}
		pre = append(pre, string(g.Read(0x200, l)))
	}
	var wantPre []string
	if rec.fs != nil {
		for _, m := range rec.fs.mounts {
			gp := m[0]
			if cleanGuest(gp) == "" {
				gp = "/"
			}
			wantPre = append(wantPre, gp)
		}
	}
	if sockNode != nil {
		for k := 0; k < sockNode.nsock; k++ {
			wantPre = append(wantPre, "") // the TCP listeners of THIS instantiation's context
		}
	}
	if (rec.fs == nil || !rec.fs.hasNil) && strings.Join(pre, "\x00") != strings.Join(wantPre, "\x00") {
		return fail("preopen names %q, model has %q", pre, wantPre)
	}
	// each mount shows its own marker file
	if rec.fs != nil && !rec.fs.hasNil {
		for i, m := range rec.fs.mounts {
			if m[1] == "" {
				continue // host directory mount: no marker
			}
			g.Write(0x200, []byte(m[1]))
			e, err := g.Call(ctx, "path_filestat_get", uint64(3+i), 0, 0x200, uint64(len(m[1])), 0x500)
			if err != nil || e != 0 {
				return fail("mount %d (%q) does not contain its marker %s (errno %d): another file system is mounted there", i, m[0], m[1], e)
			}
		}
	}
	// start functions
	for j := 1; j <= 3; j++ {
		b := g.Read(uint32(w.StartMarker+j-1), 1)[0]
		want := byte(0)
		for _, s := range rec.starts {
			if s == fmt.Sprintf("s%d", j) && !(namedBinary && j == 1) { // (the named binary does not export s1)
				want = 1
			}
		}
		if b != want {
			return fail("start function s%d ran=%d, model expects %d (start functions %v)", j, b, want, rec.starts)
		}
	}
	// stdout wiring
	for _, b := range stdouts {
		b.Reset()
	}
	msg := []byte(fmt.Sprintf("hello-%d", idx))
	g.Write(0x1000, msg)
	g.PutU32(0x400, 0x1000)
	g.PutU32(0x404, uint32(len(msg)))
	if e, err := g.Call(ctx, "fd_write", 1, 0x400, 1, 0x100); err != nil || e != 0 {
		return fail("fd_write(1) failed: %v errno %d", err, e)
	}
	for bi, b := range stdouts {
		if bi == rec.stdout {
			if !bytes.Equal(b.Bytes(), msg) {
				return fail("stdout buffer %d received %q, expected %q", bi, b.Bytes(), msg)
			}
		} else if b.Len() != 0 {
			return fail("stdout buffer %d received %q although the node writes to buffer %d", bi, b.Bytes(), rec.stdout)
		}
	}
	// stderr wiring
	for _, b := range stdouts {
		b.Reset()
	}
	if e, err := g.Call(ctx, "fd_write", 2, 0x400, 1, 0x100); err != nil || e != 0 {
		return fail("fd_write(2) failed: %v errno %d", err, e)
	}
	for bi, b := range stdouts {
		if bi == rec.stderr {
			if !bytes.Equal(b.Bytes(), msg) {
				return fail("stderr buffer %d received %q, expected %q", bi, b.Bytes(), msg)
			}
		} else if b.Len() != 0 {
			return fail("buffer %d received %q although the node's stderr is buffer %d", bi, b.Bytes(), rec.stderr)
		}
	}
	// stdin
	g.PutU32(0x400, 0x1000)
	g.PutU32(0x404, 16)
	if e, err := g.Call(ctx, "fd_read", 0, 0x400, 1, 0x100); err != nil || e != 0 {
		return fail("fd_read(0) failed: %v errno %d", err, e)
	}
	gotIn := string(g.Read(0x1000, g.U32(0x100)))
	wantIn := ""
	if rec.stdin >= 0 {
		wantIn = fmt.Sprintf("stdin-%d", rec.stdin)
	}
	if gotIn != wantIn {
		return fail("stdin delivered %q, model has %q", gotIn, wantIn)
	}
	// wall clock
	if e, err := g.Call(ctx, "clock_time_get", 0, 0, 0x100); err != nil || e != 0 {
		return fail("clock_time_get failed")
	}
	ts := g.U64(0x100)
	switch {
	case rec.sysWall:
		if ts < 1_700_000_000_000_000_000 {
			return fail("wall clock %d, model has the system clock", ts)
		}
	case rec.wall >= 0:
		if ts != uint64(rec.wall)*1_000_000_000 {
			return fail("wall clock %d, model has %d s", ts, rec.wall)
		}
	default:
		if ts != 1640995200000000000 {
			return fail("wall clock %d, expected the default fake clock", ts)
		}
	}
	// monotonic clock
	if rec.nano >= 0 {
		if e, err := g.Call(ctx, "clock_time_get", 1, 0, 0x100); err != nil || e != 0 || g.U64(0x100) != uint64(rec.nano) {
			return fail("monotonic clock %d (errno %d), model has %d", g.U64(0x100), e, rec.nano)
		}
	}
	// nanosleep / osyield functions: exactly the node's own function is invoked
	for k := range fnCalls {
		delete(fnCalls, k)
	}
	sub := make([]byte, 48)
	sub[16] = 1
	sub[24] = 0x40
	sub[25] = 0x42
	sub[26] = 0x0f // 1 ms
	g.Write(0x4000, sub)
	if e, err := g.Call(ctx, "poll_oneoff", 0x4000, 0x5000, 1, 0x100); err != nil || e != 0 {
		return fail("poll_oneoff failed: %v errno %d", err, e)
	}
	g.Call(ctx, "sched_yield")
	for k, n := range fnCalls {
		if n > 0 && k != rec.sleepFn && k != 1000+rec.yieldFn {
			return fail("function %d (of another configuration) was invoked; the node has nanosleep fn%d / osyield fn%d", k, rec.sleepFn, rec.yieldFn)
		}
	}
	if rec.sleepFn >= 0 && fnCalls[rec.sleepFn] == 0 {
		return fail("the node's nanosleep function fn%d was not invoked by poll_oneoff", rec.sleepFn)
	}
	if rec.yieldFn >= 0 && fnCalls[1000+rec.yieldFn] == 0 {
		return fail("the node's osyield function fn%d was not invoked by sched_yield", rec.yieldFn)
	}
	// random
	if rec.rand >= 0 {
		if e, err := g.Call(ctx, "random_get", 0x100, 4); err != nil || e != 0 {
			return fail("random_get failed")
		}
		for _, b := range g.Read(0x100, 4) {
			if int(b) != rec.rand {
				return fail("random bytes %#x, model has %#x", b, rec.rand)
			}
		}
	} else {
		// the default source: a fixed sequence that starts anew in every instance
		if e, err := g.Call(ctx, "random_get", 0x100, 5); err != nil || e != 0 {
			return fail("random_get failed")
		}
		got := fmt.Sprintf("%x", g.Read(0x100, 5))
		if defaultRand == "" {
			defaultRand = got // the first default-source instance of the process calibrates
		} else if got != defaultRand {
			return fail("the default random source gave %s, every other default-configured instance got %s: state carried between instantiations", got, defaultRand)
		}
	}
	return true
}

// defaultRand: the first five bytes of the default random source, as read by the first instance that had it.
var defaultRand string

// duringInstantiate, when set, runs on the embedder's side in the middle of InstantiateModule (from the
// memory allocator the context carries): what another user of the same configuration values would see
// at that moment.
var duringInstantiate func()

type hookMem struct{ buf []byte }

func (m *hookMem) Reallocate(size uint64) []byte {
	if uint64(cap(m.buf)) < size {
		nb := make([]byte, size)
		copy(nb, m.buf)
		m.buf = nb
	}
	m.buf = m.buf[:size]
	return m.buf
}
func (m *hookMem) Free() {}

// newGuestKeepName instantiates the shim keeping the node's own name.
func newGuestKeepName(mc wazero.ModuleConfig, rt any, sockNode *node, namedBinary bool) (*w.Guest, error) {
	e := rt.(interface {
		InstantiateRaw(ctx context.Context, mc wazero.ModuleConfig) (api.Module, error)
		InstantiateRawNamed(ctx context.Context, mc wazero.ModuleConfig) (api.Module, error)
	})
	ctx := context.Background()
	if sockNode != nil {
		ctx = sock.WithConfig(ctx, sockNode.val.(sock.Config))
	}
	if duringInstantiate != nil {
		ctx = experimental.WithMemoryAllocator(ctx, experimental.MemoryAllocatorFunc(func(cap, max uint64) experimental.LinearMemory {
			duringInstantiate()
			return &hookMem{}
		}))
	}
	var mod api.Module
	var err error
	if namedBinary {
		mod, err = e.InstantiateRawNamed(ctx, mc)
	} else {
		mod, err = e.InstantiateRaw(ctx, mc)
	}
	if err != nil {
		return nil, err
	}
	return w.New(mod), nil
}

func readList(g *w.Guest, which string) ([]string, bool) {
	ctx := context.Background()
	e, err := g.Call(ctx, which+"_sizes_get", 0x100, 0x104)
	if err != nil || e != 0 {
		return nil, false
	}
	n, sz := g.U32(0x100), g.U32(0x104)
	if n == 0 {
		return nil, true
	}
	e, err = g.Call(ctx, which+"_get", 0x1000, 0x2000)
	if err != nil || e != 0 {
		return nil, false
	}
	buf := g.Read(0x2000, sz)
	var out []string
	for _, s := range bytes.Split(bytes.TrimSuffix(buf, []byte{0}), []byte{0}) {
		out = append(out, string(s))
	}
	return out, true
}

// observeRC checks memory limit and feature set of a RuntimeConfig node.
func observeRC(res *sim.Result, n *node, idx int) bool {
	ctx := context.Background()
	rt := wazero.NewRuntimeWithConfig(ctx, n.val.(wazero.RuntimeConfig))
	defer rt.Close(ctx)
	// a module with a 5-page minimum memory
	m := &wasmb.Module{Mem: &wasmb.Limits{Min: 5}}
	_, err := rt.CompileModule(ctx, m.Encode())
	wantOK := n.rc.limit >= 5
	if (err == nil) != wantOK {
		res.Fail("config-observation", "runtime built from node %d (%s): compiling a 5-page module err=%v, model has memory limit %d pages", idx, n.how, err, n.rc.limit)
		return false
	}
	// bulk memory needs V2
	m2 := &wasmb.Module{Mem: &wasmb.Limits{Min: 1}}
	c := &wasmb.Code{}
	c.I32Const(0).I32Const(0).I32Const(0).MemoryFill()
	m2.AddFunc(nil, nil, nil, c.B, "f")
	_, err = rt.CompileModule(ctx, m2.Encode())
	wantOK = n.rc.features&api.CoreFeatureBulkMemoryOperations != 0
	if (err == nil) != wantOK {
		res.Fail("config-observation", "runtime built from node %d (%s): compiling a bulk-memory module err=%v, model has features %d", idx, n.how, err, n.rc.features)
		return false
	}
	return true
}

var _ = io.EOF
