//go:build instrumented

package config

import (
	"bytes"
	"context"
	"fmt"
	"os"
	"path/filepath"
	"strings"

	"github.com/tetratelabs/wazero"

	"github.com/tetratelabs/wazero/verifshim/simrt"

	"verifharness/sim"
	"verifharness/sims/wasifs"
	"verifharness/tape"
	w "verifharness/wasiguest"
)

// Class concurrent-derivations: 2-3 tasks derive from the SAME configuration values at the same time.
// config.go and fsconfig.go carry statement-level yields in the instrumented copy (switched on only for
// this class), so the baton scheduler interleaves the With... calls statement by statement; every other
// class of C19 interleaves them at call granularity only.  Afterwards every value - the shared receivers
// and everything derived from them - is compared with the model: structurally (the shared receivers keep
// the fingerprint taken before the tasks ran) and by what a guest instantiated with it observes (args,
// environ, pre-open names).

type cnode struct {
	mc   wazero.ModuleConfig
	fc   wazero.FSConfig // non-nil: an FSConfig value (mc is nil)
	args []string
	env  []string // "k=v"
	pre  []string // guest paths of the mounts
	how  string
}

type cop struct {
	from  int // index into the shared receivers, or -1: the task's previous result
	kind  int
	k, v  string
	extra []string
}

const (
	opEnvNew = iota
	opEnvOverride
	opArgs
	opStdout
	opMount     // FSConfig receiver: WithDirMount
	opUseFS     // ModuleConfig receiver: WithFSConfig(<task's last FSConfig or the shared one>)
	opStartFunc // WithStartFunctions
)

func setEnv(env []string, k, v string) []string {
	out := append([]string(nil), env...)
	for i, kv := range out {
		if strings.HasPrefix(kv, k+"=") {
			out[i] = k + "=" + v
			return out
		}
	}
	return append(out, k+"="+v)
}

func runConcurrentDerivations(t *tape.Tape, cfg sim.Config) (res sim.Result) {
	e := wasifs.RuntimeFor("interpreter")
	root, err := os.MkdirTemp(os.Getenv("VERIF_SCRATCH"), "c19c-")
	if err != nil {
		panic(err)
	}
	defer os.RemoveAll(root)
	// ---- the shared receivers (built sequentially)
	base := &cnode{mc: wazero.NewModuleConfig(), how: "NewModuleConfig()"}
	for i, n := 0, t.Choose(4); i < n; i++ {
		k, v := fmt.Sprintf("B%d", i), fmt.Sprintf("b%d", i)
		base = &cnode{mc: base.mc.WithEnv(k, v), args: base.args, env: setEnv(base.env, k, v), how: base.how + fmt.Sprintf(".WithEnv(%s)", k)}
	}
	if t.Chance(1, 2) {
		base = &cnode{mc: base.mc.WithArgs("prog", "x"), args: []string{"prog", "x"}, env: base.env, how: base.how + ".WithArgs"}
	}
	shared := []*cnode{base}
	if t.Chance(1, 2) {
		// a sibling value derived without touching the environment
		shared = append(shared, &cnode{mc: base.mc.WithStdout(&bytes.Buffer{}), args: base.args, env: base.env, how: base.how + ".WithStdout"})
	}
	if t.Chance(1, 2) {
		shared = append(shared, &cnode{mc: base.mc.WithEnv("S", "s"), args: base.args, env: setEnv(base.env, "S", "s"), how: base.how + ".WithEnv(S)"})
	}
	nMC := len(shared)
	fcBase := &cnode{fc: wazero.NewFSConfig(), how: "NewFSConfig()"}
	for i, n := 0, t.Choose(3); i < n; i++ {
		d := filepath.Join(root, fmt.Sprintf("base%d", i))
		os.MkdirAll(d, 0o755)
		gp := fmt.Sprintf("/base%d", i)
		fcBase = &cnode{fc: fcBase.fc.WithDirMount(d, gp), pre: append(append([]string(nil), fcBase.pre...), gp), how: fcBase.how + fmt.Sprintf(".WithDirMount(%s)", gp)}
	}
	shared = append(shared, fcBase)
	fcIdx := len(shared) - 1
	fps := make([]string, len(shared))
	for i, n := range shared {
		if n.fc != nil {
			fps[i] = fingerprint(n.fc)
		} else {
			fps[i] = fingerprint(n.mc)
		}
	}
	// ---- scripts
	ntasks := 2 + t.Choose(2)
	scripts := make([][]cop, ntasks)
	for g := range scripts {
		for i, n := 0, 1+t.Choose(3); i < n; i++ {
			op := cop{from: t.Choose(nMC), kind: []int{opEnvNew, opEnvNew, opEnvNew, opEnvOverride, opArgs, opStdout, opMount, opUseFS, opStartFunc}[t.Choose(9)]}
			if i > 0 && t.Chance(1, 3) {
				op.from = -1
			}
			switch op.kind {
			case opEnvNew:
				op.k, op.v = fmt.Sprintf("T%d_%d", g, i), fmt.Sprintf("t%d.%d", g, i)
			case opEnvOverride:
				op.k, op.v = tape.Pick(t, []string{"B0", "B1", "S"}), fmt.Sprintf("o%d.%d", g, i)
			case opArgs:
				op.extra = []string{fmt.Sprintf("a%d", g), fmt.Sprintf("arg%d", i)}
			case opMount:
				op.k = fmt.Sprintf("/t%d_%d", g, i)
				op.v = filepath.Join(root, fmt.Sprintf("t%d_%d", g, i))
				os.MkdirAll(op.v, 0o755)
			case opStartFunc:
				op.extra = []string{fmt.Sprintf("s%d", g)}
			}
			scripts[g] = append(scripts[g], op)
		}
	}
	// ---- run
	results := make([][]*cnode, ntasks)
	panics := make([]string, ntasks)
	var fns []func()
	for g := range scripts {
		g := g
		fns = append(fns, func() {
			defer func() {
				if r := recover(); r != nil {
					panics[g] = fmt.Sprint(r)
				}
			}()
			var prev *cnode   // the task's previous ModuleConfig result
			lastFC := fcBase // the task's latest FSConfig
			for _, op := range scripts[g] {
				recv := prev
				if op.from >= 0 || prev == nil {
					f := op.from
					if f < 0 {
						f = 0
					}
					recv = shared[f]
				}
				var n *cnode
				switch op.kind {
				case opEnvNew, opEnvOverride:
					n = &cnode{mc: recv.mc.WithEnv(op.k, op.v), args: recv.args, env: setEnv(recv.env, op.k, op.v), pre: recv.pre, how: recv.how + fmt.Sprintf(".WithEnv(%s,%s)", op.k, op.v)}
				case opArgs:
					n = &cnode{mc: recv.mc.WithArgs(op.extra...), args: op.extra, env: recv.env, pre: recv.pre, how: recv.how + fmt.Sprintf(".WithArgs(%v)", op.extra)}
				case opStdout:
					n = &cnode{mc: recv.mc.WithStdout(&bytes.Buffer{}), args: recv.args, env: recv.env, pre: recv.pre, how: recv.how + ".WithStdout"}
				case opStartFunc:
					n = &cnode{mc: recv.mc.WithStartFunctions(op.extra...), args: recv.args, env: recv.env, pre: recv.pre, how: recv.how + ".WithStartFunctions"}
				case opMount:
					lastFC = &cnode{fc: lastFC.fc.WithDirMount(op.v, op.k), pre: append(append([]string(nil), lastFC.pre...), op.k), how: lastFC.how + fmt.Sprintf(".WithDirMount(%s)", op.k)}
					results[g] = append(results[g], lastFC)
					continue
				case opUseFS:
					n = &cnode{mc: recv.mc.WithFSConfig(lastFC.fc), args: recv.args, env: recv.env, pre: lastFC.pre, how: recv.how + ".WithFSConfig(" + lastFC.how + ")"}
				}
				prev = n
				results[g] = append(results[g], n)
			}
		})
	}
	policy := t.Choose(2)
	prob := []int{2, 4, 10}[t.Choose(3)]
	changePts := map[int]bool{}
	for d := 1 + t.Choose(4); d > 0; d-- {
		changePts[t.Choose(120)] = true
	}
	yieldNo := 0
	choose := func(en []*simrt.Task, cur *simrt.Task, site string) int {
		yieldNo++
		if cur == nil || len(en) == 1 {
			return t.Choose(len(en))
		}
		if policy == 0 {
			if t.Chance(1, prob) {
				return 1 + t.Choose(len(en)-1)
			}
			return 0
		}
		if changePts[yieldNo] {
			return 1 + t.Choose(len(en)-1)
		}
		return 0
	}
	simrt.OptYields.Store(true)
	s := simrt.Run(choose, 20000, true, fns...)
	simrt.OptYields.Store(false)
	res.Steps = int64(s.Yields)
	res.Stat("probe.task_switches_inside_with_calls", int64(s.Switches))
	res.Nontrivial = s.Switches > 0
	res.Shape = sim.ShapeOf(s.Trace...)
	res.Sample = map[string]any{"tasks": ntasks, "yields": s.Yields, "switches": s.Switches}
	switch {
	case s.Deadlock:
		res.Fail("deadlock", "%s", s.DeadlockInfo)
		return
	case s.DeadlockInfo != "":
		res.Fail("client-panic", "%s", s.DeadlockInfo)
		return
	}
	for g, p := range panics {
		if p != "" {
			res.Fail("client-panic", "task %d panicked while deriving: %s", g, p)
			return
		}
	}
	// ---- judge
	for i, n := range shared {
		var now string
		if n.fc != nil {
			now = fingerprint(n.fc)
		} else {
			now = fingerprint(n.mc)
		}
		if now != fps[i] {
			res.Fail("receiver-changed", "shared receiver %d (%s) changed while %d tasks derived from the shared values concurrently\n before: %s\n after:  %s", i, n.how, ntasks, clip(fps[i]), clip(now))
			return
		}
	}
	_ = fcIdx
	all := append([]*cnode(nil), shared...)
	for _, r := range results {
		all = append(all, r...)
	}
	for i, n := range all {
		mc := n.mc
		if n.fc != nil {
			mc = wazero.NewModuleConfig().WithFSConfig(n.fc)
		}
		if msg := observeC(e, mc, n); msg != "" {
			res.Fail("config-observation", "value %d of %d (%s), after %d tasks derived from the shared values concurrently (%d task switches inside With... calls): %s", i, len(all), n.how, ntasks, s.Switches, msg)
			return
		}
	}
	return
}

func observeC(e interface {
	NewGuest(mc wazero.ModuleConfig) (*w.Guest, error)
}, mc wazero.ModuleConfig, n *cnode) string {
	g, err := e.NewGuest(mc.WithStartFunctions())
	if err != nil {
		return fmt.Sprintf("cannot be instantiated: %v", err)
	}
	ctx := context.Background()
	defer g.Mod.Close(ctx)
	args, ok := readList(g, "args")
	if !ok {
		return "args_get failed"
	}
	env, ok := readList(g, "environ")
	if !ok {
		return "environ_get failed"
	}
	wantArgs, wantEnv := n.args, n.env
	if n.fc != nil {
		wantArgs, wantEnv = nil, nil
	}
	if strings.Join(args, "\x00") != strings.Join(wantArgs, "\x00") {
		return fmt.Sprintf("a guest reads args %q, the model has %q", args, wantArgs)
	}
	if strings.Join(env, "\x00") != strings.Join(wantEnv, "\x00") {
		return fmt.Sprintf("a guest reads environ %q, the model has %q", env, wantEnv)
	}
	var pre []string
	for fd := uint64(3); ; fd++ {
		en, err := g.Call(ctx, "fd_prestat_get", fd, 0x100)
		if err != nil || en != 0 {
			break
		}
		l := g.U32(0x104)
		en, err = g.Call(ctx, "fd_prestat_dir_name", fd, 0x200, uint64(l))
		if err != nil || en != 0 {
			return fmt.Sprintf("fd_prestat_dir_name(%d) failed", fd)
		}
		pre = append(pre, string(g.Read(0x200, l)))
	}
	if strings.Join(pre, "\x00") != strings.Join(n.pre, "\x00") {
		return fmt.Sprintf("a guest sees the pre-opens %q, the model has %q", pre, n.pre)
	}
	return ""
}
