//go:build !instrumented

package config

import (
	"verifharness/sim"
	"verifharness/tape"
)

// the class runs only in the worker built from the instrumented copy
func runConcurrentDerivations(*tape.Tape, sim.Config) (res sim.Result) {
	panic("harness: class concurrent-derivations needs the instrumented worker")
}
