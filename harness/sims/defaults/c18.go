// Package defaults is the reproducibility simulator for C18: a module
// instantiated with default module configuration sees nothing of the host and
// produces the same WASI trace in every instance, process, environment and
// engine.
package defaults

import (
	"bytes"
	"context"
	"crypto/sha256"
	"encoding/hex"
	"encoding/json"
	"fmt"
	"os"
	"os/exec"
	"strings"
	"time"

	"github.com/tetratelabs/wazero"
	"github.com/tetratelabs/wazero/api"
	"github.com/tetratelabs/wazero/imports/wasi_snapshot_preview1"
	"github.com/tetratelabs/wazero/experimental/sock"

	"verifharness/sim"
	"verifharness/sims/wasifs"
	"verifharness/tape"
	w "verifharness/wasiguest"
	"verifharness/wasmb"
)

type c18 struct{}

func init() {
	sim.Register(c18{})
	sim.RegisterChildMode("c18", childMain)
}

func (c18) Property() string { return "C18" }

func (c18) Classes() []sim.Class {
	return []sim.Class{
		{Name: "instances-engines", Engine: "both", Quick: 1500, Thorough: 60000, DeathIsViolation: true, RunTimeoutSec: 60},
		{Name: "processes", Engine: "both", Quick: 150, Thorough: 5000, DeathIsViolation: true, RunTimeoutSec: 90, Batch: 10},
	}
}

func (c18) Describe() sim.Description {
	return sim.Description{
		Level: "exploration",
		Rule: "tape-generated scripts of 20-200 WASI calls over all exported functions (clocks with every id, random_get, args/environ, fd_* on descriptors 0-5, path_* on 3, poll_oneoff with clock subscriptions up to one hour and fd subscriptions, sched_yield, sock_*) against a guest instantiated with NewModuleConfig() only; " +
			"the trace is the byte-exact list of (errno or error line, designated output buffers). Class instances-engines: two instances per engine on both engines must give identical traces. Class processes: additionally child OS processes started with different environment, arguments, working directory, TZ, data waiting on the real stdin and GOMAXPROCS must give the same trace, " +
			"and a marker written to descriptors 1 and 2 must not appear in the child's real stdout/stderr. Direct closure checks: args/environ sizes zero, no preopen at 3, stdin at EOF, a one-hour poll returns without real sleep (watchdog). Non-trivial: the script contains a clock, a random and a poll call; distinct = distinct scripts (hash of call names)",
		RealCode: []string{"config.go defaults", "internal/sys context and stdio defaults", "internal/platform fake clocks and random", "imports/wasi_snapshot_preview1 (all functions)", "both engines"},
		Stubs:    []string{"none"},
		Assumptions: []string{
			"error results are compared by their first line (Go stack traces contain addresses)",
			"real sleep is detected by the supervisor watchdog (60 s) rather than a timing assertion",
		},
		FaultKinds: []string{"hostile host environment: env vars, args, cwd, TZ, stdin data, GOMAXPROCS, start time"},
	}
}

type call struct {
	Name string      `json:"n"`
	Args []uint64    `json:"a"`
	Out  [][2]uint32 `json:"o"`           // output regions to record
	Pre  []pre       `json:"p,omitempty"` // memory to set up before the call
}

type pre struct {
	Off  uint32 `json:"o"`
	Data []byte `json:"d"`
}

const marker = "C18-MARKER-f3a9"

func genScript(t *tape.Tape) []call {
	n := t.Range(20, 200)
	var s []call
	u32 := func(v uint32) []byte { return []byte{byte(v), byte(v >> 8), byte(v >> 16), byte(v >> 24)} }
	u64 := func(v uint64) []byte {
		b := make([]byte, 8)
		for i := range b {
			b[i] = byte(v >> (8 * i))
		}
		return b
	}
	fd := func() uint64 { return uint64(t.Choose(6)) }
	for i := 0; i < n; i++ {
		switch t.Choose(30) {
		case 0:
			s = append(s, call{Name: "args_sizes_get", Args: []uint64{0x100, 0x104}, Out: [][2]uint32{{0x100, 8}}})
		case 1:
			s = append(s, call{Name: "args_get", Args: []uint64{0x1000, 0x2000}, Out: [][2]uint32{{0x1000, 16}, {0x2000, 32}}})
		case 2:
			s = append(s, call{Name: "environ_sizes_get", Args: []uint64{0x100, 0x104}, Out: [][2]uint32{{0x100, 8}}})
		case 3:
			s = append(s, call{Name: "environ_get", Args: []uint64{0x1000, 0x2000}, Out: [][2]uint32{{0x1000, 16}, {0x2000, 32}}})
		case 4:
			s = append(s, call{Name: "clock_res_get", Args: []uint64{uint64(t.Choose(5)), 0x100}, Out: [][2]uint32{{0x100, 8}}})
		case 5, 6, 7:
			// (precision: mostly below the clock's resolution, sometimes two milliseconds)
			prec := uint64(t.Choose(1000))
			if t.Chance(1, 4) {
				prec = 2_000_000
			}
			s = append(s, call{Name: "clock_time_get", Args: []uint64{uint64(t.Choose(5)), prec, 0x100}, Out: [][2]uint32{{0x100, 8}}})
		case 8, 9:
			l := uint32(1 + t.Choose(64))
			s = append(s, call{Name: "random_get", Args: []uint64{0x1000, uint64(l)}, Out: [][2]uint32{{0x1000, l}}})
		case 10, 11:
			s = append(s, call{Name: "fd_read", Args: []uint64{fd(), 0x400, 1, 0x100}, Pre: []pre{{0x400, append(u32(0x1000), u32(32)...)}}, Out: [][2]uint32{{0x100, 4}, {0x1000, 32}}})
		case 12, 13:
			m := []byte(marker)
			if t.Chance(1, 2) {
				// a vectored write of 2-3 pieces; the last piece may lie outside the memory (the call fails
				// after the host has looked at the pieces before it)
				niov := 2 + t.Choose(2)
				var iov []byte
				for k := 0; k < niov; k++ {
					ptr, ln := uint32(0x3000+4*k), uint32(3+k)
					if k == niov-1 && t.Chance(1, 3) {
						ptr, ln = 0x7fff0000, 64
					}
					iov = append(append(iov, u32(ptr)...), u32(ln)...)
				}
				s = append(s, call{Name: "fd_write", Args: []uint64{fd(), 0x400, uint64(niov), 0x100}, Pre: []pre{{0x100, u32(0)}, {0x400, iov}, {0x3000, m}}, Out: [][2]uint32{{0x100, 4}}})
				break
			}
			s = append(s, call{Name: "fd_write", Args: []uint64{fd(), 0x400, 1, 0x100}, Pre: []pre{{0x400, append(u32(0x3000), u32(uint32(len(m)))...)}, {0x3000, m}}, Out: [][2]uint32{{0x100, 4}}})
		case 14:
			s = append(s, call{Name: "fd_fdstat_get", Args: []uint64{fd(), 0x500}, Out: [][2]uint32{{0x500, 24}}})
		case 15:
			s = append(s, call{Name: "fd_filestat_get", Args: []uint64{fd(), 0x500}, Out: [][2]uint32{{0x500, 64}}})
		case 16:
			s = append(s, call{Name: "fd_prestat_get", Args: []uint64{fd(), 0x100}, Out: [][2]uint32{{0x100, 8}}})
		case 17:
			s = append(s, call{Name: "fd_prestat_dir_name", Args: []uint64{fd(), 0x1000, 8}, Out: [][2]uint32{{0x1000, 8}}})
		case 18:
			name := tape.Pick(t, []string{"fd_sync", "fd_datasync", "fd_close"})
			if name == "fd_close" && !t.Chance(1, 4) {
				name = "fd_sync"
			}
			s = append(s, call{Name: name, Args: []uint64{fd()}})
		case 19:
			s = append(s, call{Name: "fd_seek", Args: []uint64{fd(), uint64(t.Choose(10)), uint64(t.Choose(3)), 0x100}, Out: [][2]uint32{{0x100, 8}}})
		case 20:
			s = append(s, call{Name: "fd_tell", Args: []uint64{fd(), 0x100}, Out: [][2]uint32{{0x100, 8}}})
		case 21:
			s = append(s, call{Name: "fd_readdir", Args: []uint64{fd(), 0x1000, 256, 0, 0x100}, Out: [][2]uint32{{0x100, 4}, {0x1000, 64}}})
		case 22:
			p := []byte("x")
			name := tape.Pick(t, []string{"path_create_directory", "path_remove_directory", "path_unlink_file"})
			s = append(s, call{Name: name, Args: []uint64{3 + uint64(t.Choose(2)), 0x200, 1}, Pre: []pre{{0x200, p}}})
		case 23:
			s = append(s, call{Name: "path_open", Args: []uint64{3, 0, 0x200, 1, uint64(t.Choose(16)), uint64(t.Choose(128)), 0, uint64(t.Choose(2)), 0x100}, Pre: []pre{{0x200, []byte("x")}}, Out: [][2]uint32{{0x100, 4}}})
		case 24:
			s = append(s, call{Name: "path_filestat_get", Args: []uint64{3, 0, 0x200, 1, 0x500}, Pre: []pre{{0x200, []byte(".")}}, Out: [][2]uint32{{0x500, 64}}})
		case 25, 26:
			// poll_oneoff
			ns := 1 + t.Choose(3)
			var in []byte
			for j := 0; j < ns; j++ {
				sub := make([]byte, 48)
				copy(sub, u64(uint64(100+j)))
				if t.Chance(2, 3) {
					sub[8] = 0 // clock
					copy(sub[16:], u32(uint32(t.Choose(4))))
					copy(sub[24:], u64(uint64(t.Choose(3600))*1_000_000_000))
					copy(sub[40:], []byte{byte(t.Choose(2)), 0})
				} else {
					sub[8] = byte(1 + t.Choose(2)) // fd_read / fd_write
					copy(sub[16:], u32(uint32(t.Choose(6))))
				}
				in = append(in, sub...)
			}
			s = append(s, call{Name: "poll_oneoff", Args: []uint64{0x4000, 0x5000, uint64(ns), 0x100}, Pre: []pre{{0x4000, in}}, Out: [][2]uint32{{0x100, 4}, {0x5000, uint32(32 * ns)}}})
		case 27:
			s = append(s, call{Name: "sched_yield"})
		case 28:
			name := tape.Pick(t, []string{"sock_accept", "sock_shutdown", "fd_renumber", "fd_fdstat_set_flags"})
			switch name {
			case "sock_accept":
				s = append(s, call{Name: name, Args: []uint64{fd(), 0, 0x100}, Out: [][2]uint32{{0x100, 4}}})
			default:
				s = append(s, call{Name: name, Args: []uint64{fd(), uint64(t.Choose(6))}})
			}
		case 29:
			name := tape.Pick(t, []string{"fd_advise", "fd_allocate", "fd_filestat_set_size", "proc_raise"})
			switch name {
			case "fd_advise":
				s = append(s, call{Name: name, Args: []uint64{fd(), 0, 10, uint64(t.Choose(6))}})
			case "fd_allocate":
				s = append(s, call{Name: name, Args: []uint64{fd(), 0, 10}})
			case "fd_filestat_set_size":
				s = append(s, call{Name: name, Args: []uint64{fd(), 10}})
			default:
				s = append(s, call{Name: name, Args: []uint64{0}})
			}
		}
	}
	return s
}

// sharedDefault is ONE default configuration value reused, as it is, for many
// instantiations of this process (the way an embedder keeps a base config
// around): what an earlier instantiation did with it must not show later.
var sharedDefault = wazero.NewModuleConfig()

// newDefaultGuest: a fresh NewModuleConfig(), or the shared value; sockFirst
// first instantiates (and closes) a guest with the shared value under a
// context that carries a sock configuration.
func newDefaultGuest(engine string, shared, sockFirst bool) (*w.Guest, error) {
	rt := wasifs.RuntimeFor(engine)
	if !shared {
		return rt.NewGuest(wazero.NewModuleConfig())
	}
	ctx := context.Background()
	if sockFirst {
		sctx := sock.WithConfig(ctx, sock.NewConfig().WithTCPListener("127.0.0.1", 0))
		if m, err := rt.InstantiateRaw(sctx, sharedDefault); err == nil {
			m.Close(ctx)
		}
	}
	m, err := rt.InstantiateRaw(ctx, sharedDefault)
	if err != nil {
		return nil, err
	}
	return w.New(m), nil
}

// runScript executes the script on a default-configured guest.
func runScript(engine string, script []call, shared, sockFirst bool) (trace []string, err error) {
	g, err := newDefaultGuest(engine, shared, sockFirst)
	if err != nil {
		return nil, err
	}
	ctx := context.Background()
	defer g.Mod.Close(ctx)
	pauses := 0
	for i, c := range script {
		if c.Name == deepCall {
			// judged per engine (where a recursion ends differs between the engines by design): not a trace line
			lastDeep = deepRecursion(engine, c.Args[0])
			continue
		}
		if sockFirst && c.Name == "clock_time_get" && pauses < 3 {
			// the third instance runs on a slower host: real time passes between its clock readings (three
			// pauses of 3 ms at most); what the guest reads must not show it
			time.Sleep(3 * time.Millisecond)
			pauses++
		}
		for _, p := range c.Pre {
			g.Write(p.Off, p.Data)
		}
		for _, o := range c.Out {
			g.Fill(o[0], o[1], 0xEE)
		}
		errno, cerr := g.Call(ctx, c.Name, c.Args...)
		line := fmt.Sprintf("%d %s%v -> ", i, c.Name, c.Args)
		if cerr != nil {
			line += "error: " + strings.SplitN(cerr.Error(), "\n", 2)[0]
		} else {
			line += w.ErrnoName(errno)
		}
		for _, o := range c.Out {
			line += " " + hex.EncodeToString(g.Read(o[0], o[1]))
		}
		trace = append(trace, line)
	}
	// the module is closed and the guest goes on for three more calls (an embedder that keeps a function
	// of a closed module): whatever those calls answer -- an error, usually -- is the same for every
	// instance: nothing is handed from one closed module to the next
	g.Mod.Close(ctx)
	for i, c := range []call{
		{Name: "clock_time_get", Args: []uint64{0, 0, 0x100}, Out: [][2]uint32{{0x100, 8}}},
		{Name: "random_get", Args: []uint64{0x1000, 8}, Out: [][2]uint32{{0x1000, 8}}},
		{Name: "clock_time_get", Args: []uint64{1, 0, 0x100}, Out: [][2]uint32{{0x100, 8}}},
	} {
		for _, o := range c.Out {
			g.Fill(o[0], o[1], 0xEE)
		}
		errno, cerr := g.Call(ctx, c.Name, c.Args...)
		line := fmt.Sprintf("after-close %d %s -> ", i, c.Name)
		if cerr != nil {
			line += "error: " + strings.TrimSuffix(strings.SplitN(cerr.Error(), "\n", 2)[0], " (recovered by wazero)")
		} else {
			line += w.ErrnoName(errno)
		}
		// (what the call left in the guest's memory counts too: the function ran before the error was reported)
		for _, o := range c.Out {
			line += " " + hex.EncodeToString(g.Read(o[0], o[1]))
		}
		trace = append(trace, line)
	}
	return trace, nil
}

// deepCall is a pseudo call of a script: a second, WASI-only guest recurses to the given depth and exits
// through proc_exit at the bottom.  Where the recursion ends (the exit code, or the engine's stack
// overflow) is a property of the engine alone: the same in every process, whatever the host's memory
// limits or environment.
const deepCall = "__deep_recursion"

// lastDeep: the outcome of the deep recursion of the script runScript ran last.
var lastDeep string

var deepBin = func() []byte {
	m := &wasmb.Module{}
	i32 := []wasmb.ValType{wasmb.I32}
	pexit := m.ImportFunc("wasi_snapshot_preview1", "proc_exit", i32, nil)
	// rec(n): n == 0 ? proc_exit(7) : rec(n-1) + 1
	c := (&wasmb.Code{}).LocalGet(0).I32Eqz().If(wasmb.BlockVoid).I32Const(7).Call(pexit).End().
		LocalGet(0).I32Const(1).I32Sub().Call(1).I32Const(1).I32Add()
	m.AddFunc(i32, i32, nil, c.B, "rec")
	return m.Encode()
}()

func deepRecursion(engine string, depth uint64) string {
	ctx := context.Background()
	var rc wazero.RuntimeConfig
	if engine == "interpreter" {
		rc = wazero.NewRuntimeConfigInterpreter()
	} else {
		rc = wazero.NewRuntimeConfigCompiler()
	}
	rt := wazero.NewRuntimeWithConfig(ctx, rc)
	defer rt.Close(ctx)
	wasi_snapshot_preview1.MustInstantiate(ctx, rt)
	mod, err := rt.InstantiateWithConfig(ctx, deepBin, wazero.NewModuleConfig().WithName(""))
	if err != nil {
		panic(fmt.Sprintf("harness: %v", err))
	}
	_, err = mod.ExportedFunction("rec").Call(ctx, depth)
	if err == nil {
		return fmt.Sprintf("deep recursion(%d) -> returned", depth)
	}
	return fmt.Sprintf("deep recursion(%d) -> %s", depth, strings.SplitN(err.Error(), "\n", 2)[0])
}

func hashTrace(tr []string) string {
	h := sha256.New()
	for _, l := range tr {
		h.Write([]byte(l))
		h.Write([]byte{'\n'})
	}
	return hex.EncodeToString(h.Sum(nil))[:20]
}

func firstDiffLine(a, b []string) string {
	for i := 0; i < len(a) || i < len(b); i++ {
		var x, y string
		if i < len(a) {
			x = a[i]
		}
		if i < len(b) {
			y = b[i]
		}
		if x != y {
			return fmt.Sprintf("first difference at call %d:\n  A: %s\n  B: %s", i, x, y)
		}
	}
	return "equal"
}

func (c18) Run(t *tape.Tape, cfg sim.Config) (res sim.Result) {
	script := genScript(t)
	if cfg.Class == "processes" && t.Chance(1, 3) {
		// (a depth whose native stack lies between a few megabytes and the compiler's ceiling)
		script = append(script, call{Name: deepCall, Args: []uint64{uint64(200000 + t.Choose(200000))}})
		res.Stat("probe.deep_recursion_in_the_script", 1)
	}
	var names []string
	hasClock, hasRand, hasPoll := false, false, false
	for _, c := range script {
		names = append(names, c.Name)
		switch c.Name {
		case "clock_time_get":
			hasClock = true
		case "random_get":
			hasRand = true
		case "poll_oneoff":
			hasPoll = true
		}
	}
	res.Shape = sim.ShapeOf(names...)
	res.Nontrivial = hasClock && hasRand && hasPoll
	res.Steps = int64(len(script))
	if t.Chance(1, 3) {
		// elsewhere in the process an embedder OVERRIDES WASI functions for its own runtime (the documented
		// way: export the built-in functions into a host module builder, then export its own clock_time_get
		// and random_get under the same names); that runtime is closed again.  Default-configured guests of
		// other runtimes have nothing to do with it
		overrideWASIElsewhere(cfg.Engine)
		res.Stat("probe.wasi_functions_overridden_in_another_runtime_first", 1)
	}
	// direct closure checks come first, on a fresh guest
	if !closureChecks(&res, false) {
		return
	}
	var ref []string
	for _, eng := range []string{"interpreter", "compiler"} {
		for inst := 0; inst < 3; inst++ {
			// instance 0: fresh default config; 1 and 2: the process-wide shared default value,
			// the last one after an instantiation of that value under a sock context
			tr, err := runScript(eng, script, inst > 0, inst == 2)
			if err != nil {
				panic(err)
			}
			if ref == nil {
				ref = tr
				continue
			}
			if hashTrace(tr) != hashTrace(ref) {
				res.Fail("trace-differs", "trace of instance %d on %s differs from the first instance on the interpreter: %s", inst, eng, firstDiffLine(ref, tr))
				return
			}
		}
	}
	// the shared default value must still be closed after all those uses
	if !closureChecks(&res, true) {
		return
	}
	res.Logf("script of %d calls, trace hash %s", len(script), hashTrace(ref))
	smp := ref
	if len(smp) > 8 {
		smp = smp[:8]
	}
	res.Sample = smp
	// a two-module guest (a WASI import reached through a table from a function another module calls)
	for _, eng := range []string{"interpreter", "compiler"} {
		tr, err := pairTrace(eng)
		if err != nil {
			res.Fail("trace-differs", "two-module default-configured guest on the %s: %v", eng, err)
			return
		}
		if fmt.Sprint(tr) != fmt.Sprint(pairExpected()) {
			res.Fail("trace-differs", "two-module default-configured guest on the %s: ticks %v, expected %v (each instance has its own fake clock and memory)", eng, tr, pairExpected())
			return
		}
	}
	if cfg.Class != "processes" {
		return
	}
	// child processes under hostile environments
	js, _ := json.Marshal(script)
	variants := []struct {
		env   []string
		args  []string
		stdin string
		cwd   string
	}{
		{env: []string{"TZ=Pacific/Kiritimati", "HOME=/nonexistent", "SECRET=hunter2", "GOMAXPROCS=1"}, args: []string{"--secret-arg", "a b"}, stdin: "stdin-data-from-host\n", cwd: "/"},
		{env: []string{"TZ=UTC", "LANG=xx", "GOMAXPROCS=7", "WASI_X=1"}, args: nil, stdin: "", cwd: os.TempDir()},
		// a memory-limited host (container): soft limit, eager collector
		{env: []string{"GOMEMLIMIT=64MiB", "GOGC=25", "GOMAXPROCS=2"}, args: []string{"x"}, stdin: "", cwd: "/"},
	}
	v := variants[t.Choose(len(variants))]
	for _, eng := range []string{"interpreter", "compiler"} {
		if t.Chance(1, 3) {
			time.Sleep(time.Duration(1+t.Choose(5)) * time.Millisecond) // different start time
		}
		cmd := exec.Command(os.Args[0], append([]string{"child", "c18", eng}, v.args...)...)
		cmd.Env = v.env
		cmd.Dir = v.cwd
		cmd.Stdin = strings.NewReader(string(js) + "\n" + v.stdin)
		var out, errb bytes.Buffer
		cmd.Stdout, cmd.Stderr = &out, &errb
		if err := cmd.Run(); err != nil {
			panic(fmt.Sprintf("harness: c18 child failed: %v\n%s", err, errb.String()))
		}
		if strings.Contains(out.String(), marker) || strings.Contains(errb.String(), marker) {
			res.Fail("output-leak", "a marker the guest wrote to descriptor 1/2 under default configuration appeared in the process's real stdout/stderr (engine %s)", eng)
			return
		}
		var childTrace []string
		childDeep := ""
		for _, ln := range strings.Split(out.String(), "\n") {
			if strings.HasPrefix(ln, "T ") {
				childTrace = append(childTrace, ln[2:])
			}
			if strings.HasPrefix(ln, "D ") {
				childDeep = ln[2:]
			}
		}
		if last := script[len(script)-1]; last.Name == deepCall {
			if here := deepRecursion(eng, last.Args[0]); childDeep != here {
				res.Fail("trace-differs", "a WASI-only guest recursing %d deep on the %s: %q in this process, %q in a child process with environment %v", last.Args[0], eng, here, childDeep, v.env)
				return
			}
		}
		if hashTrace(childTrace) != hashTrace(ref) {
			res.Fail("trace-differs", "trace in a child process (engine %s, env %v, args %v, cwd %s, %d bytes waiting on stdin) differs from the in-process trace: %s", eng, v.env, v.args, v.cwd, len(v.stdin), firstDiffLine(ref, childTrace))
			return
		}
		res.Stat("probe.child_process_traces_equal", 1)
	}
	return
}

// closureChecks: what a default-configured guest must see.
func closureChecks(res *sim.Result, shared bool) bool {
	ctx := context.Background()
	for _, eng := range []string{"interpreter", "compiler"} {
		g, err := newDefaultGuest(eng, shared, false)
		if err != nil {
			panic(err)
		}
		fail := func(f string, a ...any) bool {
			g.Mod.Close(ctx)
			res.Fail("default-not-closed", "default configuration (%s): %s", eng, fmt.Sprintf(f, a...))
			return false
		}
		g.Fill(0x100, 8, 0xEE)
		if e, err := g.Call(ctx, "args_sizes_get", 0x100, 0x104); err != nil || e != 0 || g.U32(0x100) != 0 || g.U32(0x104) != 0 {
			return fail("args_sizes_get reports %d args / %d bytes (errno %d)", g.U32(0x100), g.U32(0x104), e)
		}
		g.Fill(0x100, 8, 0xEE)
		if e, err := g.Call(ctx, "environ_sizes_get", 0x100, 0x104); err != nil || e != 0 || g.U32(0x100) != 0 || g.U32(0x104) != 0 {
			return fail("environ_sizes_get reports %d vars / %d bytes (errno %d)", g.U32(0x100), g.U32(0x104), e)
		}
		if e, err := g.Call(ctx, "fd_prestat_get", 3, 0x100); err != nil || e != w.EBADF {
			return fail("fd_prestat_get(3) returned %s: a preopen exists", w.ErrnoName(e))
		}
		g.PutU32(0x400, 0x1000)
		g.PutU32(0x404, 64)
		g.PutU32(0x100, 0xFFFFFFFF)
		if e, err := g.Call(ctx, "fd_read", 0, 0x400, 1, 0x100); err != nil || e != 0 || g.U32(0x100) != 0 {
			return fail("fd_read(0) returned errno %d nread %d: stdin is not empty", e, g.U32(0x100))
		}
		if e, err := g.Call(ctx, "clock_time_get", 0, 0, 0x100); err != nil || e != 0 || g.U64(0x100) != 1640995200000000000 {
			return fail("first realtime clock reading is %d, expected the fixed fake epoch", g.U64(0x100))
		}
		if e, err := g.Call(ctx, "clock_time_get", 1, 0, 0x100); err != nil || e != 0 || g.U64(0x100) != 0 {
			return fail("first monotonic clock reading is %d, expected 0", g.U64(0x100))
		}
		// a one-hour relative clock subscription must come back without a real sleep
		// (limit 5 s of real time: more than 700x the simulated duration's ratio, 10^3 x the healthy latency)
		sub := make([]byte, 48)
		sub[0] = 7
		sub[8] = 0 // clock
		sub[16] = 1
		hour := uint64(3600) * 1_000_000_000
		for i := 0; i < 8; i++ {
			sub[24+i] = byte(hour >> (8 * i))
		}
		g.Write(0x4000, sub)
		t0 := time.Now()
		// (the call's context is cancellable and has a deadline, as an embedder's often has: the default
		// configuration's sleep must stay the fake one)
		pctx, pcancel := context.WithTimeout(ctx, 6*time.Second)
		e, err := g.Call(pctx, "poll_oneoff", 0x4000, 0x5000, 1, 0x100)
		pcancel()
		if err != nil || e != 0 {
			return fail("poll_oneoff with a clock subscription failed: errno %d %v", e, err)
		}
		if d := time.Since(t0); d > 5*time.Second {
			return fail("poll_oneoff with a one-hour timeout took %v of real time: a real sleep was reached", d)
		}
		t0 = time.Now()
		for i := 0; i < 50; i++ {
			g.Call(ctx, "sched_yield")
		}
		g.Mod.Close(ctx)
	}
	return true
}

// childMain: "vworker child c18 <engine> [ignored args...]": reads the script
// (first line of stdin) and prints the trace.
func childMain(args []string) {
	engine := args[0]
	var line []byte
	buf := make([]byte, 1)
	for {
		n, err := os.Stdin.Read(buf)
		if n == 1 {
			if buf[0] == '\n' {
				break
			}
			line = append(line, buf[0])
		}
		if err != nil {
			break
		}
	}
	var script []call
	if err := json.Unmarshal(line, &script); err != nil {
		fmt.Fprintln(os.Stderr, "bad script:", err)
		os.Exit(2)
	}
	tr, err := runScript(engine, script, false, false)
	if err != nil {
		fmt.Fprintln(os.Stderr, err)
		os.Exit(2)
	}
	for _, l := range tr {
		fmt.Println("T " + l)
	}
	if lastDeep != "" {
		fmt.Println("D " + lastDeep)
	}
}

func overrideWASIElsewhere(engine string) {
	ctx := context.Background()
	var rc wazero.RuntimeConfig
	if engine == "interpreter" {
		rc = wazero.NewRuntimeConfigInterpreter()
	} else {
		rc = wazero.NewRuntimeConfigCompiler()
	}
	rt := wazero.NewRuntimeWithConfig(ctx, rc)
	defer rt.Close(ctx)
	b := rt.NewHostModuleBuilder(wasi_snapshot_preview1.ModuleName)
	wasi_snapshot_preview1.NewFunctionExporter().ExportFunctions(b)
	i32, i64 := api.ValueTypeI32, api.ValueTypeI64
	b.NewFunctionBuilder().WithGoModuleFunction(api.GoModuleFunc(func(_ context.Context, mod api.Module, stack []uint64) {
		mod.Memory().WriteUint64Le(uint32(stack[2]), 0x1122334455667788)
		stack[0] = 0
	}), []api.ValueType{i32, i64, i32}, []api.ValueType{i32}).Export("clock_time_get")
	b.NewFunctionBuilder().WithGoModuleFunction(api.GoModuleFunc(func(_ context.Context, mod api.Module, stack []uint64) {
		for i := uint32(0); i < uint32(stack[1]); i++ {
			mod.Memory().WriteByte(uint32(stack[0])+i, 0x5A)
		}
		stack[0] = 0
	}), []api.ValueType{i32, i32}, []api.ValueType{i32}).Export("random_get")
	if _, err := b.Instantiate(ctx); err != nil {
		panic(err)
	}
}
