package defaults

import (
	"context"
	"fmt"

	"github.com/tetratelabs/wazero"
	"github.com/tetratelabs/wazero/imports/wasi_snapshot_preview1"

	"verifharness/wasmb"
)

// A guest made of TWO modules, both default-configured: "lib" reaches its WASI import through its table
// (call_indirect), "main" imports lib.tick.  Each instance has its own fake clock and its own memory:
// the trace (what each tick returns, on whichever path it was reached) is fixed and the same on both
// engines.

func pairLib() []byte {
	m := &wasmb.Module{}
	i32, i64 := wasmb.I32, wasmb.I64
	clock := m.ImportFunc("wasi_snapshot_preview1", "clock_time_get", []wasmb.ValType{i32, i64, i32}, []wasmb.ValType{i32})
	ty := m.AddType([]wasmb.ValType{i32, i64, i32}, []wasmb.ValType{i32})
	m.Mem = &wasmb.Limits{Min: 1}
	m.Tables = []wasmb.Table{{Elem: wasmb.FuncRef, Lim: wasmb.Limits{Min: 1}}}
	m.Elems = []wasmb.Elem{{Mode: 0, Offset: wasmb.ConstI32(0), Funcs: []uint32{clock}}}
	// tick() = errno<<60 | (time stored by clock_time_get(realtime) at THIS module's address 64)
	c := (&wasmb.Code{}).
		I32Const(64).I64Const(-1).I64Store(0).
		I32Const(0).I64Const(0).I32Const(64).I32Const(0).CallIndirect(ty, 0).
		I64ExtendI32U().I64Const(1 << 60).I64Mul().
		I32Const(64).I64Load(0).I64Add()
	m.AddFunc(nil, []wasmb.ValType{i64}, nil, c.B, "tick")
	return m.Encode()
}

func pairMain() []byte {
	m := &wasmb.Module{}
	i32, i64 := wasmb.I32, wasmb.I64
	clock := m.ImportFunc("wasi_snapshot_preview1", "clock_time_get", []wasmb.ValType{i32, i64, i32}, []wasmb.ValType{i32})
	tick := m.ImportFunc("lib", "tick", nil, []wasmb.ValType{i64})
	m.Mem = &wasmb.Limits{Min: 1}
	m.AddFunc(nil, []wasmb.ValType{i64}, nil, (&wasmb.Code{}).Call(tick).B, "via")
	// own() = this module's own clock; also reports whether its word at 64 (where LIB stores) was touched
	c := (&wasmb.Code{}).
		I32Const(0).I64Const(0).I32Const(128).Call(clock).Drop().
		I32Const(128).I64Load(0).
		I32Const(64).I64Load(0).I64Const(1 << 62).I64Mul().I64Add()
	m.AddFunc(nil, []wasmb.ValType{i64}, nil, c.B, "own")
	return m.Encode()
}

func pairTrace(engine string) ([]uint64, error) {
	ctx := context.Background()
	var rc wazero.RuntimeConfig
	if engine == "interpreter" {
		rc = wazero.NewRuntimeConfigInterpreter()
	} else {
		rc = wazero.NewRuntimeConfigCompiler()
	}
	rt := wazero.NewRuntimeWithConfig(ctx, rc)
	defer rt.Close(ctx)
	if _, err := wasi_snapshot_preview1.Instantiate(ctx, rt); err != nil {
		return nil, err
	}
	lib, err := rt.InstantiateWithConfig(ctx, pairLib(), wazero.NewModuleConfig().WithName("lib"))
	if err != nil {
		return nil, fmt.Errorf("lib: %w", err)
	}
	main, err := rt.InstantiateWithConfig(ctx, pairMain(), wazero.NewModuleConfig().WithName("main"))
	if err != nil {
		return nil, fmt.Errorf("main: %w", err)
	}
	var tr []uint64
	for _, step := range []string{"via", "own", "tick", "via", "via", "own", "tick"} {
		mod := main
		if step == "tick" {
			mod = lib
		}
		r, err := mod.ExportedFunction(step).Call(ctx)
		if err != nil {
			return nil, fmt.Errorf("%s: %w", step, err)
		}
		tr = append(tr, r[0])
	}
	return tr, nil
}

// pairExpected: lib's clock is read by steps via,tick,via,via,tick (5 reads), main's by own,own.
func pairExpected() []uint64 {
	const t0, ms = uint64(1640995200000000000), uint64(1000000)
	return []uint64{t0, t0, t0 + ms, t0 + 2*ms, t0 + 3*ms, t0 + ms, t0 + 4*ms}
}
