package isolation

import (
	"context"
	"fmt"
	"time"

	"github.com/tetratelabs/wazero"
	"github.com/tetratelabs/wazero/api"
	"github.com/tetratelabs/wazero/experimental"

	"verifharness/sim"
	"verifharness/tape"
	"verifharness/wasmb"
)

// Class atomic-wait-notify (threads): 2-3 instances of ONE compiled module, each with its own shared
// memory.  A goroutine parks in memory.atomic.wait32 on a tape-chosen address of one instance (with a
// timeout); meanwhile the OTHER instances notify the same address of THEIR memories, many times.  The waiter
// and the notifiers have nothing to do with each other: every notify wakes nobody (returns 0) and the wait
// ends by its timeout (returns 2), whatever the timing.
func runAtomicWait(t *tape.Tape, cfg sim.Config) (res sim.Result) {
	ctx := context.Background()
	var rc wazero.RuntimeConfig
	if cfg.Engine == "interpreter" {
		rc = wazero.NewRuntimeConfigInterpreter()
	} else {
		rc = wazero.NewRuntimeConfigCompiler()
	}
	rt := wazero.NewRuntimeWithConfig(ctx, rc.WithCoreFeatures(api.CoreFeaturesV2|experimental.CoreFeaturesThreads))
	defer rt.Close(ctx)
	m := &wasmb.Module{Mem: &wasmb.Limits{Min: 1, Max: 1, HasMax: true, Shared: true}}
	i32 := []wasmb.ValType{wasmb.I32}
	// wait(addr, timeout_ms) = memory.atomic.wait32(addr, expected 0, timeout ns)
	m.AddFunc([]wasmb.ValType{wasmb.I32, wasmb.I32}, i32, nil, (&wasmb.Code{}).LocalGet(0).I32Const(0).
		LocalGet(1).I64ExtendI32U().I64Const(1000000).I64Mul().Raw(0xFE, 0x01, 2, 0).B, "wait")
	// notify(addr) = memory.atomic.notify(addr, 1000)
	m.AddFunc(i32, i32, nil, (&wasmb.Code{}).LocalGet(0).I32Const(1000).Raw(0xFE, 0x00, 2, 0).B, "notify")
	cm, err := rt.CompileModule(ctx, m.Encode())
	if err != nil {
		panic(err)
	}
	n := t.Range(2, 3)
	mods := make([]api.Module, n)
	for i := range mods {
		if mods[i], err = rt.InstantiateModule(ctx, cm, wazero.NewModuleConfig().WithName("")); err != nil {
			panic(err)
		}
	}
	addr := uint64(8 * t.Choose(16))
	waiter := t.Choose(n)
	timeoutMs := uint64(120 + 40*t.Choose(3))
	done := make(chan string, 1)
	go func() {
		r, err := mods[waiter].ExportedFunction("wait").Call(ctx, addr, timeoutMs)
		if err != nil {
			done <- "error: " + first(err)
			return
		}
		done <- fmt.Sprint(uint32(r[0]))
	}()
	time.Sleep(20 * time.Millisecond)
	woken := uint64(0)
	deadline := time.Now().Add(time.Duration(timeoutMs-60) * time.Millisecond)
	for time.Now().Before(deadline) {
		for i := range mods {
			if i == waiter {
				continue
			}
			r, err := mods[i].ExportedFunction("notify").Call(ctx, addr)
			if err != nil {
				res.Fail("instance-interference", "notify in instance %d failed: %v", i, first(err))
				return
			}
			woken += r[0] & 0xFFFFFFFF
			res.Steps++
		}
		time.Sleep(time.Millisecond)
	}
	got := <-done
	res.Shape = sim.ShapeOf(fmt.Sprint(n, waiter, addr/8))
	res.Nontrivial = res.Steps > 0
	res.Sample = map[string]any{"instances": n, "waiter": waiter, "address": addr}
	res.Logf("%d instances, waiter %d at %d, notifies in the others", n, waiter, addr)
	if woken != 0 || got != "2" {
		res.Fail("instance-interference", "instance %d waits on address %d of ITS memory (timeout %d ms); notifies on the same address of the OTHER instances' memories woke %d waiters (expected 0) and the wait returned %s (expected 2 = timed out)", waiter, addr, timeoutMs, woken, got)
	}
	return
}
