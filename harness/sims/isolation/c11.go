// Package isolation is the instance-interleaving simulator for C11: instances
// that are not linked by an import share no mutable state.
package isolation

import (
	"bytes"
	"context"
	"crypto/sha256"
	"fmt"
	"os"
	"path/filepath"
	"regexp"
	"strings"

	"github.com/tetratelabs/wazero"
	"github.com/tetratelabs/wazero/api"
	"github.com/tetratelabs/wazero/experimental"
	"github.com/tetratelabs/wazero/imports/wasi_snapshot_preview1"

	"verifharness/plan"
	"verifharness/sim"
	"verifharness/tape"
)

var direntName = regexp.MustCompile(`i\d+-entry-\d\d`)

type c11 struct{}

func init() { sim.Register(c11{}) }

func (c11) Property() string { return "C11" }

func (c11) Classes() []sim.Class {
	var cs []sim.Class
	for _, e := range []string{"interpreter", "compiler"} {
		cs = append(cs,
			sim.Class{Name: "one-runtime", Engine: e, Quick: 1200, Thorough: 60000, RunTimeoutSec: 120},
			sim.Class{Name: "two-runtimes-shared-cache", Engine: e, Quick: 600, Thorough: 30000, RunTimeoutSec: 120},
			sim.Class{Name: "emscripten-shared-env", Engine: e, Quick: 150, Thorough: 6000, RunTimeoutSec: 120},
			// every instance from ONE ModuleConfig value (default clocks, random source, streams)
			sim.Class{Name: "one-config-value", Engine: e, Quick: 400, Thorough: 16000, RunTimeoutSec: 120},
			// threads: a waiter in one instance, notifiers in its siblings (real time: a few runs only)
			sim.Class{Name: "atomic-wait-notify", Engine: e, Quick: 8, Thorough: 200, RunTimeoutSec: 120},
			sim.Class{Name: "shared-sock-config", Engine: e, Quick: 40, Thorough: 1500, RunTimeoutSec: 120},
		)
	}
	return cs
}

func (c11) Describe() sim.Description {
	return sim.Description{
		Level: "exploration",
		Rule: "N in {2,3,4} instances of one compiled plan (and of a second plan), in one runtime or in two runtimes sharing a compilation cache, each with its own stdout buffer, directory mount and host-function counter; plans contain memory/global/table writes, memory.grow, data.drop+memory.init, elem.drop+table.init, WASI fd_write(1)/path_open/fd_close, traps and proc_exit; " +
			"up to two successor instances are instantiated in the same runtime right after a predecessor finished and was closed (Module.Close); the final state includes a hash of the whole linear memory; calls are tasks: a call that reaches a host function is suspended there (native frames live) while the scheduler runs and finishes calls of other instances, per tape. " +
			"Oracle: for every instance the sequence of (results, error kind, stdout bytes, descriptor numbers) and the final memory cells/globals/memory size equal those of the SAME call sequence on a lone instance in a fresh runtime (same engine). " +
			"Class emscripten-shared-env: 2..4 instances of an Emscripten-shaped guest import ONE env host module (emscripten.InstantiateForModule) and call its invoke_ii, which calls back into the calling module (table entry, stack pointer save/restore, setThrew on a longjmp); a model of each instance's stack pointer/threw flag is checked after every step, instances are replaced mid-run. " +
			"Non-trivial: at least two instances had a call suspended while another instance mutated state; distinct = distinct interleavings (sequence of instance ids at scheduling points)",
		RealCode:    []string{"internal/wasm instantiation (memory, tables, globals, data/element instances)", "both engines' module engines and module contexts", "config.go toSysContext, internal/sys FSContext and stdio per instance", "compilation cache shared between runtimes", "imports/emscripten + internal/emscripten InvokeFunc (class emscripten-shared-env)"},
		Stubs:       []string{"the host function env.h is the simulator's yield point (its return value is a pure function of its arguments)"},
		Assumptions: []string{"comparison is wazero against wazero on the same engine: insensitive to anything that is not sharing"},
		FaultKinds:  []string{"guest_trap", "guest_exit", "host_panic (deterministic in the instance's own host-call count)"},
	}
}

type outcome struct {
	fn  int
	arg int32
	res string
}

type instRun struct {
	mod    api.Module
	stdout *bytes.Buffer
	dir    string
	calls  [][2]int32 // fn, arg
	out    []string
	hcount int
	// scheduling
	resume     chan struct{}
	parked     chan struct{} // signalled when the running call parks or finishes
	busy       bool          // a call is suspended inside the host function
	done       bool          // the running call finished
	next       int
	listedOnly bool
	rtIdx      int
}

func first(err error) string {
	if err == nil {
		return ""
	}
	s := strings.SplitN(err.Error(), "\n", 2)[0]
	return strings.TrimSuffix(s, " (recovered by wazero)")
}

type world struct {
	rts       []wazero.Runtime
	cache     wazero.CompilationCache
	ctx       context.Context
	compiled  map[string]wazero.CompiledModule
	sharedLog *os.File // non-nil: every instance of this world writes its stderr here
	files     []*os.File
	cur       *instRun // instance whose call currently runs (for the host function)
	sched     bool     // host function yields to the scheduler
	instErr   error    // an instantiation next to other instances failed
	populate  int      // entries created in every instance's directory before it starts
	// oneConfig: every instance of this world is instantiated with this one ModuleConfig VALUE (default
	// streams, clocks and random source, no mount): what an instantiation derives from the configuration
	// belongs to the instance, not to the value
	oneConfig wazero.ModuleConfig
	// listedOnly: oneConfig mounts one host directory that every instance only lists
	listedOnly bool
	misrouted  string
	fsCfgs     []wazero.FSConfig // per instance, all derived from one base before any instantiation
}

// deriveFS: one base configuration with three mounts, and per instance a configuration derived from it
// that adds the instance's own directory at "/".
func deriveFS(root, sub string, total int) []wazero.FSConfig {
	empty := filepath.Join(root, "empty")
	os.MkdirAll(empty, 0o755)
	base := wazero.NewFSConfig().WithReadOnlyDirMount(empty, "/b0").WithReadOnlyDirMount(empty, "/b1").WithReadOnlyDirMount(empty, "/b2")
	out := make([]wazero.FSConfig, total)
	for i := range out {
		out[i] = base.WithDirMount(filepath.Join(root, sub, fmt.Sprintf("i%d", i)), "/")
	}
	return out
}

func newRuntime(engine string, cache wazero.CompilationCache, w *world, idx int) wazero.Runtime {
	var cfg wazero.RuntimeConfig
	if engine == "interpreter" {
		cfg = wazero.NewRuntimeConfigInterpreter()
	} else {
		cfg = wazero.NewRuntimeConfigCompiler()
	}
	if cache != nil {
		cfg = cfg.WithCompilationCache(cache)
	}
	cfg = cfg.WithCoreFeatures(api.CoreFeaturesV2 | experimental.CoreFeaturesThreads)
	rt := wazero.NewRuntimeWithConfig(w.ctx, cfg)
	if _, err := wasi_snapshot_preview1.Instantiate(w.ctx, rt); err != nil {
		panic(err)
	}
	_, err := rt.NewHostModuleBuilder("env").NewFunctionBuilder().
		WithGoModuleFunction(api.GoModuleFunc(func(ctx context.Context, mod api.Module, stack []uint64) {
			tag, v := int32(uint32(stack[0])), int32(uint32(stack[1]))
			in := w.cur
			if in.rtIdx != idx && w.misrouted == "" {
				// (each runtime has its own env host module, built by this same code)
				w.misrouted = fmt.Sprintf("a guest of runtime %d called env.h and the host function given to runtime %d ran", in.rtIdx, idx)
			}
			in.hcount++
			if (int(tag)+int(v)+in.hcount)%23 == 0 {
				panic(fmt.Sprintf("simstring-%d", in.hcount))
			}
			if w.sched {
				// park: the scheduler decides who continues
				in.busy = true
				in.parked <- struct{}{}
				<-in.resume
				in.busy = false
				w.cur = in
			}
			stack[0] = uint64(uint32(v*3 + tag))
		}), []api.ValueType{api.ValueTypeI32, api.ValueTypeI32}, []api.ValueType{api.ValueTypeI32}).Export("h").Instantiate(w.ctx)
	if err != nil {
		panic(err)
	}
	return rt
}

func (w *world) instantiate(rt wazero.Runtime, bin []byte, root string, idx int) *instRun {
	in := &instRun{stdout: &bytes.Buffer{}, resume: make(chan struct{}), parked: make(chan struct{})}
	// stderr: a host *os.File (a log file).  Together, the instances may share ONE such file, the way
	// an embedder hands the same log to every instance; closing or exiting one instance must not take
	// the stream away from the others.
	stderr := w.sharedLog
	if stderr == nil {
		f, err := os.CreateTemp(root, "log-*")
		if err != nil {
			panic(err)
		}
		w.files = append(w.files, f)
		stderr = f
	}
	in.dir = filepath.Join(root, fmt.Sprintf("i%d", idx))
	os.MkdirAll(in.dir, 0o755)
	// enough entries, named after the instance, for several host-side read batches of fd_readdir
	for k := 0; k < w.populate; k++ {
		os.WriteFile(filepath.Join(in.dir, fmt.Sprintf("i%d-entry-%02d", idx, k)), nil, 0o644)
	}
	// one CompiledModule per (runtime, binary): instances of the SAME compiled module
	key := fmt.Sprintf("%p/%x", rt, sha256.Sum256(bin))
	cm := w.compiled[key]
	if cm == nil {
		var err error
		cm, err = rt.CompileModule(w.ctx, bin)
		if err != nil {
			panic(fmt.Sprintf("harness: compile: %v", err))
		}
		if w.compiled == nil {
			w.compiled = map[string]wazero.CompiledModule{}
		}
		w.compiled[key] = cm
	}
	fsc := wazero.NewFSConfig().WithDirMount(in.dir, "/")
	if w.fsCfgs != nil {
		fsc = w.fsCfgs[idx]
	}
	mcfg := wazero.NewModuleConfig().WithName("").WithStdout(in.stdout).WithStderr(stderr).
		WithFSConfig(fsc).WithArgs(fmt.Sprintf("inst%d", idx))
	if w.oneConfig != nil {
		mcfg = w.oneConfig
	}
	mod, err := rt.InstantiateModule(w.ctx, cm, mcfg)
	if err != nil {
		if w.sched {
			// next to other instances: judged by the caller (alone, the same instantiation succeeds)
			w.instErr = err
			return nil
		}
		panic(fmt.Sprintf("harness: instantiate: %v", err))
	}
	in.mod = mod
	in.listedOnly = w.listedOnly
	for k, r := range w.rts {
		if r == rt {
			in.rtIdx = k
		}
	}
	return in
}

// runCall executes the instance's next call to completion or to its next park.
func (w *world) startCall(in *instRun) {
	c := in.calls[in.next]
	in.next++
	in.done = false
	go func() {
		w.cur = in
		res, err := in.mod.ExportedFunction(fmt.Sprintf("f%d", c[0])).Call(w.ctx, uint64(uint32(c[1])))
		o := fmt.Sprintf("f%d(%d) -> ", c[0], c[1])
		if err != nil {
			o += "error: " + first(err)
		} else {
			o += fmt.Sprint(int32(uint32(res[0])))
		}
		in.out = append(in.out, o)
		in.done = true
		in.parked <- struct{}{}
	}()
	<-in.parked
}

func (w *world) resumeCall(in *instRun) {
	w.cur = in
	in.resume <- struct{}{}
	<-in.parked
}

func snapshot(in *instRun) string {
	var sb strings.Builder
	mem := in.mod.Memory()
	all, _ := mem.Read(0, mem.Size())
	// the fd_readdir buffer (and the bytes-used word before it) depends on the host's directory order and
	// inode numbers, which differ between the directories of the two executions: left out of the hash;
	// what is judged is that it holds no entry NAME of another instance's directory
	cp := append([]byte(nil), all...)
	names := direntName.FindAll(append([]byte(nil), cp[0x400:0x400+0x200]...), -1)
	for i := 0x3f0; i < 0x400+0x200; i++ {
		cp[i] = 0
	}
	var foreign []string
	for _, n := range names {
		if !bytes.HasPrefix(n, []byte(filepath.Base(in.dir)+"-")) && string(n) != "f" {
			foreign = append(foreign, string(n))
		}
	}
	if in.listedOnly {
		// the SAME unmodified host directory in both executions: the listing left in the buffer (names,
		// order, cookies, bytes used) is part of the state
		foreign = nil
		fmt.Fprintf(&sb, "listing=%x ", sha256.Sum256(all[0x3f0:0x400+0x200]))
	}
	fmt.Fprintf(&sb, "pages=%d mem=%x foreign-directory-entries=%v cells=", mem.Size()/65536, sha256.Sum256(cp), foreign)
	for c := 0; c < plan.NCells; c++ {
		v, _ := mem.ReadUint32Le(uint32(8 * c))
		fmt.Fprintf(&sb, "%d,", int32(v))
	}
	sb.WriteString(" globals=")
	for g := 0; g < plan.NGlobals; g++ {
		fmt.Fprintf(&sb, "%d,", int32(uint32(in.mod.ExportedGlobal(fmt.Sprintf("g%d", g)).Get())))
	}
	fmt.Fprintf(&sb, " closed=%v stdout=%x", in.mod.IsClosed(), in.stdout.Bytes())
	ents, _ := os.ReadDir(in.dir)
	sb.WriteString(" files=")
	for _, e := range ents {
		sb.WriteString(e.Name() + ",")
	}
	return sb.String()
}

func (c11) Run(t *tape.Tape, cfg sim.Config) (res sim.Result) {
	if cfg.Class == "emscripten-shared-env" {
		return runEmscripten(t, cfg)
	}
	if cfg.Class == "atomic-wait-notify" {
		return runAtomicWait(t, cfg)
	}
	if cfg.Class == "shared-sock-config" {
		return runSharedSock(t, cfg)
	}
	ctx := context.Background()
	o := plan.Opts{MinFuncs: 3, MaxFuncs: 7, MaxAtoms: 6, Host: true, Traps: true, Exit: true, Grow: true, Table: true, Segments: true, WASI: true, HostTags: 4, GRef: true, Atomics: true, Wide: true}
	populate := 0
	if t.Chance(1, 3) {
		populate = 10
		o.ReaddirHeavy = true
		o.HostTags = 4
	}
	// class one-config-value, sometimes: the one ModuleConfig value carries a read-write directory mount,
	// which every instance only lists (through its pre-opened descriptor): the listings of one instance
	// must not depend on how far another instance has read
	sharedMount := cfg.Class == "one-config-value" && t.Chance(1, 2)
	if sharedMount {
		o.ReaddirHeavy = true
		res.Stat("probe.one_config_value_with_a_directory_mount_only_listed", 1)
	}
	pa := plan.Generate(t, o)
	pa.Name = "pa"
	pb := plan.Generate(t, o)
	pb.Name = "pb"
	if sharedMount {
		for _, p := range []*plan.Plan{pa, pb} {
			for fi := range p.Funcs {
				for ai, a := range p.Funcs[fi].Atoms {
					if a.K == plan.AOpen || a.K == plan.AClose {
						// nothing is created in the shared directory
						p.Funcs[fi].Atoms[ai] = plan.Atom{K: plan.AReaddir, A: int32(tape.Pick(t, []int{24, 40, 64, 100})), B: int32(t.Choose(3))}
					}
				}
			}
		}
	}
	// sometimes the instances' file-system configurations are all derived, BEFORE any instantiation, from one
	// base configuration with three mounts of its own (an empty directory): the instance's own directory is
	// then the fourth pre-open
	derivedFS := !sharedMount && cfg.Class != "one-config-value" && t.Chance(1, 4)
	if derivedFS {
		pa.PreFd, pb.PreFd = 6, 6
		res.Stat("probe.file_system_configurations_derived_from_one_base", 1)
	}
	bins := [][]byte{pa.Encode(), pb.Encode()}
	plans := []*plan.Plan{pa, pb}
	n := t.Range(2, 4)
	which := make([]int, n)
	for i := range which {
		if t.Chance(1, 4) {
			which[i] = 1
		}
	}
	// successors: instance n+k is instantiated, in the same runtime, right after instance pred[k] has
	// finished its calls and was closed (Module.Close) -- while calls of other instances may be suspended.
	// Whatever the closed instance left behind must not reach its successor.
	m := t.Choose(3)
	pred := make([]int, m)
	for k := range pred {
		pred[k] = t.Choose(n)
		for j := 0; j < k; j++ {
			if pred[j] == pred[k] {
				pred[k] = -1 // one successor per instance
			}
		}
		w1 := 0
		if pred[k] >= 0 {
			w1 = which[pred[k]]
		}
		if t.Chance(1, 4) {
			w1 = 1 - w1
		}
		which = append(which, w1)
	}
	total := n + m
	ncalls := make([][][2]int32, total)
	for i := range ncalls {
		k := t.Range(2, 8)
		for j := 0; j < k; j++ {
			ncalls[i] = append(ncalls[i], [2]int32{int32(t.Choose(len(plans[which[i]].Funcs))), int32(t.Choose(50))})
		}
	}
	root, err := os.MkdirTemp(os.Getenv("VERIF_SCRATCH"), "c11-")
	if err != nil {
		panic(err)
	}
	defer os.RemoveAll(root)

	// ---- together
	os.MkdirAll(filepath.Join(root, "multi"), 0o755)
	os.MkdirAll(filepath.Join(root, "lone"), 0o755)
	w := &world{ctx: ctx, sched: true, populate: populate}
	oneConfig := cfg.Class == "one-config-value"
	var sharedDir string
	if sharedMount {
		sharedDir = filepath.Join(root, "shared")
		os.MkdirAll(sharedDir, 0o755)
		for k := 0; k < 12; k++ {
			os.WriteFile(filepath.Join(sharedDir, fmt.Sprintf("shared-entry-%02d", k)), nil, 0o644)
		}
	}
	if oneConfig {
		w.oneConfig = wazero.NewModuleConfig().WithName("")
		if sharedMount {
			w.oneConfig = w.oneConfig.WithFSConfig(wazero.NewFSConfig().WithDirMount(sharedDir, "/"))
			w.listedOnly = true
		}
	}
	if derivedFS {
		w.fsCfgs = deriveFS(root, "multi", total)
	}
	if t.Chance(1, 2) {
		f, err := os.CreateTemp(root, "shared-log-*")
		if err != nil {
			panic(err)
		}
		w.sharedLog = f
		defer f.Close()
	}
	defer func() {
		for _, f := range w.files {
			f.Close()
		}
	}()
	if cfg.Class == "two-runtimes-shared-cache" {
		w.cache = wazero.NewCompilationCache()
		w.rts = []wazero.Runtime{newRuntime(cfg.Engine, w.cache, w, 0), newRuntime(cfg.Engine, w.cache, w, 1)}
	} else {
		w.rts = []wazero.Runtime{newRuntime(cfg.Engine, nil, w, 0)}
	}
	insts := make([]*instRun, total)
	rtOf := make([]wazero.Runtime, total)
	multiSnap := make([]string, total)
	for i := 0; i < n; i++ {
		rtOf[i] = w.rts[i%len(w.rts)]
		insts[i] = w.instantiate(rtOf[i], bins[which[i]], filepath.Join(root, "multi"), i)
		if insts[i] == nil {
			res.Fail("instance-interference", "instance %d (plan %s) cannot be instantiated next to %d earlier instances: %v (alone, the same instantiation succeeds)", i, plans[which[i]].Name, i, w.instErr)
			for _, rt := range w.rts {
				rt.Close(ctx)
			}
			return
		}
		insts[i].calls = ncalls[i]
	}
	var order []string
	overlaps, successions := 0, 0
	for {
		var cand []int
		for i, in := range insts {
			if in != nil && (in.busy || in.next < len(in.calls)) {
				cand = append(cand, i)
			}
		}
		for k := 0; k < m; k++ {
			// spawn candidates are encoded as total+k
			if insts[n+k] == nil && pred[k] >= 0 {
				if p := insts[pred[k]]; !p.busy && p.next == len(p.calls) {
					cand = append(cand, total+k)
				}
			}
		}
		if len(cand) == 0 {
			break
		}
		i := cand[t.Choose(len(cand))]
		if i >= total {
			k := i - total
			p := insts[pred[k]]
			multiSnap[pred[k]] = snapshot(p)
			p.mod.Close(ctx)
			rtOf[n+k] = rtOf[pred[k]]
			insts[n+k] = w.instantiate(rtOf[n+k], bins[which[n+k]], filepath.Join(root, "multi"), n+k)
			if insts[n+k] == nil {
				res.Fail("instance-interference", "instance %d (plan %s) cannot be instantiated after instance %d was closed: %v (alone, the same instantiation succeeds)", n+k, plans[which[n+k]].Name, pred[k], w.instErr)
				for _, rt := range w.rts {
					rt.Close(ctx)
				}
				return
			}
			insts[n+k].calls = ncalls[n+k]
			order = append(order, fmt.Sprintf("s%d", n+k))
			successions++
			res.Steps++
			continue
		}
		in := insts[i]
		order = append(order, fmt.Sprint(i))
		suspended := 0
		for _, o := range insts {
			if o != nil && o.busy && o != in {
				suspended++
			}
		}
		if suspended > 0 {
			overlaps++
		}
		if in.busy {
			w.resumeCall(in)
		} else {
			w.startCall(in)
		}
		res.Steps++
	}
	if w.misrouted != "" {
		res.Fail("instance-interference", "%s (two runtimes sharing a compilation cache, interleaving %s)", w.misrouted, strings.Join(order, ""))
		for _, rt := range w.rts {
			rt.Close(ctx)
		}
		return
	}
	multiOut := make([][]string, total)
	for i, in := range insts {
		if in == nil {
			continue // a successor without a predecessor
		}
		multiOut[i] = in.out
		if multiSnap[i] == "" {
			multiSnap[i] = snapshot(in)
		}
	}
	for _, rt := range w.rts {
		rt.Close(ctx)
	}
	if w.cache != nil {
		w.cache.Close(ctx)
	}

	// ---- alone: each instance in a fresh runtime, same calls, sequentially
	for i := 0; i < total; i++ {
		if insts[i] == nil {
			continue
		}
		lw := &world{ctx: ctx, populate: populate}
		if oneConfig {
			lw.oneConfig = wazero.NewModuleConfig().WithName("")
			if sharedMount {
				lw.oneConfig = lw.oneConfig.WithFSConfig(wazero.NewFSConfig().WithDirMount(sharedDir, "/"))
				lw.listedOnly = true
			}
		}
		defer func() {
			for _, f := range lw.files {
				f.Close()
			}
		}()
		if derivedFS {
			lw.fsCfgs = deriveFS(root, "lone", total)
		}
		rt := newRuntime(cfg.Engine, nil, lw, 0)
		in := lw.instantiate(rt, bins[which[i]], filepath.Join(root, "lone"), i)
		in.calls = ncalls[i]
		for in.next < len(in.calls) {
			lw.startCall(in)
		}
		loneSnap := snapshot(in)
		for j := range in.out {
			if j >= len(multiOut[i]) || in.out[j] != multiOut[i][j] {
				got := "<missing>"
				if j < len(multiOut[i]) {
					got = multiOut[i][j]
				}
				res.Fail("instance-interference", "instance %d (plan %s): call %d gave %q next to %d other instances but %q alone (interleaving %s)", i, plans[which[i]].Name, j, got, n-1, in.out[j], strings.Join(order, ""))
				rt.Close(ctx)
				return
			}
		}
		if loneSnap != multiSnap[i] {
			res.Fail("instance-interference", "instance %d (plan %s): final state next to %d other instances differs from its state alone\n together: %s\n alone:    %s", i, plans[which[i]].Name, n-1, multiSnap[i], loneSnap)
			rt.Close(ctx)
			return
		}
		rt.Close(ctx)
	}
	res.Logf("%d instances (plans %v), interleaving %s", n, which, strings.Join(order, ""))
	res.Shape = sim.ShapeOf(strings.Join(order, ""), fmt.Sprint(which))
	res.Nontrivial = overlaps >= 2
	res.Stat("probe.scheduling_points_with_another_call_suspended", int64(overlaps))
	res.Stat("probe.instances_created_after_a_predecessor_was_closed", int64(successions))
	res.Sample = map[string]any{"instances": n, "plans": which, "interleaving": strings.Join(order, ""), "first_outcomes": multiOut[0]}
	return
}
