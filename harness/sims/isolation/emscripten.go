package isolation

import (
	"context"
	"fmt"
	"strings"

	"github.com/tetratelabs/wazero"
	"github.com/tetratelabs/wazero/api"
	"github.com/tetratelabs/wazero/imports/emscripten"

	"verifharness/sim"
	"verifharness/tape"
	"verifharness/wasmb"
)

// Class emscripten-shared-env: several instances of one Emscripten-shaped guest import the SAME "env"
// host module (emscripten.InstantiateForModule), whose invoke_* functions call back into "the calling
// module": they read its table, save its stack pointer (emscripten_stack_get_current), call the table
// entry, and on a longjmp restore the stack pointer and call setThrew.  Which module that is has to be
// decided per call: anything the host module remembers from an earlier call belongs to another instance.

// emGuest:
//
//	sp (mutable global, starts at 4096), threw (mutable global), own (mutable global)
//	table __indirect_function_table: [0]=ok(x)=own*1000+x   [1]=jump(x): sp-=16; longjmp   [2]=trap(x): sp-=32; unreachable
//	run(slot,x) = invoke_ii(slot,x)        push(k): sp -= k        set_own(v)
//	state() = sp ; threwv() = threw (setThrew ADDS its first argument, so that repeated throws are counted)
func emGuest() []byte {
	m := &wasmb.Module{}
	i32 := []wasmb.ValType{wasmb.I32}
	two := []wasmb.ValType{wasmb.I32, wasmb.I32}
	tInvoke := m.AddType(two, i32)
	tThrow := m.AddType(nil, nil)
	m.Imports = append(m.Imports,
		wasmb.Import{Module: "env", Name: "invoke_ii", Kind: wasmb.KindFunc, TypeIdx: tInvoke},
		wasmb.Import{Module: "env", Name: "_emscripten_throw_longjmp", Kind: wasmb.KindFunc, TypeIdx: tThrow})
	m.Globals = []wasmb.Global{
		{Type: wasmb.I32, Mut: true, Init: wasmb.ConstI32(4096)}, // sp
		{Type: wasmb.I32, Mut: true, Init: wasmb.ConstI32(0)},    // threw
		{Type: wasmb.I32, Mut: true, Init: wasmb.ConstI32(0)},    // own
	}
	m.Mem = &wasmb.Limits{Min: 1, Max: 1, HasMax: true}
	m.Tables = []wasmb.Table{{Elem: wasmb.FuncRef, Lim: wasmb.Limits{Min: 3, Max: 3, HasMax: true}}}
	m.Exports = append(m.Exports, wasmb.Export{Name: "__indirect_function_table", Kind: wasmb.KindTable, Idx: 0})
	c := func() *wasmb.Code { return &wasmb.Code{} }
	ok := m.AddFunc(i32, i32, nil, c().GlobalGet(2).I32Const(1000).I32Mul().LocalGet(0).I32Add().B, "")
	jump := m.AddFunc(i32, i32, nil, c().GlobalGet(0).I32Const(16).I32Sub().GlobalSet(0).Call(1).LocalGet(0).B, "")
	trap := m.AddFunc(i32, i32, nil, c().GlobalGet(0).I32Const(32).I32Sub().GlobalSet(0).Unreachable().B, "")
	m.Elems = []wasmb.Elem{{Mode: 0, Offset: wasmb.ConstI32(0), Funcs: []uint32{ok, jump, trap}}}
	m.AddFunc(nil, i32, nil, c().GlobalGet(0).B, "emscripten_stack_get_current")
	m.AddFunc(i32, nil, nil, c().LocalGet(0).GlobalSet(0).B, "_emscripten_stack_restore")
	m.AddFunc(two, nil, nil, c().GlobalGet(1).LocalGet(0).I32Add().GlobalSet(1).B, "setThrew")
	m.AddFunc(two, i32, nil, c().LocalGet(0).LocalGet(1).Call(0).B, "run")
	m.AddFunc(i32, nil, nil, c().GlobalGet(0).LocalGet(0).I32Sub().GlobalSet(0).B, "push")
	m.AddFunc(i32, nil, nil, c().LocalGet(0).GlobalSet(2).B, "set_own")
	m.AddFunc(nil, i32, nil, c().GlobalGet(0).B, "state")
	m.AddFunc(nil, i32, nil, c().GlobalGet(1).B, "threwv")
	return m.Encode()
}

func runEmscripten(t *tape.Tape, cfg sim.Config) (res sim.Result) {
	ctx := context.Background()
	var rc wazero.RuntimeConfig
	if cfg.Engine == "interpreter" {
		rc = wazero.NewRuntimeConfigInterpreter()
	} else {
		rc = wazero.NewRuntimeConfigCompiler()
	}
	rt := wazero.NewRuntimeWithConfig(ctx, rc)
	defer rt.Close(ctx)
	cm, err := rt.CompileModule(ctx, emGuest())
	if err != nil {
		panic(err)
	}
	if _, err = emscripten.InstantiateForModule(ctx, rt, cm); err != nil {
		panic(err)
	}
	n := t.Range(2, 4)
	mods := make([]api.Module, n)
	sp := make([]int32, n)
	threw := make([]int32, n)
	own := make([]int32, n)
	live := make([]bool, n)
	inst := func(i int) {
		var err error
		if mods[i], err = rt.InstantiateModule(ctx, cm, wazero.NewModuleConfig().WithName(fmt.Sprintf("e%d-%d", i, res.Steps))); err != nil {
			panic(err)
		}
		sp[i], threw[i], own[i], live[i] = 4096, 0, int32(i+1), true
		if _, err = mods[i].ExportedFunction("set_own").Call(ctx, uint64(own[i])); err != nil {
			panic(err)
		}
	}
	for i := range mods {
		inst(i)
	}
	var shape []string
	longjmps, cross := 0, 0
	last := -1
	for step, nsteps := 0, t.Range(5, 20); step < nsteps && res.Violation == nil; step++ {
		i := t.Choose(n)
		switch op := t.Weighted(2, 3, 3, 1, 1); op {
		case 0:
			k := int32(8 * (1 + t.Choose(8)))
			if _, err := mods[i].ExportedFunction("push").Call(ctx, uint64(k)); err != nil {
				panic(err)
			}
			sp[i] -= k
			res.Logf("e%d.push(%d)", i, k)
			shape = append(shape, "push")
		case 1, 2, 3:
			slot := map[int]int{1: 0, 2: 1, 3: 2}[op]
			x := int32(t.Choose(900))
			got, err := mods[i].ExportedFunction("run").Call(ctx, uint64(slot), uint64(uint32(x)))
			res.Logf("e%d.run(%d,%d)", i, slot, x)
			shape = append(shape, fmt.Sprintf("run%d", slot))
			if last >= 0 && last != i {
				cross++
			}
			last = i
			switch slot {
			case 0:
				if want := own[i]*1000 + x; err != nil || int32(uint32(got[0])) != want {
					res.Fail("instance-diverged", "e%d.run(ok,%d) through env.invoke_ii = %v %v, expected %d (the table entry of the CALLING instance)", i, x, got, first(err), want)
					return
				}
			case 1:
				// the longjmp is caught by invoke_ii: the stack pointer is restored, setThrew(1,0) is called
				longjmps++
				threw[i]++
				if err != nil {
					res.Fail("instance-diverged", "e%d.run(jump): a longjmp out of a table call must be absorbed by invoke_ii, got %v", i, first(err))
					return
				}
			case 2:
				// a trap is not a longjmp: the stack pointer is restored and the trap propagates
				if err == nil || !strings.Contains(err.Error(), "unreachable") {
					res.Fail("instance-diverged", "e%d.run(trap): expected the unreachable trap, got %v %v", i, got, first(err))
					return
				}
			}
		case 4:
			// replace the instance: its successor starts from the initial state
			_ = mods[i].Close(ctx)
			inst(i)
			res.Logf("e%d replaced", i)
			shape = append(shape, "replace")
		}
		for k := range mods {
			gs, err1 := mods[k].ExportedFunction("state").Call(ctx)
			gt, err2 := mods[k].ExportedFunction("threwv").Call(ctx)
			if err1 != nil || err2 != nil || int32(uint32(gs[0])) != sp[k] || int32(uint32(gt[0])) != threw[k] {
				res.Fail("instance-diverged", "after step %d (%s): instance e%d has stack pointer %v and threw %v (%v %v); its own call sequence gives stack pointer %d and threw %d -- what env.invoke_ii saves, restores and flags belongs to the instance that called it", step, res.Trace[len(res.Trace)-1], k, gs, gt, first(err1), first(err2), sp[k], threw[k])
				return
			}
		}
		res.Steps++
	}
	res.Shape = sim.ShapeOf(shape...)
	res.Nontrivial = longjmps > 0 && cross > 0
	res.Stat("probe.longjmp_absorbed_by_shared_env_invoke", int64(longjmps))
	res.Sample = map[string]any{"instances_sharing_one_env_module": n, "steps": res.Trace}
	return
}
