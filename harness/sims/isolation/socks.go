package isolation

import (
	"context"
	"fmt"
	"net"
	"os"
	"strings"
	"time"

	"github.com/tetratelabs/wazero"
	"github.com/tetratelabs/wazero/experimental/sock"
	"github.com/tetratelabs/wazero/imports/wasi_snapshot_preview1"

	"verifharness/sim"
	"verifharness/tape"
	"verifharness/wasiguest"
	"verifharness/wasmb"
)

// Class shared-sock-config (experimental/sock): 2-3 instances are instantiated with ONE socket configuration
// (a listener on port 0) in the context: every instance has a pre-opened listening socket of its own.  What
// one instance does to its descriptor 3 -- fd_close, or being closed as a whole -- leaves the others'
// listeners alone: before and after, sock_accept on an idle listener answers the same, and a connection
// dialled to an instance's own address is accepted by that instance.
func runSharedSock(t *tape.Tape, cfg sim.Config) (res sim.Result) {
	ctx := context.Background()
	var rc wazero.RuntimeConfig
	if cfg.Engine == "interpreter" {
		rc = wazero.NewRuntimeConfigInterpreter()
	} else {
		rc = wazero.NewRuntimeConfigCompiler()
	}
	rt := wazero.NewRuntimeWithConfig(ctx, rc)
	defer rt.Close(ctx)
	wasi_snapshot_preview1.MustInstantiate(ctx, rt)
	cm, err := rt.CompileModule(ctx, wasiguest.Binary())
	if err != nil {
		panic(err)
	}
	_ = t.Choose(200)
	// the kernel's table of listening sockets is the observation
	listeningOn := func(host string) int {
		b, err := os.ReadFile("/proc/net/tcp")
		if err != nil {
			return -1
		}
		ip := net.ParseIP(host).To4()
		want := fmt.Sprintf("%02X%02X%02X%02X:", ip[3], ip[2], ip[1], ip[0])
		// (the table is not read atomically: while other processes open and close sockets a line can
		// appear twice; sockets are told apart by their inode)
		inodes := map[string]bool{}
		for _, l := range strings.Split(string(b), "\n") {
			f := strings.Fields(l)
			if len(f) > 9 && strings.HasPrefix(f[1], want) && f[3] == "0A" {
				inodes[f[9]] = true
			}
		}
		return len(inodes)
	}
	// unique per worker process (two octets from the pid) and per run of that process (runs are sequential)
	pid := os.Getpid()
	host := fmt.Sprintf("127.%d.%d.%d", 1+pid%250, 1+(pid/250)%250, 1+int(cfg.Run)%250)
	if listeningOn(host) != 0 {
		panic("harness: somebody already listens on " + host + " (or /proc/net/tcp is unreadable)")
	}
	// (a read that disagrees with the expectation is repeated: the table is not a snapshot)
	listeningExpect := func(want int) int {
		c := listeningOn(host)
		for k := 0; k < 10 && c >= 0 && c != want; k++ {
			time.Sleep(3 * time.Millisecond)
			c = listeningOn(host)
		}
		return c
	}
	sctx := sock.WithConfig(ctx, sock.NewConfig().WithTCPListener(host, 0))
	if t.Chance(1, 3) {
		// a FIXED port (found free a moment ago): an instantiation with this configuration that fails for a
		// reason of its own (an argument containing NUL, a taken name, an import that does not resolve, a
		// trapping start-section function) is followed by a proper one, which must find the
		// address free: the failed attempt is not an instance and holds nothing
		l, err := net.Listen("tcp", host+":0")
		if err != nil {
			panic(err)
		}
		port := l.Addr().(*net.TCPAddr).Port
		l.Close()
		fctx := sock.WithConfig(ctx, sock.NewConfig().WithTCPListener(host, port))
		var ferr error
		why := t.Choose(4)
		switch why {
		case 0: // an argument containing NUL: the system context cannot be built
			_, ferr = rt.InstantiateModule(fctx, cm, wazero.NewModuleConfig().WithName("").WithStartFunctions().WithArgs("a\x00b"))
		case 1: // the name is taken by an open module
			owner, err := rt.InstantiateModule(ctx, cm, wazero.NewModuleConfig().WithName("taken").WithStartFunctions())
			if err != nil {
				panic(err)
			}
			_, ferr = rt.InstantiateModule(fctx, cm, wazero.NewModuleConfig().WithName("taken").WithStartFunctions())
			owner.Close(ctx)
		case 2: // an import does not resolve
			um := &wasmb.Module{}
			um.ImportFunc("nowhere", "f", nil, nil)
			_, ferr = rt.InstantiateWithConfig(fctx, um.Encode(), wazero.NewModuleConfig().WithName(""))
		case 3: // the start-section function traps
			tm := &wasmb.Module{}
			st := tm.AddFunc(nil, nil, nil, (&wasmb.Code{}).Unreachable().B, "")
			tm.Start = &st
			_, ferr = rt.InstantiateWithConfig(fctx, tm.Encode(), wazero.NewModuleConfig().WithName(""))
		}
		if ferr == nil {
			panic("harness: the instantiation meant to fail succeeded")
		}
		res.Stat(fmt.Sprintf("fault.failing_instantiation_reason_%d", why), 1)
		res.Stat("fault.instantiation_failing_after_the_listeners_were_bound", 1)
		if c := listeningExpect(0); c > 0 {
			res.Fail("instance-interference", "an instantiation with a socket configuration (%s:%d) failed (%v): %d listening socket(s) of that attempt are still there", host, port, first(ferr), c)
			return
		}
		mod, err := rt.InstantiateModule(fctx, cm, wazero.NewModuleConfig().WithName("").WithStartFunctions())
		if err != nil {
			res.Fail("instance-interference", "after an instantiation with the socket configuration %s:%d failed (%v), a proper instantiation with the same configuration fails: %v", host, port, first(ferr), first(err))
			return
		}
		mod.Close(ctx)
		res.Logf("failed instantiation with a fixed-port socket configuration, then a proper one")
	}
	n := t.Range(2, 3)
	gs := make([]*wasiguest.Guest, n)
	for i := range gs {
		mod, err := rt.InstantiateModule(sctx, cm, wazero.NewModuleConfig().WithName("").WithStartFunctions())
		if err != nil {
			res.Fail("instance-interference", "instance %d cannot be instantiated with the socket configuration instance 0 was instantiated with: %v", i, first(err))
			return
		}
		gs[i] = wasiguest.New(mod)
		// (non-blocking: accepting on an idle listener answers EAGAIN instead of parking the call)
		if e, err := gs[i].Call(ctx, "fd_fdstat_set_flags", 3, 4); err != nil || e != 0 {
			panic(fmt.Sprintf("harness: fd_fdstat_set_flags(3, NONBLOCK) = %d %v", e, err))
		}
	}
	accept := func(i int) string {
		e, err := gs[i].Call(ctx, "sock_accept", 3, 0, 0x100)
		if err != nil {
			return "error: " + first(err)
		}
		return fmt.Sprintf("errno %d", e)
	}
	before := make([]string, n)
	for i := range gs {
		before[i] = accept(i)
	}
	if c := listeningExpect(n); c >= 0 && c != n {
		res.Fail("instance-interference", "%d instances were instantiated with one socket configuration (a listener on %s, port 0): the kernel shows %d listening sockets on that address, not one per instance", n, host, c)
		return
	}
	victim := t.Choose(n)
	how := t.Choose(2)
	if how == 0 {
		gs[victim].Call(ctx, "fd_close", 3)
	} else {
		gs[victim].Mod.Close(ctx)
	}
	res.Logf("%d instances on one socket configuration; instance %d %s", n, victim, []string{"closes its descriptor 3", "is closed"}[how])
	res.Shape = sim.ShapeOf(fmt.Sprint(n, victim, how))
	res.Nontrivial = true
	defer func() { res.Sample = res.Trace }()
	if c := listeningExpect(n - 1); c >= 0 && c != n-1 {
		res.Fail("instance-interference", "%d instances on one socket configuration: after instance %d %s the kernel shows %d listening sockets on %s, expected %d (the others' listeners stay)", n, victim, []string{"closed its descriptor 3", "was closed"}[how], c, host, n-1)
		return
	}
	for i := range gs {
		if i == victim {
			continue
		}
		after := accept(i)
		res.Logf("instance %d: sock_accept before %q after %q", i, before[i], after)
		if after != before[i] {
			res.Fail("instance-interference", "%d instances instantiated with one socket configuration: after instance %d %s, sock_accept on the idle listener of instance %d answers %q (before: %q)", n, victim, []string{"closed its descriptor 3", "was closed"}[how], i, after, before[i])
			return
		}
		res.Steps++
	}
	return
}
