//go:build instrumented

package lifecycle

import (
	"context"
	"errors"
	"fmt"
	"sync/atomic"

	"github.com/tetratelabs/wazero"
	"github.com/tetratelabs/wazero/api"
	"github.com/tetratelabs/wazero/experimental"
	"github.com/tetratelabs/wazero/sys"

	"github.com/tetratelabs/wazero/verifshim/simrt"

	"verifharness/sim"
	"verifharness/tape"
	"verifharness/wasmb"
)

// Class async-close-concurrent: SEVERAL calls are in flight on one module (one task each, each with its own
// api.Function) when the context of one of them is cancelled under close-on-context-done.  The watcher
// only marks the module closed; every in-flight call then meets the closed flag at its next exit check and
// the closure of the resources is "deferred to the call" -- to which of them?  Under the baton scheduler
// the calls are interleaved statement by statement inside internal/wasm/module_instance.go (the watcher
// goroutines are tasks too: their select is polled).  Whatever the interleaving: every call ends with the
// exit error, the close notification fires exactly once, the module's use of an imported allocator memory
// is given back exactly once (the owner's memory is freed when the owner closes, not before, not never).
func asyncCloseConcurrent(t *tape.Tape, cfg sim.Config) (res sim.Result) {
	ctx := context.Background()
	var rc wazero.RuntimeConfig
	if cfg.Engine == "interpreter" {
		rc = wazero.NewRuntimeConfigInterpreter()
	} else {
		rc = wazero.NewRuntimeConfigCompiler()
	}
	rt := wazero.NewRuntimeWithConfig(ctx, rc.WithCloseOnContextDone(true))
	defer rt.Close(ctx)

	ncalls := t.Range(2, 3)
	k := t.Range(1, 6)          // the k-th host callback (over all calls) cancels
	shared := t.Chance(1, 2)    // all calls under one cancellable context, or only the first
	maxTicks := 40 + t.Choose(40)
	var cancel context.CancelFunc
	ticks := 0
	_, err := rt.NewHostModuleBuilder("env").NewFunctionBuilder().WithFunc(func() uint32 {
		ticks++
		if ticks == k {
			cancel()
		}
		simrt.Yield("host.tick")
		if ticks > maxTicks {
			return 0 // safety: the loops end by themselves (reported below as a violation)
		}
		return 1
	}).Export("tick").Instantiate(ctx)
	if err != nil {
		panic(err)
	}
	var frees atomic.Int64
	actx := experimental.WithMemoryAllocator(ctx, experimental.MemoryAllocatorFunc(func(cap, max uint64) experimental.LinearMemory {
		return &countingMem{frees: &frees}
	}))
	om := &wasmb.Module{Mem: &wasmb.Limits{Min: 1, Max: 2, HasMax: true}}
	om.Exports = append(om.Exports, wasmb.Export{Name: "mem", Kind: wasmb.KindMemory, Idx: 0})
	owner, err := rt.InstantiateWithConfig(actx, om.Encode(), wazero.NewModuleConfig().WithName("own"))
	if err != nil {
		panic(err)
	}
	m := &wasmb.Module{}
	tick := m.ImportFunc("env", "tick", nil, []wasmb.ValType{wasmb.I32})
	m.Imports = append(m.Imports, wasmb.Import{Module: "own", Name: "mem", Kind: wasmb.KindMemory, Mem: wasmb.Limits{Min: 1, Max: 2, HasMax: true}})
	// spin: loop { if tick() == 0 return; }
	m.AddFunc(nil, nil, nil, (&wasmb.Code{}).Loop(wasmb.BlockVoid).Call(tick).BrIf(0).End().B, "spin")
	cm, err := rt.CompileModule(ctx, m.Encode())
	if err != nil {
		panic(err)
	}
	notified := 0
	nctx := experimental.WithCloseNotifier(ctx, experimental.CloseNotifyFunc(func(context.Context, uint32) {
		notified++
		simrt.Yield("host.notified")
	}))
	name := tape.Pick(t, []string{"a", ""})
	mod, err := rt.InstantiateModule(nctx, cm, wazero.NewModuleConfig().WithName(name))
	if err != nil {
		panic(err)
	}
	var cctx context.Context
	cctx, cancel = context.WithCancel(ctx)
	defer cancel()

	// scheduling policy: uniform switching or a few change points
	policy := t.Choose(2)
	prob := []int{3, 8, 24}[t.Choose(3)]
	changePts := map[int]bool{}
	for d := 1 + t.Choose(4); d > 0; d-- {
		changePts[t.Choose(400)] = true
	}
	yieldNo, rr := 0, 0
	choose := func(en []*simrt.Task, cur *simrt.Task, site string) int {
		yieldNo++
		if cur == nil {
			return t.Choose(len(en))
		}
		if site == "host.tick" && ticks >= k {
			// fairness once the context is cancelled: the watcher goroutines get their turns, as under
			// any real scheduler (the bound on the loops below is a liveness check, not a timing one)
			rr++
			return 1 + rr%(len(en)-1)
		}
		if policy == 0 {
			if t.Chance(1, prob) {
				return 1 + t.Choose(len(en)-1)
			}
			return 0
		}
		if changePts[yieldNo] {
			return 1 + t.Choose(len(en)-1)
		}
		return 0
	}
	errs := make([]error, ncalls)
	panics := make([]string, ncalls)
	var fns []func()
	for i := 0; i < ncalls; i++ {
		i := i
		f := mod.ExportedFunction("spin")
		c := ctx
		if shared || i == 0 {
			c = cctx
		}
		fns = append(fns, func() {
			defer func() {
				if r := recover(); r != nil {
					panics[i] = fmt.Sprintf("%v [%s]", r, shortStack())
				}
			}()
			_, errs[i] = f.Call(c)
		})
	}
	s := simrt.Run(choose, 20000, true, fns...)
	res.Steps = int64(s.Yields)
	res.Stat("probe.task_switches", int64(s.Switches))
	res.Nontrivial = s.Switches > 0 && ticks >= k
	res.Shape = sim.ShapeOf(s.Trace...)
	res.Logf("calls=%d k=%d shared-context=%v ticks=%d notified=%d", ncalls, k, shared, ticks, notified)
	res.Sample = res.Trace
	switch {
	case s.Deadlock:
		res.Fail("deadlock", "%s", s.DeadlockInfo)
		return
	case s.DeadlockInfo != "":
		res.Fail("client-panic", "%s", s.DeadlockInfo)
		return
	}
	if len(s.Unguarded) > 0 {
		res.Fail("unguarded-shared-state", "a task touched state documented as guarded by a mutex while nobody held that mutex: %v", s.Unguarded)
		return
	}
	for i := range errs {
		if panics[i] != "" {
			res.Fail("panic-instead-of-error", "call %d of %d in flight when the context was cancelled panicked: %s", i, ncalls, panics[i])
			return
		}
		var ee *sys.ExitError
		if !errors.As(errs[i], &ee) || ee.ExitCode() != sys.ExitCodeContextCanceled {
			res.Fail("call-outcome", "call %d of %d in flight when the context was cancelled (k=%d, ticks=%d) returned %v, expected the exit error of the cancellation", i, ncalls, k, ticks, firstLine(errs[i]))
			return
		}
	}
	if !mod.IsClosed() {
		res.Fail("not-closed", "the module is not closed after its calls ended with the cancellation's exit error")
		return
	}
	if notified != 1 {
		res.Fail("close-notification-count", "%d calls were in flight when the context was cancelled: the close notification fired %d times (expected exactly once)", ncalls, notified)
		return
	}
	if name != "" && rt.Module(name) != nil {
		res.Fail("closed-module-still-registered", "the name %q still resolves after the asynchronous close was completed by the calls", name)
		return
	}
	if n := frees.Load(); n != 0 {
		res.Fail("shared-resource-released", "%d calls in flight at the cancellation: the importer's deferred release freed the still-open owner's memory %d time(s)", ncalls, n)
		return
	}
	var _ api.Module = owner
	owner.Close(ctx)
	if n := frees.Load(); n != 1 {
		res.Fail("resource-not-released", "after the importer (closed through its context, %d calls in flight) and the owner are closed the allocator's Free ran %d times, expected 1", ncalls, n)
	}
	return
}
