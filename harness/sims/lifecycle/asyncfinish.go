//go:build instrumented

package lifecycle

import (
	"context"
	"errors"
	"fmt"
	"sync/atomic"

	"github.com/tetratelabs/wazero"
	"github.com/tetratelabs/wazero/experimental"
	"github.com/tetratelabs/wazero/sys"

	"github.com/tetratelabs/wazero/verifshim/simrt"

	"verifharness/sim"
	"verifharness/tape"
	"verifharness/wasmb"
)

// Class async-close-finishing: the context of a call is cancelled at the very end of the call (by the
// last host function the guest calls), under close-on-context-done.  The watcher goroutine is a task: it
// may mark the module closed before, while or AFTER the call runs its last closed-check.  Whatever the
// interleaving, one of two things holds when everything has come to rest: the module is open, or it is
// closed and its resources are released -- the close notification fired exactly once, its own
// allocator memory was freed exactly once (after a final Module.Close, which must be harmless either way).
func asyncCloseFinishing(t *tape.Tape, cfg sim.Config) (res sim.Result) {
	ctx := context.Background()
	var rc wazero.RuntimeConfig
	if cfg.Engine == "interpreter" {
		rc = wazero.NewRuntimeConfigInterpreter()
	} else {
		rc = wazero.NewRuntimeConfigCompiler()
	}
	rt := wazero.NewRuntimeWithConfig(ctx, rc.WithCloseOnContextDone(true))
	defer rt.Close(ctx)
	nticks := 1 + t.Choose(3) // the guest calls the host function this many times; the last one cancels
	var cancel context.CancelFunc
	ticks := 0
	_, err := rt.NewHostModuleBuilder("env").NewFunctionBuilder().WithFunc(func() {
		ticks++
		if ticks == nticks {
			cancel()
		}
		simrt.Yield("host.tick")
	}).Export("tick").Instantiate(ctx)
	if err != nil {
		panic(err)
	}
	var frees atomic.Int64
	actx := experimental.WithMemoryAllocator(ctx, experimental.MemoryAllocatorFunc(func(cap, max uint64) experimental.LinearMemory {
		return &countingMem{frees: &frees}
	}))
	m := &wasmb.Module{Mem: &wasmb.Limits{Min: 1, Max: 1, HasMax: true}}
	tick := m.ImportFunc("env", "tick", nil, nil)
	c := &wasmb.Code{}
	for i := 0; i < nticks; i++ {
		c.Call(tick)
	}
	m.AddFunc(nil, nil, nil, c.B, "once")
	cm, err := rt.CompileModule(ctx, m.Encode())
	if err != nil {
		panic(err)
	}
	notified := 0
	nctx := experimental.WithCloseNotifier(actx, experimental.CloseNotifyFunc(func(context.Context, uint32) { notified++ }))
	name := tape.Pick(t, []string{"a", ""})
	mod, err := rt.InstantiateModule(nctx, cm, wazero.NewModuleConfig().WithName(name))
	if err != nil {
		panic(err)
	}
	var cctx context.Context
	cctx, cancel = context.WithCancel(ctx)
	defer cancel()
	policy := t.Choose(2)
	prob := []int{2, 5, 16}[t.Choose(3)]
	changePts := map[int]bool{}
	for d := 1 + t.Choose(3); d > 0; d-- {
		changePts[t.Choose(60)] = true
	}
	yieldNo := 0
	choose := func(en []*simrt.Task, cur *simrt.Task, site string) int {
		yieldNo++
		if cur == nil || len(en) == 1 {
			return t.Choose(len(en))
		}
		if policy == 0 {
			if t.Chance(1, prob) {
				return 1 + t.Choose(len(en)-1)
			}
			return 0
		}
		if changePts[yieldNo] {
			return 1 + t.Choose(len(en)-1)
		}
		return 0
	}
	var callErr error
	var panicked string
	s := simrt.Run(choose, 20000, true, func() {
		defer func() {
			if r := recover(); r != nil {
				panicked = fmt.Sprintf("%v [%s]", r, shortStack())
			}
		}()
		_, callErr = mod.ExportedFunction("once").Call(cctx)
	})
	res.Steps = int64(s.Yields)
	res.Stat("probe.task_switches", int64(s.Switches))
	res.Shape = sim.ShapeOf(s.Trace...)
	closedAfterCall := mod.IsClosed()
	res.Logf("ticks=%d call -> %v, module closed after the call and the watcher came to rest: %v, notified %d", nticks, firstLine(callErr), closedAfterCall, notified)
	res.Sample = res.Trace
	switch {
	case s.Deadlock:
		res.Fail("deadlock", "%s", s.DeadlockInfo)
		return
	case s.DeadlockInfo != "":
		res.Fail("client-panic", "%s", s.DeadlockInfo)
		return
	case panicked != "":
		res.Fail("panic-instead-of-error", "the call whose context was cancelled by its last host function panicked: %s", panicked)
		return
	}
	if len(s.Unguarded) > 0 {
		res.Fail("unguarded-shared-state", "a task touched state documented as guarded by a mutex while nobody held that mutex: %v", s.Unguarded)
		return
	}
	if callErr != nil {
		var ee *sys.ExitError
		if !errors.As(callErr, &ee) || ee.ExitCode() != sys.ExitCodeContextCanceled {
			res.Fail("call-outcome", "the call whose context was cancelled by its last host function returned %v (neither success nor the exit error of the cancellation)", firstLine(callErr))
			return
		}
		if !closedAfterCall {
			res.Fail("not-closed", "the call returned the cancellation's exit error but the module is not closed")
			return
		}
	}
	if callErr == nil && closedAfterCall {
		res.Stat("probe.module_closed_by_the_watcher_after_the_call_returned_success", 1)
		res.Nontrivial = true
	}
	if closedAfterCall {
		// closed by the watcher: whoever completed the close, everything of the module is released by now
		if notified != 1 {
			res.Fail("close-notification-count", "the context was cancelled by the call's last host function; the call returned %v and the module is closed, but its close notification fired %d times (expected exactly once): nobody released it", firstLine(callErr), notified)
			return
		}
		if n := frees.Load(); n != 1 {
			res.Fail("resource-not-released", "the context was cancelled by the call's last host function; the call returned %v and the module is closed, but its allocator memory was freed %d times (expected once)", firstLine(callErr), n)
			return
		}
		if name != "" && rt.Module(name) != nil {
			res.Fail("closed-module-still-registered", "the name %q still resolves although the module is closed", name)
			return
		}
	}
	// a final Close is harmless either way, and afterwards everything is released exactly once
	_ = mod.Close(ctx)
	if notified != 1 || frees.Load() != 1 {
		res.Fail("close-notification-count", "after a final Module.Close (call returned %v, module closed before it: %v): close notification fired %d times, allocator memory freed %d times (expected once each)", firstLine(callErr), closedAfterCall, notified, frees.Load())
	}
	return
}
