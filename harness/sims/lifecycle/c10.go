//go:build instrumented

// Package lifecycle is the baton-scheduled simulator for C10: module
// lifecycle and name registry are linearizable.  It runs against the
// instrumented copy (scheduler-aware sync/atomic shims and statement-level
// yields in runtime.go, builder.go and internal/wasm's store files).
package lifecycle

import (
	"runtime/debug"
	"context"
	"fmt"
	"sort"
	"strings"
	gosync "sync"
	"sync/atomic"
	"time"

	"github.com/anishathalye/porcupine"
	"github.com/tetratelabs/wazero"
	"github.com/tetratelabs/wazero/api"
	"github.com/tetratelabs/wazero/experimental"
	"github.com/tetratelabs/wazero/sys"
	"github.com/tetratelabs/wazero/verifshim/simrt"

	"verifharness/sim"
	"verifharness/tape"
	"verifharness/wasmb"
)

type c10 struct{}

func init() { sim.Register(c10{}) }

func (c10) Property() string { return "C10" }

func (c10) Classes() []sim.Class {
	var cs []sim.Class
	for _, e := range []string{"interpreter", "compiler"} {
		q, th := 6000, 160000
		if e == "compiler" {
			q, th = 2000, 60000
		}
		cs = append(cs,
			sim.Class{Name: "registry", Engine: e, Quick: q, Thorough: th, Instrumented: true, RunTimeoutSec: 120, DeathIsViolation: true},
			sim.Class{Name: "compiled-handles", Engine: e, Quick: q / 4, Thorough: th / 4, Instrumented: true, RunTimeoutSec: 120, DeathIsViolation: true},
			sim.Class{Name: "context-close", Engine: e, Quick: 150, Thorough: 6000, Instrumented: true, RunTimeoutSec: 120},
			// sequential: hundreds of names (map and list resizing); files released exactly once on close
			sim.Class{Name: "registry-large", Engine: e, Quick: 40, Thorough: 1500, Instrumented: true, RunTimeoutSec: 120},
			sim.Class{Name: "resources", Engine: e, Quick: 300, Thorough: 12000, Instrumented: true, RunTimeoutSec: 120},
			// several calls in flight on one module when close-on-context-done closes it: baton-scheduled
			sim.Class{Name: "async-close-concurrent", Engine: e, Quick: 400, Thorough: 16000, Instrumented: true, RunTimeoutSec: 120, DeathIsViolation: true},
			sim.Class{Name: "async-close-finishing", Engine: e, Quick: 600, Thorough: 24000, Instrumented: true, RunTimeoutSec: 120, DeathIsViolation: true},
		)
	}
	return cs
}

func (c10) Describe() sim.Description {
	return sim.Description{
		Level: "exploration",
		Rule: "class async-close-concurrent: 2-3 calls in flight on one module under close-on-context-done, the k-th host callback cancels, watcher goroutines are tasks; every call must end with the exit error, notification and resource release exactly once; every class: statements touching fields documented as guarded assert that the mutex is held; classes registry / compiled-handles: 2-4 simulated clients (baton-scheduled real goroutines, exactly one runs), each a tape-generated list of 2-6 operations over names {\"\",a,b}, two tiny binaries and a host module: InstantiateModule(bin|host, name) with a CloseNotifier, Module(name), Close/CloseWithExitCode on a held or looked-up handle, IsClosed, CompileModule, CompiledModule.Close, Runtime.Close/CloseWithExitCode. " +
			"The scheduler switches tasks at yield points (every statement of runtime.go, builder.go, store.go, store_module_list.go, module_instance.go; every lock, atomic and Once operation) per tape: uniform, PCT-style with 1-3 change points, or sequential. " +
			"A fifth of the instantiations (class registry) use a module whose configured start function fails inside a host function -- by sys.ExitError(3), sys.ExitError(0) or a panic -- after the instance was registered: the history records an instantiation before the host function's stamp and a close after it, so the name must be free and the instance closed when InstantiateModule returns. " +
			"Invoke/return events are stamped with the global event sequence number; porcupine checks the history (plus a final sequential probe) against the atomic-registry specification; outside porcupine: no operation panics, no deadlock, each close notification fires at most once and exactly once for closed modules. " +
			"Non-trivial: at least one task switch happened inside an operation; distinct = distinct task-switch traces",
		RealCode:    []string{"runtime.go", "builder.go", "internal/wasm store.go / store_module_list.go / module_instance.go", "both engines' compiled-module tables (lock-level yields)", "experimental.CloseNotifier"},
		Stubs:       []string{"sync, sync/atomic as seen by the listed files = scheduler-aware shims in the instrumented scratch copy (forwarding to the real primitives outside the simulation)"},
		Assumptions: []string{"interleavings are decided at the inserted yield points, not inside un-instrumented code", "porcupine timeout 30 s; Unknown is reported as harness trouble, never as a violation"},
		FaultKinds:  []string{"adversarial schedules (uniform, PCT d=1..3)", "runtime close racing with every other operation", "context cancellation / close from another goroutine under a running call", "failed importer of a shared custom-allocator memory", "file Close errors while an instance is closed", "listener compilation racing compile/instantiate/close"},
	}
}

type opKind int

const (
	opInst opKind = iota
	opLookup
	opClose
	opIsClosed
	opRtClose
	opCompile
	opCloseCompiled
	opInstHost
	// relaxed-model pseudo operations
	opCloseFlag
	opCloseRelease
	opRtFlag
	opRtRelease
)

var opNames = []string{"instantiate", "lookup", "close", "isClosed", "runtimeClose", "compile", "closeCompiled", "instantiateHost", "closeFlag", "closeRelease", "rtFlag", "rtRelease"}

type input struct {
	Kind opKind
	Name string
	Mod  int // module id for close/isClosed
	Bin  int
	Code uint32
	Note string // shown in histories only
}

type output struct {
	OK     bool
	Mod    int // instantiate/lookup: module id (0 = none)
	Closed bool
	Err    string
	// MayFailKnown marks an instantiate that failed with the known
	// "compiled entry deleted by another handle" error.
	MayFailKnown bool
	// OwnFailure marks an instantiate that failed in its start-section function (a reason of its own):
	// legal whatever the registry holds; it never owned its name.
	OwnFailure bool
}

type histOp struct {
	client    int
	in        input
	out       output
	call, ret int64
}

// ---- sequential specification

type regState struct {
	rtClosed  bool
	rtClosing bool
	owner     map[string]int
	open      map[int]bool
	closing   map[int]bool
}

func (s regState) clone() regState {
	n := regState{rtClosed: s.rtClosed, rtClosing: s.rtClosing, owner: map[string]int{}, open: map[int]bool{}, closing: map[int]bool{}}
	for k, v := range s.owner {
		n.owner[k] = v
	}
	for k := range s.open {
		n.open[k] = true
	}
	for k := range s.closing {
		n.closing[k] = true
	}
	return n
}

func (s regState) key() string {
	var names []string
	for k, v := range s.owner {
		names = append(names, fmt.Sprintf("%s=%d", k, v))
	}
	sort.Strings(names)
	var ids []int
	for k := range s.open {
		ids = append(ids, k)
	}
	sort.Ints(ids)
	var cl []int
	for k := range s.closing {
		cl = append(cl, k)
	}
	sort.Ints(cl)
	return fmt.Sprintf("%v/%v|%s|%v|%v", s.rtClosed, s.rtClosing, strings.Join(names, ","), ids, cl)
}

func (s *regState) release(m int) {
	delete(s.open, m)
	delete(s.closing, m)
	for n, o := range s.owner {
		if o == m {
			delete(s.owner, n)
		}
	}
}

// step is the specification.  relaxed=true adds the two-phase pseudo
// operations of the recorded known finding.
func step(st regState, in input, out output) (bool, regState) {
	s := st.clone()
	switch in.Kind {
	case opInst, opInstHost:
		if out.OK {
			// While the runtime is closing (relaxed specification only: between
			// its flag and release points) an instantiation admitted before the
			// flag may still complete; the release point closes its module.
			if s.rtClosed {
				return false, st
			}
			if in.Name != "" {
				if _, taken := s.owner[in.Name]; taken {
					return false, st
				}
				s.owner[in.Name] = out.Mod
			}
			s.open[out.Mod] = true
			return true, s
		}
		if out.MayFailKnown || out.OwnFailure {
			return true, s // (known: judged outside porcupine against the finding's signature)
		}
		_, taken := s.owner[in.Name]
		return s.rtClosed || s.rtClosing || (in.Name != "" && taken), s
	case opLookup:
		return s.owner[in.Name] == out.Mod, s
	case opClose:
		s.release(in.Mod)
		return out.OK, s
	case opCloseFlag:
		if s.open[in.Mod] {
			delete(s.open, in.Mod)
			s.closing[in.Mod] = true
		}
		return true, s
	case opCloseRelease:
		s.release(in.Mod)
		return out.OK, s
	case opIsClosed:
		isClosed := !s.open[in.Mod]
		if s.rtClosing && s.open[in.Mod] {
			return true, s // the runtime is closing modules one by one: either answer
		}
		return out.Closed == isClosed, s
	case opRtClose:
		for m := range s.open {
			s.release(m)
		}
		for m := range s.closing {
			s.release(m)
		}
		s.owner = map[string]int{}
		s.rtClosed = true
		return out.OK, s
	case opRtFlag:
		if !s.rtClosed {
			s.rtClosing = true
		}
		return true, s
	case opRtRelease:
		for m := range s.open {
			s.release(m)
		}
		for m := range s.closing {
			s.release(m)
		}
		s.owner = map[string]int{}
		s.rtClosed, s.rtClosing = true, false
		return out.OK, s
	case opCompile:
		if out.OK {
			return !s.rtClosed && !s.rtClosing, s
		}
		return s.rtClosed || s.rtClosing, s
	case opCloseCompiled:
		return out.OK, s
	}
	return false, st
}

var model = porcupine.Model{
	Init: func() interface{} {
		return regState{owner: map[string]int{}, open: map[int]bool{}, closing: map[int]bool{}}
	},
	Step: func(state, in, out interface{}) (bool, interface{}) {
		ok, ns := step(state.(regState), in.(input), out.(output))
		return ok, ns
	},
	Equal: func(a, b interface{}) bool { return a.(regState).key() == b.(regState).key() },
	DescribeOperation: func(in, out interface{}) string {
		i, o := in.(input), out.(output)
		note := i.Note
		if o.OwnFailure {
			note += " [failed for a reason of its own: it never owned its name]"
		}
		return fmt.Sprintf("%s(%q,m%d,bin%d)->ok=%v m%d closed=%v %s%s", opNames[i.Kind], i.Name, i.Mod, i.Bin, o.OK, o.Mod, o.Closed, o.Err, note)
	},
}

func toPorcupine(h []histOp) []porcupine.Operation {
	var ops []porcupine.Operation
	for _, o := range h {
		ops = append(ops, porcupine.Operation{ClientId: o.client, Input: o.in, Call: o.call, Output: o.out, Return: o.ret})
	}
	return ops
}

// relax rewrites the history for the two-phase-close model: every module
// close and runtime close becomes a flag and a release operation over the same
// interval, and release operations of overlapping closes of the same module
// (or of any close overlapping a runtime close) share the latest return stamp.
func relax(h []histOp) []histOp {
	var out []histOp
	type span struct{ idx int }
	var closers []int // indices in out of release ops
	for _, o := range h {
		switch o.in.Kind {
		case opClose:
			f, r := o, o
			f.in.Kind, r.in.Kind = opCloseFlag, opCloseRelease
			out = append(out, f, r)
			closers = append(closers, len(out)-1)
		case opRtClose:
			f, r := o, o
			f.in.Kind, r.in.Kind = opRtFlag, opRtRelease
			out = append(out, f, r)
			closers = append(closers, len(out)-1)
		default:
			out = append(out, o)
		}
	}
	// merge overlapping intervals among closers that concern the same module (a runtime close concerns all)
	same := func(a, b histOp) bool {
		return a.in.Kind == opRtRelease || b.in.Kind == opRtRelease || a.in.Mod == b.in.Mod
	}
	changed := true
	for changed {
		changed = false
		for _, i := range closers {
			for _, j := range closers {
				if i == j || !same(out[i], out[j]) {
					continue
				}
				a, b := out[i], out[j]
				if a.call <= b.ret && b.call <= a.ret && a.ret < b.ret {
					out[i].ret = b.ret
					changed = true
				}
			}
		}
	}
	return out
}

// shortStack: the wazero frames of the current (panicking) goroutine's stack, innermost first.
func shortStack() string {
	var out []string
	for _, ln := range strings.Split(string(debug.Stack()), "\n") {
		if strings.Contains(ln, "github.com/tetratelabs/wazero") && strings.Contains(ln, ".go:") {
			ln = strings.TrimSpace(ln)
			if i := strings.LastIndex(ln, "/"); i >= 0 {
				ln = ln[i+1:]
			}
			if j := strings.Index(ln, " "); j >= 0 {
				ln = ln[:j]
			}
			out = append(out, ln)
		}
		if len(out) >= 6 {
			break
		}
	}
	return strings.Join(out, " < ")
}

type nopListener struct{}

func (nopListener) Before(context.Context, api.Module, api.FunctionDefinition, []uint64, experimental.StackIterator) {
}
func (nopListener) After(context.Context, api.Module, api.FunctionDefinition, []uint64) {}
func (nopListener) Abort(context.Context, api.Module, api.FunctionDefinition, error)    {}

// ---- the run

var (
	binA = func() []byte {
		m := &wasmb.Module{}
		c := &wasmb.Code{}
		c.I32Const(1)
		m.AddFunc(nil, []wasmb.ValType{wasmb.I32}, nil, c.B, "one")
		return m.Encode()
	}()
	// binBT: a memory and an exported table (instantiation records the instance with the table) and NO
	// other export: wazero walks the exports in map order, and every statement of that loop is a yield point
	binBT = func() []byte {
		m := &wasmb.Module{Mem: &wasmb.Limits{Min: 1}}
		m.Tables = []wasmb.Table{{Elem: wasmb.FuncRef, Lim: wasmb.Limits{Min: 2}}}
		m.Exports = append(m.Exports, wasmb.Export{Name: "tab", Kind: wasmb.KindTable, Idx: 0})
		return m.Encode()
	}()
	binB = func() []byte {
		m := &wasmb.Module{Mem: &wasmb.Limits{Min: 1}}
		c := &wasmb.Code{}
		c.I32Const(2)
		m.AddFunc(nil, []wasmb.ValType{wasmb.I32}, nil, c.B, "two")
		return m.Encode()
	}()
	binC = func() []byte {
		m := &wasmb.Module{}
		c := &wasmb.Code{}
		c.I32Const(3)
		m.AddFunc(nil, []wasmb.ValType{wasmb.I32}, nil, c.B, "three")
		return m.Encode()
	}()
)

// binD imports xh.boom and exports three start functions s1..s3 = boom(1..3)
var binD = func() []byte {
	m := &wasmb.Module{}
	ti := m.AddType([]wasmb.ValType{wasmb.I32}, nil)
	m.Imports = append(m.Imports, wasmb.Import{Module: "xh", Name: "boom", Kind: wasmb.KindFunc, TypeIdx: ti})
	for k := int32(1); k <= 3; k++ {
		c := &wasmb.Code{}
		c.I32Const(k).Call(0)
		m.AddFunc(nil, nil, nil, c.B, fmt.Sprintf("s%d", k))
	}
	return m.Encode()
}()

// binE has a START-SECTION function that calls xh.boom(4) (which only yields) and returns, and a memory of
// its own (allocated by a counting allocator): whatever happens around its instantiation -- a runtime
// close while the start function runs -- the memory is released when everything is closed.
var binE = func() []byte {
	m := &wasmb.Module{Mem: &wasmb.Limits{Min: 1, Max: 1, HasMax: true}}
	ti := m.AddType([]wasmb.ValType{wasmb.I32}, nil)
	m.Imports = append(m.Imports, wasmb.Import{Module: "xh", Name: "boom", Kind: wasmb.KindFunc, TypeIdx: ti})
	st := m.AddFunc(nil, nil, nil, (&wasmb.Code{}).I32Const(4).Call(0).B, "")
	m.Start = &st
	return m.Encode()
}()

// binG ("xg") exports hook = xh.boom(4); binF's START-SECTION function is that IMPORTED function, and binF
// has a memory of its own like binE: the call that runs at its instantiation belongs to another module.
var binG = func() []byte {
	m := &wasmb.Module{}
	ti := m.AddType([]wasmb.ValType{wasmb.I32}, nil)
	m.Imports = append(m.Imports, wasmb.Import{Module: "xh", Name: "boom", Kind: wasmb.KindFunc, TypeIdx: ti})
	m.AddFunc(nil, nil, nil, (&wasmb.Code{}).I32Const(4).Call(0).B, "hook")
	return m.Encode()
}()

var binF = func() []byte {
	m := &wasmb.Module{Mem: &wasmb.Limits{Min: 1, Max: 1, HasMax: true}}
	ti := m.AddType(nil, nil)
	m.Imports = append(m.Imports, wasmb.Import{Module: "xg", Name: "hook", Kind: wasmb.KindFunc, TypeIdx: ti})
	st := uint32(0)
	m.Start = &st
	return m.Encode()
}()

// binH has a START-SECTION function that calls xh.boom(6), which yields and then fails: the instantiation
// fails for a reason of its own, after other clients had their turns; it never owned its name.
var binH = func() []byte {
	m := &wasmb.Module{}
	ti := m.AddType([]wasmb.ValType{wasmb.I32}, nil)
	m.Imports = append(m.Imports, wasmb.Import{Module: "xh", Name: "boom", Kind: wasmb.KindFunc, TypeIdx: ti})
	st := m.AddFunc(nil, nil, nil, (&wasmb.Code{}).I32Const(6).Call(0).B, "")
	m.Start = &st
	return m.Encode()
}()

const knownCompiledErr = "source module must be compiled before instantiation"

type planOp struct {
	kind opKind
	name string
	bin  int
	code uint32
	pick int  // index into held handles
	look bool // close/isClosed a looked-up handle instead of a held one
	// handed: close/isClosed the module a start-section function handed out (the instance being built)
	handed bool
	// start > 0: instantiate binD with a configured start function that fails after the instance was
	// registered: 1 = a host function raises sys.ExitError(3) (the instance itself did not exit),
	// 2 = the same with exit code 0 (InstantiateModule then returns the closed module and no error), 3 = panic
	start int
}

// contextClose: the asynchronous close path (close-on-context-done watcher,
// resources released by a later FailIfClosed): the module must end up closed,
// unregistered, its name reusable, and notified exactly once however many
// further calls, explicit closes and runtime closes follow.
func contextClose(t *tape.Tape, cfg sim.Config) (res sim.Result) {
	ctx := context.Background()
	var rc wazero.RuntimeConfig
	if cfg.Engine == "interpreter" {
		rc = wazero.NewRuntimeConfigInterpreter()
	} else {
		rc = wazero.NewRuntimeConfigCompiler()
	}
	rt := wazero.NewRuntimeWithConfig(ctx, rc.WithCloseOnContextDone(true))
	defer rt.Close(ctx)
	var mod api.Module
	k := 1 + t.Choose(4)
	calls := 0
	var cancel context.CancelFunc
	var closers gosync.WaitGroup
	regName, stuckInHost := "", false
	cause := t.Choose(3)
	panicAfter := t.Chance(1, 3)
	overflowAfter := !panicAfter && t.Chance(1, 4)
	_, err := rt.NewHostModuleBuilder("env").NewFunctionBuilder().WithFunc(func() {
		calls++
		if calls == k {
			switch cause {
			case 0:
				cancel()
			case 1:
				closers.Add(1)
				go func() { defer closers.Done(); mod.CloseWithExitCode(ctx, 3) }()
			case 2:
				cancel()
				closers.Add(1)
				go func() { defer closers.Done(); mod.Close(ctx) }()
			}
			for i := 0; i < 200000 && !mod.IsClosed(); i++ {
				time.Sleep(20 * time.Microsecond)
			}
			// the call is still inside this host function: the closed module's name must be released without
			// waiting for the call to come back (two-phase close: allow the watcher a bounded time)
			if regName != "" && mod.IsClosed() {
				for i := 0; i < 100000 && rt.Module(regName) != nil; i++ {
					time.Sleep(20 * time.Microsecond)
				}
				if rt.Module(regName) != nil {
					stuckInHost = true
				}
			}
			if panicAfter {
				// the cancelled call ends with an error of its own instead of reaching the next exit check
				panic("host function fails after the module was closed under it")
			}
		}
	}).Export("tick").Instantiate(ctx)
	if err != nil {
		panic(err)
	}
	// an owner instance exports a memory allocated by a counting custom allocator; the spinning module
	// imports it: releasing the importer's resources (possibly several times, on the deferred path) must
	// not free the owner's memory
	var frees atomic.Int64
	actx := experimental.WithMemoryAllocator(ctx, experimental.MemoryAllocatorFunc(func(cap, max uint64) experimental.LinearMemory {
		return &countingMem{frees: &frees}
	}))
	om := &wasmb.Module{Mem: &wasmb.Limits{Min: 1, Max: 2, HasMax: true}}
	om.Exports = append(om.Exports, wasmb.Export{Name: "mem", Kind: wasmb.KindMemory, Idx: 0})
	om.AddFunc(nil, []wasmb.ValType{wasmb.I32}, nil, (&wasmb.Code{}).I32Const(0).I32Load(0).B, "peek")
	ocm, err := rt.CompileModule(actx, om.Encode())
	if err != nil {
		panic(err)
	}
	owner, err := rt.InstantiateModule(actx, ocm, wazero.NewModuleConfig().WithName("own"))
	if err != nil {
		panic(err)
	}
	m := &wasmb.Module{}
	tick := m.ImportFunc("env", "tick", nil, nil)
	m.Imports = append(m.Imports, wasmb.Import{Module: "own", Name: "mem", Kind: wasmb.KindMemory, Mem: wasmb.Limits{Min: 1, Max: 2, HasMax: true}})
	m.AddFunc(nil, nil, nil, (&wasmb.Code{}).Loop(wasmb.BlockVoid).Call(tick).Br(0).End().B, "spin")
	m.AddFunc(nil, []wasmb.ValType{wasmb.I32}, nil, (&wasmb.Code{}).I32Const(5).B, "five")
	// dive: tick(); dive() -- recursion without a loop: after the module was closed under it the call goes on
	// until the stack is exhausted and ends with THAT error
	m.AddFunc(nil, nil, nil, (&wasmb.Code{}).Call(tick).Call(3).B, "dive")
	cm, err := rt.CompileModule(ctx, m.Encode())
	if err != nil {
		panic(err)
	}
	// optionally an importer of the owner's memory whose start function traps: the failed instantiation
	// must leave nothing behind that keeps the owner's memory from being released with the owner
	failedImporter := t.Choose(8) // 1: fails on an out-of-bounds data segment, 2: its start function traps, 3: a LATER import of it does not resolve
	if failedImporter > 3 {
		failedImporter = 0
	}
	if failedImporter > 0 {
		fm := &wasmb.Module{}
		fm.Imports = append(fm.Imports, wasmb.Import{Module: "own", Name: "mem", Kind: wasmb.KindMemory, Mem: wasmb.Limits{Min: 1, Max: 2, HasMax: true}})
		if failedImporter == 3 {
			// the memory import resolves, the next import (same module, no such export) does not
			fm.ImportFunc("own", "nosuch", nil, nil)
		} else if failedImporter == 1 {
			fm.Datas = []wasmb.Data{{Offset: wasmb.ConstI32(0x7ffffff0), Bytes: []byte{1}}}
		} else {
			st := fm.AddFunc(nil, nil, nil, (&wasmb.Code{}).Unreachable().B, "")
			fm.Start = &st
		}
		if _, err := rt.InstantiateWithConfig(ctx, fm.Encode(), wazero.NewModuleConfig().WithName("failing")); err == nil {
			panic("harness: the importer was meant to fail its instantiation")
		}
		res.Stat("fault.failed_importer_of_the_shared_memory", 1)
	}
	var notifiedN atomic.Int64
	// the notification handler may itself use the module being closed (a call, which must fail)
	reenter := t.Chance(1, 3)
	nctx := experimental.WithCloseNotifier(ctx, experimental.CloseNotifyFunc(func(context.Context, uint32) {
		if notifiedN.Add(1) == 1 && reenter && mod != nil {
			if _, err := mod.ExportedFunction("five").Call(ctx); err == nil {
				res.Fail("not-closed", "a call on the module from inside its own close notification succeeded")
			}
		}
	}))
	name := tape.Pick(t, []string{"a", ""})
	regName = name
	mod, err = rt.InstantiateModule(nctx, cm, wazero.NewModuleConfig().WithName(name))
	if err != nil {
		panic(err)
	}
	var cctx context.Context
	cctx, cancel = context.WithCancel(ctx)
	defer cancel()
	entry := "spin"
	if overflowAfter {
		entry = "dive"
		res.Stat("probe.cancelled_call_ends_by_exhausting_the_stack", 1)
	}
	_, callErr := mod.ExportedFunction(entry).Call(cctx)
	// (which of two racing closers wins decides the exit code: not logged, the trace must be deterministic)
	res.Logf("cause=%d k=%d name=%q: spin returned an error=%v", cause, k, name, callErr != nil)
	if callErr == nil {
		res.Fail("not-closed", "the spinning call returned without error")
		return
	}
	if stuckInHost {
		res.Fail("closed-module-still-registered", "cause %d: while the cancelled call was still inside a host function, lookup(%q) kept returning the closed module for 2 s", cause, name)
		return
	}
	// several goroutines use the closed module at the same moment (the release deferred to the first later
	// use must happen once)
	if t.Chance(1, 2) {
		var wg gosync.WaitGroup
		start := make(chan struct{})
		for g := 0; g < 4; g++ {
			wg.Add(1)
			go func() {
				defer wg.Done()
				<-start
				mod.ExportedFunction("five").Call(ctx)
			}()
		}
		close(start)
		wg.Wait()
	}
	// later use of the closed module: every call must fail, nothing may re-notify
	for i := t.Choose(4); i > 0; i-- {
		switch t.Choose(3) {
		case 0:
			if _, err := mod.ExportedFunction("five").Call(ctx); err == nil {
				res.Fail("not-closed", "a call on the closed module succeeded")
				return
			}
		case 1:
			mod.Close(ctx)
		case 2:
			mod.CloseWithExitCode(ctx, 9)
		}
	}
	if !mod.IsClosed() {
		res.Fail("not-closed", "module not closed after cause %d", cause)
		return
	}
	closers.Wait() // explicit closers have returned
	if name != "" {
		// The watcher goroutine sets the closed flag before it releases the
		// name (the recorded two-phase close); it cannot be joined, so allow
		// it a generous bounded time before calling the name stuck.
		for i := 0; i < 100000 && rt.Module(name) != nil; i++ {
			time.Sleep(20 * time.Microsecond)
		}
		if rt.Module(name) != nil {
			res.Fail("closed-module-still-registered", "lookup(%q) still returns the module closed through the context 2 s after the call returned", name)
			return
		}
		m2, err := rt.InstantiateModule(ctx, cm, wazero.NewModuleConfig().WithName(name))
		if err != nil {
			res.Fail("name-not-released", "the name %q of the module closed through the context cannot be taken again: %v", name, err)
			return
		}
		m2.Close(ctx)
	}
	// the owner of the imported memory is still open: its buffer must not have been freed
	if n := frees.Load(); n != 0 {
		res.Fail("shared-resource-released", "closing the importing module (cause %d, then %d further uses) freed the memory of the still-open exporting module %d time(s)", cause, calls, n)
		return
	}
	if _, err := owner.ExportedFunction("peek").Call(ctx); err != nil {
		res.Fail("shared-resource-released", "the exporting module cannot read its memory after the importer was closed: %v", err)
		return
	}
	owner.Close(ctx)
	if n := frees.Load(); n == 0 && failedImporter == 2 {
		// recorded known finding: an importer whose START FUNCTION failed never gives its use of the memory
		// back (the start function may have stored references to its functions anywhere)
		res.Known = append(res.Known, "failed-importer-pins-exporters-allocator-memory")
	} else if n != 1 {
		res.Fail("shared-resource-released", "after the exporting module was closed too, its custom-allocator memory was freed %d times (expected exactly once)", n)
		return
	}
	if t.Chance(1, 2) {
		rt.Close(ctx)
	}
	closers.Wait() // the closing goroutines have returned: the notification is due
	if notified := notifiedN.Load(); notified != 1 {
		res.Fail("close-notification-count", "the module closed through cause %d was notified %d times (expected exactly once)", cause, notified)
		return
	}
	res.Nontrivial = true
	res.Shape = sim.ShapeOf(fmt.Sprint(cause, k, name))
	res.Steps = int64(calls)
	res.Sample = res.Trace
	return
}

// countingMem is a trivial custom allocator that counts Free calls.
type countingMem struct {
	buf   []byte
	frees *atomic.Int64
}

func (m *countingMem) Reallocate(size uint64) []byte {
	nb := make([]byte, size)
	copy(nb, m.buf)
	m.buf = nb
	return nb
}
func (m *countingMem) Free() { m.frees.Add(1) }

func firstLine(err error) string {
	if err == nil {
		return "<nil>"
	}
	return strings.SplitN(err.Error(), "\n", 2)[0]
}

func (c10) Run(t *tape.Tape, cfg sim.Config) (res sim.Result) {
	switch cfg.Class {
	case "context-close":
		return contextClose(t, cfg)
	case "registry-large":
		return registryLarge(t, cfg)
	case "resources":
		return resourcesRelease(t, cfg)
	case "async-close-concurrent":
		return asyncCloseConcurrent(t, cfg)
	case "async-close-finishing":
		return asyncCloseFinishing(t, cfg)
	}
	ctx := context.Background()
	var rc wazero.RuntimeConfig
	if cfg.Engine == "interpreter" {
		rc = wazero.NewRuntimeConfigInterpreter()
	} else {
		rc = wazero.NewRuntimeConfigCompiler()
	}
	rt := wazero.NewRuntimeWithConfig(ctx, rc)
	defer rt.Close(ctx)
	bins := [][]byte{binA, binB, binC}
	if cfg.Class == "registry" {
		bins[1] = binBT
	}
	lctx := experimental.WithFunctionListenerFactory(ctx, experimental.FunctionListenerFactoryFunc(func(api.FunctionDefinition) experimental.FunctionListener {
		return nopListener{}
	}))
	withHandles := cfg.Class == "compiled-handles"
	shared := make([]wazero.CompiledModule, 2)
	for i := 0; i < 2; i++ {
		cctx := ctx
		if withHandles {
			// the same listener selection as the clients' compilations: one engine entry behind all handles
			cctx = lctx
		}
		cm, err := rt.CompileModule(cctx, bins[i])
		if err != nil {
			panic(err)
		}
		shared[i] = cm
	}
	// failing start functions: the instance is registered, its start function reaches the host function
	// below (which stamps the history: the registration lies before the stamp, the close after it) and fails
	type transient struct {
		mod       api.Module
		mid, mid2 int64
	}
	var seq int64
	transients := map[int]*transient{} // by task id
	var cmD, cmE, cmF, cmH wazero.CompiledModule
	var handedOut api.Module // the instance a start-section function handed out last
	var memAllocs, memFrees atomic.Int64
	if !withHandles {
		if _, err := rt.NewHostModuleBuilder("xh").NewFunctionBuilder().WithFunc(func(_ context.Context, mod api.Module, kind uint32) {
			if cur := simrt.Current(); cur != nil {
				seq += 2
				transients[cur.ID] = &transient{mod: mod, mid: seq - 1, mid2: seq}
			}
			switch kind {
			case 1:
				panic(sys.NewExitError(3))
			case 2:
				panic(sys.NewExitError(0))
			case 6:
				// (a start-section function that fails after giving the others a turn)
				if cur := simrt.Current(); cur != nil {
					delete(transients, cur.ID)
				}
				simrt.Yield("host.start-section")
				simrt.Yield("host.start-section")
				panic("boom-start-section")
			case 4:
				// (a start-section function: it returns normally after giving the others a turn)
				if cur := simrt.Current(); cur != nil {
					delete(transients, cur.ID)
				}
				if mod.Name() != "xg" {
					handedOut = mod // the instance being built: somebody else may use the handle
				}
				for y := 0; y < 6; y++ {
					simrt.Yield("host.start-section")
				}
				return
			}
			panic("boom")
		}).Export("boom").Instantiate(ctx); err != nil {
			panic(err)
		}
		var err error
		if cmD, err = rt.CompileModule(ctx, binD); err != nil {
			panic(err)
		}
		if cmE, err = rt.CompileModule(ctx, binE); err != nil {
			panic(err)
		}
		if _, err = rt.InstantiateWithConfig(ctx, binG, wazero.NewModuleConfig().WithName("xg")); err != nil {
			panic(err)
		}
		if cmF, err = rt.CompileModule(ctx, binF); err != nil {
			panic(err)
		}
		if cmH, err = rt.CompileModule(ctx, binH); err != nil {
			panic(err)
		}
	}
	names := []string{"", "a", "b"}
	nclients := t.Range(2, 4)
	plans := make([][]planOp, nclients)
	for c := range plans {
		n := t.Range(2, 6)
		for i := 0; i < n; i++ {
			var k opKind
			if withHandles {
				k = opKind(t.Weighted(8, 5, 6, 3, 1, 3, 3, 1))
			} else {
				k = opKind(t.Weighted(8, 6, 7, 4, 1, 1, 1, 2))
			}
			p := planOp{kind: k, name: tape.Pick(t, names), bin: t.Choose(2), code: uint32(t.Choose(4)), pick: t.Choose(8), look: t.Chance(1, 3)}
			if k == opInstHost {
				p.name = tape.Pick(t, []string{"a", "b", "hostm"})
			}
			if k == opInst && !withHandles && t.Chance(1, 4) {
				p.start = 1 + t.Choose(6)
			}
			if (k == opCompile || k == opCloseCompiled) && !withHandles {
				p.bin = 2 // a binary nobody instantiates
			}
			plans[c] = append(plans[c], p)
		}
	}
	// focus: two clients begin with an instantiation whose start-section function yields, a third with a
	// runtime close: the start functions overlap, finish in either order, and the close falls before,
	// between or after
	if !withHandles && nclients >= 3 && t.Chance(1, 5) {
		plans[0] = append([]planOp{{kind: opInst, name: tape.Pick(t, names), bin: t.Choose(2), start: 4 + t.Choose(2)}}, plans[0]...)
		plans[1] = append([]planOp{{kind: opInst, name: tape.Pick(t, names), bin: t.Choose(2), start: 4 + t.Choose(2)}}, plans[1]...)
		if t.Chance(1, 2) {
			// ... or with closes of the handle the first start function handed out (the instance being built):
			// during its start function, right after it, after it was registered
			plans[0][0].start = 4
			plans[2] = append([]planOp{{kind: opClose, handed: true, code: uint32(t.Choose(3))}, {kind: opClose, handed: true}}, plans[2]...)
			res.Stat("probe.focus_close_of_the_instance_handed_out_by_its_start_function", 1)
		} else {
			plans[2] = append([]planOp{{kind: opRtClose, code: uint32(t.Choose(4))}}, plans[2]...)
		}
		res.Stat("probe.focus_two_start_section_instantiations_and_a_runtime_close", 1)
	}
	// faults with workload: an instantiation whose start-section function yields is paired with ANOTHER
	// one (same name or not) in another client, so that start functions overlap and finish in any order
	for c := range plans {
		done := false
		for _, p := range plans[c] {
			if p.start >= 4 && !withHandles && t.Chance(2, 3) {
				o := (c + 1 + t.Choose(nclients-1)) % nclients
				at := t.Choose(len(plans[o]) + 1)
				q := planOp{kind: opInst, name: p.name, bin: t.Choose(2), start: 4 + t.Choose(3)}
				if t.Chance(1, 3) {
					q.name = tape.Pick(t, names)
				}
				plans[o] = append(plans[o][:at], append([]planOp{q}, plans[o][at:]...)...)
				done = true
				break
			}
		}
		if done {
			break
		}
	}
	// faults with workload: an instantiation whose start-section function yields is paired with a runtime
	// close by another client (half of the time)
	for c := range plans {
		for _, p := range plans[c] {
			if p.start >= 4 && t.Chance(1, 2) {
				o := (c + 1 + t.Choose(nclients-1)) % nclients
				at := t.Choose(len(plans[o]) + 1)
				plans[o] = append(plans[o][:at], append([]planOp{{kind: opRtClose, code: uint32(t.Choose(4))}}, plans[o][at:]...)...)
				break
			}
		}
	}
	// scheduling policy
	policy := t.Choose(3)
	prob := []int{4, 16, 48}[t.Choose(3)]
	var changePts map[int]bool
	if policy == 1 {
		changePts = map[int]bool{}
		for d := 1 + t.Choose(3); d > 0; d-- {
			changePts[t.Choose(500)] = true
		}
	}
	yieldNo := 0
	choose := func(en []*simrt.Task, cur *simrt.Task, site string) int {
		yieldNo++
		if cur == nil { // start / a task finished
			return t.Choose(len(en))
		}
		switch policy {
		case 0:
			if t.Chance(1, prob) {
				return 1 + t.Choose(len(en)-1)
			}
			return 0
		case 1:
			if changePts[yieldNo] {
				return 1 + t.Choose(len(en)-1)
			}
			return 0
		}
		return 0
	}

	// shared harness state (only the baton holder touches it)
	handedClosed := false
	var hist []histOp
	ids := map[api.Module]int{}
	nextID := 0
	idOf := func(m api.Module) int {
		if m == nil {
			return 0
		}
		if id, ok := ids[m]; ok {
			return id
		}
		nextID++
		ids[m] = nextID
		return nextID
	}
	notifyCount := map[int]*int{} // by instantiate op serial
	modNotify := map[int]*int{}   // by module id
	var panics []string
	moduleCloser := map[api.Module]int{}  // module -> task id + 1 of the task inside a module-level Close of it
	var stillRegisteredAtNotify []string  // names found still registered while their close notification ran
	closedCompiledBins := map[int]int64{} // bin -> earliest call stamp of a compiled-handle close

	type clientState struct {
		mods     []api.Module
		compiled []wazero.CompiledModule
		cbin     []int
	}
	clients := make([]*clientState, nclients)
	for i := range clients {
		clients[i] = &clientState{}
	}
	startFailures, startSections := 0, 0
	doOp := func(c int, p planOp) {
		cs := clients[c]
		in := input{Kind: p.kind, Name: p.name, Bin: p.bin, Code: p.code}
		var out output
		// resolve handle arguments before the invocation stamp
		var target api.Module
		var tcm wazero.CompiledModule
		switch p.kind {
		case opClose, opIsClosed:
			if p.handed {
				target = handedOut
				if target != nil && p.kind == opClose {
					handedClosed = true
				}
			} else if p.look {
				target = rt.Module(tape.Pick(t, []string{"a", "b"}))
			} else if len(cs.mods) > 0 {
				target = cs.mods[p.pick%len(cs.mods)]
			}
			if target == nil {
				return
			}
			in.Mod = idOf(target)
		case opCloseCompiled:
			if len(cs.compiled) == 0 {
				return
			}
			i := p.pick % len(cs.compiled)
			tcm = cs.compiled[i]
			in.Bin = cs.cbin[i]
			cs.compiled = append(cs.compiled[:i], cs.compiled[i+1:]...)
			cs.cbin = append(cs.cbin[:i], cs.cbin[i+1:]...)
		}
		simrt.Yield("client.invoke")
		seq++
		call := seq
		func() {
			defer func() {
				if r := recover(); r != nil {
					panics = append(panics, fmt.Sprintf("client %d %s(%q) panicked: %v [%s]", c, opNames[p.kind], p.name, r, shortStack()))
					out.Err = fmt.Sprint("panic: ", r)
				}
			}()
			switch p.kind {
			case opInst:
				cnt := new(int)
				var self api.Module
				selfName := p.name
				nctx := experimental.WithCloseNotifier(ctx, experimental.CloseNotifyFunc(func(context.Context, uint32) {
					*cnt++
					// When the notification comes from a module-level Close issued by the task that is
					// running now, the close is announced: the name must already be released (an observer
					// reacting to the notification must be able to look up / re-instantiate the name).
					// (Not checked under Runtime.Close: the store's lock is held by the closer there.)
					if cur := simrt.Current(); cur != nil && self != nil && selfName != "" && moduleCloser[self] == cur.ID+1 {
						if rt.Module(selfName) == self {
							stillRegisteredAtNotify = append(stillRegisteredAtNotify, selfName)
						}
					}
				}))
				var mod api.Module
				var err error
				if p.start == 6 {
					mod, err = rt.InstantiateModule(nctx, cmH, wazero.NewModuleConfig().WithName(p.name))
					startSections++
					res.Stat("probe.instantiations_whose_start_section_function_fails_after_yielding", 1)
					if err == nil {
						res.Fail("start-failure-result", "client %d: instantiate(%q) whose start-section function panics returned no error", c, p.name)
					} else if strings.Contains(err.Error(), "boom-start-section") {
						out.OwnFailure = true
					}
				} else if p.start >= 4 {
					actx := experimental.WithMemoryAllocator(nctx, experimental.MemoryAllocatorFunc(func(cap, max uint64) experimental.LinearMemory {
						memAllocs.Add(1)
						return &countingMem{frees: &memFrees}
					}))
					if p.start == 5 {
						// the start-section function is an imported one
						mod, err = rt.InstantiateModule(actx, cmF, wazero.NewModuleConfig().WithName(p.name))
						res.Stat("probe.instantiations_whose_start_section_function_is_imported", 1)
					} else {
						mod, err = rt.InstantiateModule(actx, cmE, wazero.NewModuleConfig().WithName(p.name))
					}
					if err != nil && handedClosed && strings.Contains(err.Error(), "closed with exit_code") {
						// closed by another client through the handle its start function handed out: a failure for a
						// reason of its own; it never owned its name
						out.OwnFailure = true
					}
					startSections++
				} else if p.start > 0 {
					cur := simrt.Current()
					delete(transients, cur.ID)
					mod, err = rt.InstantiateModule(nctx, cmD, wazero.NewModuleConfig().WithName(p.name).WithStartFunctions(fmt.Sprintf("s%d", p.start)))
					if tr := transients[cur.ID]; tr != nil {
						// registered, started, failed: an instantiation that succeeded before the stamp and a
						// close after it; whatever else is returned, the instance is closed and its name free
						delete(transients, cur.ID)
						id := idOf(tr.mod)
						modNotify[id] = cnt
						notifyCount[len(notifyCount)] = cnt
						if (p.start == 2) != (err == nil) || (p.start == 2 && mod != tr.mod) {
							res.Fail("start-failure-result", "client %d: instantiate(%q) with a start function failing by %s returned (%v, %v)", c, p.name, []string{"", "exit(3)", "exit(0)", "panic"}[p.start], mod != nil, firstLine(err))
						}
						if err == nil {
							cs.mods = append(cs.mods, mod)
						}
						in.Note = " [registered; its start function then failed in a host function, next line]"
						hist = append(hist, histOp{client: c, in: in, out: output{OK: true, Mod: id}, call: call, ret: tr.mid})
						in = input{Kind: opClose, Mod: id, Note: " [InstantiateModule closes the instance whose start function failed]"}
						out = output{OK: true}
						call = tr.mid2
						startFailures++
						return
					}
				} else {
					mod, err = rt.InstantiateModule(nctx, shared[p.bin], wazero.NewModuleConfig().WithName(p.name))
				}
				if err == nil {
					self = mod
					out.OK, out.Mod = true, idOf(mod)
					cs.mods = append(cs.mods, mod)
					modNotify[out.Mod] = cnt
				} else {
					out.Err = err.Error()
					if strings.Contains(out.Err, knownCompiledErr) {
						out.MayFailKnown = true
					}
				}
				notifyCount[len(notifyCount)] = cnt
			case opInstHost:
				cnt := new(int)
				nctx := experimental.WithCloseNotifier(ctx, experimental.CloseNotifyFunc(func(context.Context, uint32) { *cnt++ }))
				mod, err := rt.NewHostModuleBuilder(p.name).NewFunctionBuilder().
					WithFunc(func() uint32 { return 7 }).Export("seven").Instantiate(nctx)
				if err == nil {
					out.OK, out.Mod = true, idOf(mod)
					cs.mods = append(cs.mods, mod)
					modNotify[out.Mod] = cnt
				} else {
					out.Err = err.Error()
				}
				notifyCount[len(notifyCount)] = cnt
			case opLookup:
				out.OK = true
				out.Mod = idOf(rt.Module(p.name))
			case opClose:
				var err error
				if cur := simrt.Current(); cur != nil {
					moduleCloser[target] = cur.ID + 1
					defer delete(moduleCloser, target)
				}
				if p.code == 0 {
					err = target.Close(ctx)
				} else {
					err = target.CloseWithExitCode(ctx, p.code)
				}
				out.OK = err == nil
				if err != nil {
					out.Err = err.Error()
				}
			case opIsClosed:
				out.OK, out.Closed = true, target.IsClosed()
			case opRtClose:
				var err error
				if p.code == 0 {
					err = rt.Close(ctx)
				} else {
					err = rt.CloseWithExitCode(ctx, p.code)
				}
				out.OK = err == nil
				if err != nil {
					out.Err = err.Error()
				}
			case opCompile:
				cctx := ctx
				if withHandles {
					// with a listener factory (every client the same selection: the compilations share one
					// engine entry), and the fresh handle is used at once: instantiate anonymously, call
					cctx = lctx
				}
				cm, err := rt.CompileModule(cctx, bins[p.bin])
				if err == nil {
					out.OK = true
					cs.compiled = append(cs.compiled, cm)
					cs.cbin = append(cs.cbin, p.bin)
					if withHandles {
						if m, ierr := rt.InstantiateModule(cctx, cm, wazero.NewModuleConfig().WithName("")); ierr == nil {
							fn := []string{"one", "two", "three"}[p.bin]
							if r, cerr := m.ExportedFunction(fn).Call(cctx); cerr == nil && r[0] != uint64(p.bin+1) {
								res.Fail("wrong-result", "client %d: %s() of a freshly compiled and instantiated module returned %d", c, fn, r[0])
							} else if cerr != nil && (strings.Contains(cerr.Error(), "runtime error") || strings.Contains(cerr.Error(), "nil pointer")) {
								panics = append(panics, fmt.Sprintf("client %d: calling %s() of a freshly compiled and instantiated module failed internally: %v", c, fn, strings.SplitN(cerr.Error(), "\n", 2)[0]))
							}
							m.Close(cctx)
						}
					}
				} else {
					out.Err = err.Error()
				}
			case opCloseCompiled:
				if _, ok := closedCompiledBins[in.Bin]; !ok {
					closedCompiledBins[in.Bin] = call
				}
				err := tcm.Close(ctx)
				out.OK = err == nil
				if err != nil {
					out.Err = err.Error()
				}
			}
		}()
		seq++
		hist = append(hist, histOp{client: c, in: in, out: out, call: call, ret: seq})
		for _, cnt := range notifyCount {
			if *cnt > 1 {
				res.Fail("close-notified-twice", "a module's close notification fired %d times", *cnt)
			}
		}
	}
	var fns []func()
	for c := range plans {
		c := c
		fns = append(fns, func() {
			for _, p := range plans[c] {
				doOp(c, p)
			}
		})
	}
	s := simrt.Run(choose, 6000, true, fns...)
	res.Steps = int64(s.Yields)
	res.Stat("probe.task_switches", int64(s.Switches))
	res.Stat("probe.yields", int64(s.Yields))
	res.Stat("probe.policy_"+[]string{"uniform", "pct", "sequential"}[policy], 1)
	res.Stat("probe.instantiations_failing_in_a_start_function_after_registration", int64(startFailures))
	res.Stat("probe.instantiations_with_a_start_section_function_yielding", int64(startSections))
	res.Nontrivial = s.Switches > 0
	res.Shape = sim.ShapeOf(s.Trace...)
	for _, o := range hist {
		res.Logf("c%d [%d,%d] %s", o.client, o.call, o.ret, model.DescribeOperation(o.in, o.out))
	}
	if len(s.Trace) > 0 {
		tr := s.Trace
		if len(tr) > 40 {
			tr = tr[:40]
		}
		res.Logf("switches: %s", strings.Join(tr, " "))
	}
	smp := res.Trace
	if len(smp) > 16 {
		smp = smp[:16]
	}
	res.Sample = smp
	if res.Violation != nil {
		return
	}
	if s.Deadlock {
		res.Fail("deadlock", "%s", s.DeadlockInfo)
		return
	}
	if s.DeadlockInfo != "" {
		res.Fail("client-panic", "%s", s.DeadlockInfo)
		return
	}
	if len(panics) > 0 {
		res.Fail("panic-instead-of-error", "%s", panics[0])
		return
	}
	if len(s.Unguarded) > 0 {
		res.Fail("unguarded-shared-state", "with %d clients running, a task touched state documented as guarded by a mutex while nobody held that mutex: %v", nclients, s.Unguarded)
		return
	}
	if len(stillRegisteredAtNotify) > 0 {
		res.Fail("notified-before-name-released", "the close notification of module %q ran (from its own Close call) while the name still resolved to the closed module", stillRegisteredAtNotify[0])
		return
	}
	// final sequential probe (simulation inactive): goes into the history
	probe := func(in input, f func() output) {
		seq++
		call := seq
		out := f()
		seq++
		hist = append(hist, histOp{client: 99, in: in, out: out, call: call, ret: seq})
	}
	for _, n := range []string{"a", "b"} {
		n := n
		probe(input{Kind: opLookup, Name: n}, func() output { return output{OK: true, Mod: idOf(rt.Module(n))} })
		var pm api.Module
		probe(input{Kind: opInst, Name: n, Bin: 0}, func() output {
			cnt := new(int)
			nctx := experimental.WithCloseNotifier(ctx, experimental.CloseNotifyFunc(func(context.Context, uint32) { *cnt++ }))
			mod, err := rt.InstantiateModule(nctx, shared[0], wazero.NewModuleConfig().WithName(n))
			if err != nil {
				return output{Err: err.Error(), MayFailKnown: strings.Contains(err.Error(), knownCompiledErr)}
			}
			pm = mod
			modNotify[idOf(mod)] = cnt
			return output{OK: true, Mod: idOf(mod)}
		})
		if pm != nil {
			probe(input{Kind: opLookup, Name: n}, func() output { return output{OK: true, Mod: idOf(rt.Module(n))} })
			probe(input{Kind: opClose, Mod: idOf(pm)}, func() output { return output{OK: pm.Close(ctx) == nil} })
			probe(input{Kind: opLookup, Name: n}, func() output { return output{OK: true, Mod: idOf(rt.Module(n))} })
		}
	}
	type idm struct {
		id int
		m  api.Module
	}
	var all []idm
	for m, id := range ids {
		all = append(all, idm{id, m})
	}
	sort.Slice(all, func(i, j int) bool { return all[i].id < all[j].id })
	for _, x := range all {
		m, id := x.m, x.id
		probe(input{Kind: opIsClosed, Mod: id}, func() output { return output{OK: true, Closed: m.IsClosed()} })
		if cnt := modNotify[id]; cnt != nil {
			want := 0
			if m.IsClosed() {
				want = 1
			}
			if *cnt != want {
				for id2, c2 := range modNotify {
					res.Logf("debug: m%d notify=%d", id2, *c2)
				}
				res.Fail("close-notification-count", "module m%d: IsClosed=%v but its close notification fired %d times (expected exactly %d)", id, m.IsClosed(), *cnt, want)
				return
			}
		}
	}
	// known finding 2 (engine compiled entry deleted by another handle): judged by signature.
	// A runtime close invoked before the operation returned also empties the
	// engine's table: then the failure is an ordinary "runtime is closed"
	// failure and is judged by the specification.
	rtCloseCall := int64(-1)
	for _, o := range hist {
		if o.in.Kind == opRtClose && (rtCloseCall < 0 || o.call < rtCloseCall) {
			rtCloseCall = o.call
		}
	}
	for i := range hist {
		if hist[i].out.MayFailKnown && rtCloseCall >= 0 && rtCloseCall < hist[i].ret {
			// ... unless a handle of that binary was closed before the operation returned as well: then the
			// failure has two explanations (the recorded finding, or the runtime being closed) and either is
			// accepted; demanding the runtime-close one made the later operations of such histories
			// unexplainable (thorough seed 83 run 20008)
			if first, ok := closedCompiledBins[hist[i].in.Bin]; ok && first <= hist[i].ret {
				continue
			}
			hist[i].out.MayFailKnown = false
		}
	}
	for _, o := range hist {
		if o.out.MayFailKnown {
			first, ok := closedCompiledBins[o.in.Bin]
			if !ok || first > o.ret {
				res.Fail("instantiate-spurious-failure", "instantiate(bin%d,%q) failed with %q although no other handle of that binary was closed before it returned", o.in.Bin, o.in.Name, o.out.Err)
				return
			}
			res.Known = appendOnce(res.Known, "compiled-entry-deleted-by-other-handle")
		}
	}
	// every allocator memory handed out is freed once the runtime is closed
	if memAllocs.Load() > 0 {
		rt.Close(ctx)
		if a, f := memAllocs.Load(), memFrees.Load(); a != f {
			res.Fail("resource-not-released", "%d instantiations with a start-section function took a memory from the allocator (some while the runtime was being closed); after every module and the runtime are closed %d of them were freed", a, f)
			return
		}
	}
	// linearizability
	strict := porcupine.CheckOperationsTimeout(model, toPorcupine(hist), 30*time.Second)
	switch strict {
	case porcupine.Ok:
		return
	case porcupine.Unknown:
		panic("harness: porcupine timed out (inconclusive)")
	}
	relaxed := porcupine.CheckOperationsTimeout(model, toPorcupine(relax(hist)), 30*time.Second)
	switch relaxed {
	case porcupine.Ok:
		res.Known = appendOnce(res.Known, "close-is-two-phase-not-atomic")
		res.Stat("probe.history_needs_two_phase_close", 1)
		return
	case porcupine.Unknown:
		panic("harness: porcupine timed out (inconclusive)")
	}
	var full []string
	for _, o := range hist {
		full = append(full, fmt.Sprintf("c%d [%d,%d] %s", o.client, o.call, o.ret, model.DescribeOperation(o.in, o.out)))
	}
	res.Fail("not-linearizable", "the history of %d operations by %d clients is not linearizable against the registry specification, even allowing two-phase close (the recorded known finding):\n%s", len(hist), nclients, strings.Join(full, "\n"))
	return
}

func appendOnce(xs []string, x string) []string {
	for _, y := range xs {
		if y == x {
			return xs
		}
	}
	return append(xs, x)
}
