//go:build instrumented

package lifecycle

import (
	"context"
	"errors"
	"fmt"
	"io/fs"
	"testing/fstest"

	"github.com/tetratelabs/wazero"
	"github.com/tetratelabs/wazero/api"
	experimentalsys "github.com/tetratelabs/wazero/experimental/sys"
	"github.com/tetratelabs/wazero/experimental/sysfs"
	"github.com/tetratelabs/wazero/imports/wasi_snapshot_preview1"
	"github.com/tetratelabs/wazero/sys"

	"verifharness/sim"
	"verifharness/tape"
	"verifharness/wasiguest"
	"verifharness/wasmb"
)

// Class registry-large: the registry with HUNDREDS of names (the store's name map and module list are
// resized as they grow and shrink): sequential histories, judged by the plain sequential registry model:
// a closed module's name does not resolve and can be taken again, an open one's resolves to it and
// cannot.
func registryLarge(t *tape.Tape, cfg sim.Config) (res sim.Result) {
	ctx := context.Background()
	var rc wazero.RuntimeConfig
	if cfg.Engine == "interpreter" {
		rc = wazero.NewRuntimeConfigInterpreter()
	} else {
		rc = wazero.NewRuntimeConfigCompiler()
	}
	rt := wazero.NewRuntimeWithConfig(ctx, rc)
	defer rt.Close(ctx)
	m := &wasmb.Module{}
	m.AddFunc(nil, []wasmb.ValType{wasmb.I32}, nil, (&wasmb.Code{}).I32Const(7).B, "seven")
	cm, err := rt.CompileModule(ctx, m.Encode())
	if err != nil {
		panic(err)
	}
	n := t.Range(180, 330)
	open := map[string]api.Module{}
	name := func(i int) string { return fmt.Sprintf("n%d", i) }
	inst := func(i int) bool {
		mod, err := rt.InstantiateModule(ctx, cm, wazero.NewModuleConfig().WithName(name(i)))
		if _, taken := open[name(i)]; taken {
			if err == nil {
				res.Fail("name-taken-twice", "instantiating under %q succeeded while an open module owns the name (%d open)", name(i), len(open))
				return false
			}
			return true
		}
		if err != nil {
			res.Fail("name-not-released", "instantiating under the free name %q failed with %d modules open: %v", name(i), len(open), err)
			return false
		}
		open[name(i)] = mod
		return true
	}
	for i := 0; i < n; i++ {
		if !inst(i) {
			return
		}
	}
	peak := len(open)
	closes := 0
	for step, nsteps := 0, t.Range(n, 2*n); step < nsteps && res.Violation == nil; step++ {
		i := t.Choose(n)
		switch t.Weighted(6, 2, 2) {
		case 0: // close (biased to walk the population down through the shrink thresholds)
			mod := open[name(i)]
			if mod == nil {
				// find the next open one
				for j := 0; j < n && mod == nil; j++ {
					i = (i + 1) % n
					mod = open[name(i)]
				}
				if mod == nil {
					continue
				}
			}
			mod.Close(ctx)
			delete(open, name(i))
			closes++
			if got := rt.Module(name(i)); got != nil {
				res.Fail("closed-module-still-registered", "after closing %q (close #%d, %d of %d still open) the name still resolves (to a module with IsClosed=%v)", name(i), closes, len(open), peak, got.IsClosed())
				return
			}
		case 1:
			if !inst(i) {
				return
			}
		case 2: // lookup
			got := rt.Module(name(i))
			want := open[name(i)]
			if (got == nil) != (want == nil) || (got != nil && got != want) {
				res.Fail("lookup-mismatch", "lookup(%q) = %v, the model has %v (%d open)", name(i), got != nil, want != nil, len(open))
				return
			}
		}
		res.Steps++
	}
	// every name: resolves iff open; closed names can be taken again
	for i := 0; i < n && res.Violation == nil; i++ {
		got, want := rt.Module(name(i)), open[name(i)]
		if (got == nil) != (want == nil) || (got != nil && got != want) {
			res.Fail("lookup-mismatch", "final sweep: lookup(%q) = %v, the model has %v", name(i), got != nil, want != nil)
			return
		}
		if want == nil && !inst(i) {
			return
		}
	}
	res.Nontrivial = closes > peak/2
	res.Shape = sim.ShapeOf(fmt.Sprint(n, closes/16))
	res.Stat("probe.names_open_at_peak", int64(peak))
	res.Stat("probe.closes", int64(closes))
	res.Logf("%d names, %d closes", n, closes)
	res.Sample = map[string]any{"names": n, "closes": closes}
	return
}

// ---- class resources: every file an instance has open is closed exactly once when the instance is
// closed, whichever way, even when closing some of them fails

type trackState struct {
	opened  []string
	closes  []int
	failing map[string]bool
}

type trackFS struct {
	experimentalsys.FS
	st *trackState
}

func (f trackFS) OpenFile(path string, flag experimentalsys.Oflag, perm fs.FileMode) (experimentalsys.File, experimentalsys.Errno) {
	inner, errno := f.FS.OpenFile(path, flag, perm)
	if errno != 0 {
		return nil, errno
	}
	id := len(f.st.opened)
	f.st.opened = append(f.st.opened, path)
	f.st.closes = append(f.st.closes, 0)
	return &trackFile{File: inner, id: id, st: f.st}, 0
}

type trackFile struct {
	experimentalsys.File
	id int
	st *trackState
}

func (f *trackFile) Close() experimentalsys.Errno {
	f.st.closes[f.id]++
	errno := f.File.Close()
	if f.st.failing[f.st.opened[f.id]] {
		return experimentalsys.EIO // fault: the host reports a failed close (the descriptor is gone regardless)
	}
	return errno
}

func resourcesRelease(t *tape.Tape, cfg sim.Config) (res sim.Result) {
	ctx := context.Background()
	var rc wazero.RuntimeConfig
	if cfg.Engine == "interpreter" {
		rc = wazero.NewRuntimeConfigInterpreter()
	} else {
		rc = wazero.NewRuntimeConfigCompiler()
	}
	rt := wazero.NewRuntimeWithConfig(ctx, rc)
	defer rt.Close(ctx)
	if _, err := wasi_snapshot_preview1.Instantiate(ctx, rt); err != nil {
		panic(err)
	}
	mapfs := fstest.MapFS{}
	nfiles := 8
	for i := 0; i < nfiles; i++ {
		mapfs[fmt.Sprintf("f%d", i)] = &fstest.MapFile{Data: []byte{byte(i)}}
	}
	st := &trackState{failing: map[string]bool{}}
	for i := 0; i < nfiles; i++ {
		if t.Chance(1, 4) {
			st.failing[fmt.Sprintf("f%d", i)] = true
		}
	}
	fsc := wazero.NewFSConfig().(sysfs.FSConfig).WithSysFSMount(trackFS{FS: &sysfs.AdaptFS{FS: mapfs}, st: st}, "/")
	cm, err := rt.CompileModule(ctx, wasiguest.Binary())
	if err != nil {
		panic(err)
	}
	mod, err := rt.InstantiateModule(ctx, cm, wazero.NewModuleConfig().WithName("g").WithFSConfig(fsc))
	if err != nil {
		panic(err)
	}
	g := wasiguest.New(mod)
	nopen := t.Range(2, 7)
	// a descriptor table that is large and SPARSE: more descriptors than one word of the table's bitmap,
	// the oldest ones closed again by the guest, one moved far away by fd_renumber
	sparse := t.Chance(1, 4)
	if sparse {
		nopen = t.Range(66, 140)
		res.Stat("probe.large_sparse_descriptor_table", 1)
	}
	var order []string
	guestClosed := map[int]bool{} // tracked ids the guest closed itself (fd_close)
	fdOf := map[int]uint32{}
	for i := 0; i < nopen; i++ {
		nm := fmt.Sprintf("f%d", t.Choose(nfiles))
		g.Write(0x200, []byte(nm))
		before := len(st.opened)
		errno, err := g.Call(ctx, "path_open", 3, 0, 0x200, uint64(len(nm)), 0, 0x3fffffff, 0x3fffffff, 0, 0x300)
		if err != nil || errno != 0 {
			panic(fmt.Sprintf("harness: path_open(%s) = %d %v", nm, errno, err))
		}
		for id := before; id < len(st.opened); id++ {
			fdOf[id] = g.U32(0x300)
		}
		order = append(order, nm)
	}
	if sparse {
		// close the oldest descriptors (holes at the front), move one descriptor far up
		nclose := t.Range(5, 60)
		for id := 0; id < len(st.opened) && nclose > 0; id++ {
			if fd, ok := fdOf[id]; ok && st.opened[id] != "." && !st.failing[st.opened[id]] {
				g.Call(ctx, "fd_close", uint64(fd))
				guestClosed[id] = true
				nclose--
			}
		}
		if t.Chance(1, 2) {
			for id := len(st.opened) - 1; id >= 0; id-- {
				if fd, ok := fdOf[id]; ok && !guestClosed[id] {
					to := uint64(200 + t.Choose(400))
					if errno, err := g.Call(ctx, "fd_renumber", uint64(fd), to); err == nil && errno == 0 {
						fdOf[id] = uint32(to)
					}
					break
				}
			}
		}
	}
	// the guest closes some itself
	for id := range st.opened {
		if st.opened[id] != "." && !sparse && t.Chance(1, 5) {
			if fd, ok := fdOf[id]; ok && !guestClosed[id] {
				g.Call(ctx, "fd_close", uint64(fd))
				guestClosed[id] = true
			}
		}
	}
	way := t.Choose(4)
	var cerr error
	switch way {
	case 0:
		cerr = mod.Close(ctx)
	case 1:
		cerr = mod.CloseWithExitCode(ctx, 3)
	case 2:
		cerr = rt.Close(ctx)
	case 3:
		_, cerr = g.Call(ctx, "proc_exit", 4)
		var ee *sys.ExitError
		if !errors.As(cerr, &ee) || ee.ExitCode() != 4 {
			res.Fail("wrong-error", "proc_exit(4) with %d files open (files whose Close reports an error: %v) returned %v, expected the exit error with code 4", len(st.opened), keys(st.failing), cerr)
			return
		}
	}
	res.Logf("opened %v (failing close: %v), way %d, close error: %v", order, len(st.failing), way, cerr != nil)
	// closing again must not close anything twice
	mod.Close(ctx)
	if t.Chance(1, 2) {
		rt.Close(ctx)
	}
	for id, path := range st.opened {
		if st.closes[id] == 2 && guestClosed[id] && st.failing[path] {
			continue // the guest's own fd_close failed: wazero keeps the descriptor and closes it again with the instance
		}
		if st.closes[id] != 1 {
			res.Fail("resource-not-released", "the instance was closed (way %d: 0 Close, 1 CloseWithExitCode, 2 Runtime.Close, 3 proc_exit) and file #%d %q, opened by the guest, was closed %d times (expected exactly once); files whose Close reports an error: %v; open order %v", way, id, path, st.closes[id], keys(st.failing), st.opened)
			return
		}
	}
	if !mod.IsClosed() {
		res.Fail("not-closed", "module not closed (way %d)", way)
		return
	}
	res.Nontrivial = len(st.failing) > 0
	res.Stat("fault.file_close_error", int64(len(st.failing)))
	res.Shape = sim.ShapeOf(fmt.Sprint(order, keys(st.failing), way))
	res.Steps = int64(len(st.opened))
	res.Sample = map[string]any{"opened": st.opened, "failing": keys(st.failing), "way": way}
	return
}

func keys(m map[string]bool) []string {
	var ks []string
	for i := 0; i < 16; i++ {
		if m[fmt.Sprintf("f%d", i)] {
			ks = append(ks, fmt.Sprintf("f%d", i))
		}
	}
	return ks
}
