// Package lifetime is the lifecycle simulator for C09: closing and collecting
// modules never endangers live ones.  The garbage collector runs only where
// the simulator says (GC percent -1, explicit runtime.GC, finalizers drained).
package lifetime

import (
	"context"
	"fmt"
	"os"
	"runtime"
	"runtime/debug"
	"strings"
	"time"

	"github.com/tetratelabs/wazero"
	"github.com/tetratelabs/wazero/api"
	"github.com/tetratelabs/wazero/experimental"

	"verifharness/sim"
	"verifharness/tape"
	"verifharness/wasmb"
)

type c09 struct{}

func init() { sim.Register(c09{}) }

func (c09) Property() string { return "C09" }

const danglingSig = "dangling-funcref-after-definer-closed-and-collected"

func (c09) Classes() []sim.Class {
	var cs []sim.Class
	for _, e := range []string{"interpreter", "compiler"} {
		cs = append(cs,
			sim.Class{Name: "history", Engine: e, Quick: 700, Thorough: 20000, DeathIsViolation: true, RunTimeoutSec: 120, Batch: 25},
			sim.Class{Name: "shared-cache", Engine: e, Quick: 350, Thorough: 8000, DeathIsViolation: true, RunTimeoutSec: 120, Batch: 25},
			sim.Class{Name: "generations", Engine: e, Quick: 60, Thorough: 3000, DeathIsViolation: true, RunTimeoutSec: 120, Batch: 20},
		)
	}
	for _, e := range []string{"interpreter", "compiler"} {
		cs = append(cs, sim.Class{Name: "dangling-reference", Engine: e, Quick: 1, Thorough: 3, ExpectDeath: true, Batch: 1, RunTimeoutSec: 120,
			DeathPattern: "SIGSEGV|fatal error|unexpected fault address|invalid pointer|unexpected signal|found bad pointer|invalid memory address|2880154539|abababab", KnownSig: danglingSig})
	}
	return cs
}

func (c09) Describe() sim.Description {
	return sim.Description{
		Level: "exploration",
		Rule: "class generations (no twin; answers known): the exporter \"a\" is replaced 2-4 times (closed, dropped, collected, a new one registered with another constant), one importer CompiledModule is instantiated per generation, and every importer instance - current and older - must compute with the generation it was linked against, directly, through its element segment and through ref.func; otherwise: (kinds added later: G imports only an immutable funcref global of A; M is a host module, H a guest importing from it; after a definer is dropped: collect, compile something else, collect, call the importer) tape-generated histories of 8-30 operations over a small module family (A: exports a function, a function reference getter, a table and a call-through-the-table function; B: imports A's functions, table and memory (which it grows, then reads through A's code); E: imports A's table and writes its own function into it with an element segment; C: private table and funcref global with set/call; D: imports A's function and pauses inside a host function between two calls of it), in one runtime or two runtimes sharing a CompilationCache: " +
			"instantiate (Instantiate = compiled module closed with the instance, or CompileModule+InstantiateModule), call, pass a function reference A -> host -> C (table slot or global), close instance, close compiled module, close cache, drop the harness's own Go references, force GC (1-3 cycles, finalizers drained), with a D call optionally in progress (parked in the host function) while the others happen. " +
			"Oracle: a twin runtime receives the same history without the close/drop/GC operations; every call on a still-open instance must return the twin's result or an ordinary error; the process must survive (worker death = violation). Steps that call through a reference whose definer is dropped and has no live importer are the recorded known finding: generated, counted, not executed here; executed in the sacrificial class dangling-reference. " +
			"Non-trivial: at least one forced GC happened after a close/drop and a later call went through an import edge, an exported table, a held reference or a call in progress; distinct = distinct operation-kind sequences",
		RealCode:    []string{"everything: both engines, finalizer-based unmapping, store/table liveness links, compilation cache"},
		Stubs:       []string{"none (the collector and finalizers are the real ones, triggered by the simulator)"},
		Assumptions: []string{"debug.SetGCPercent(-1): collection happens only at runtime.GC() calls the tape places", "finalizers are drained with a sentinel finalizer before proceeding"},
		FaultKinds:  []string{"close_instance", "close_compiled", "close_cache", "drop_host_references", "forced_gc", "heap_refill_after_gc", "call_in_progress_during_close", "failed_instantiation_leaving_a_function_in_a_table", "custom allocator whose Free poisons the memory"},
	}
}

// ---- module family

func modA(k int32) []byte {
	m := &wasmb.Module{}
	i32 := []wasmb.ValType{wasmb.I32}
	// inc(x) = x + k + mem[300] (zero, as long as the memory is what the module made it)
	inc := m.AddFunc(i32, i32, nil, (&wasmb.Code{}).LocalGet(0).I32Const(k).I32Add().I32Const(300).I32Load(0).I32Add().B, "inc")
	m.AddFunc(nil, []wasmb.ValType{wasmb.FuncRef}, nil, (&wasmb.Code{}).RefFunc(inc).B, "getref")
	ti := m.AddType(i32, i32)
	m.AddFunc([]wasmb.ValType{wasmb.I32, wasmb.I32}, i32, nil, (&wasmb.Code{}).LocalGet(1).LocalGet(0).CallIndirect(ti, 0).B, "callslot")
	// seg(x): memory.init from a PASSIVE data segment, table.init from a PASSIVE element segment, then
	// use both: the exporter's segment instances must stay intact while importers can still call this
	m.AddFunc(i32, i32, nil, (&wasmb.Code{}).
		I32Const(64).I32Const(0).I32Const(4).MemoryInit(0).
		I32Const(3).I32Const(0).I32Const(1).TableInit(1, 0).
		LocalGet(0).I32Const(3).CallIndirect(ti, 0).I32Const(64).I32Load(0).I32Add().B, "seg")
	m.Tables = []wasmb.Table{{Elem: wasmb.FuncRef, Lim: wasmb.Limits{Min: 4}}}
	m.Elems = []wasmb.Elem{{Mode: 0, Offset: wasmb.ConstI32(0), Funcs: []uint32{inc}}, {Mode: 1, Funcs: []uint32{inc}}}
	m.Exports = append(m.Exports, wasmb.Export{Name: "tab", Kind: wasmb.KindTable, Idx: 0})
	// an immutable funcref global holding inc: importing it is an import edge like any other
	m.Globals = []wasmb.Global{{Type: wasmb.FuncRef, Mut: false, Init: wasmb.ConstRefFunc(inc)}}
	m.Exports = append(m.Exports, wasmb.Export{Name: "gref", Kind: wasmb.KindGlobal, Idx: 0})
	// peek(addr): the exporter's view of its memory, which importers share and may grow after the
	// exporter is closed
	m.AddFunc(i32, i32, nil, (&wasmb.Code{}).LocalGet(0).I32Load(0).B, "peek")
	// poke(v): mem[300] = v (what inc adds)
	m.AddFunc(i32, nil, nil, (&wasmb.Code{}).I32Const(300).LocalGet(0).I32Store(0).B, "poke")
	m.Mem = &wasmb.Limits{Min: 1, Max: 12, HasMax: true}
	m.Exports = append(m.Exports, wasmb.Export{Name: "mem", Kind: wasmb.KindMemory, Idx: 0})
	m.Datas = []wasmb.Data{{Passive: true, Bytes: []byte{byte(k), 0, 0, 0}}}
	m.DataCount = true
	// a MUTABLE funcref global, null until setm() stores inc in it: an importer of it holds nothing of this
	// module at import time
	m.Globals = append(m.Globals, wasmb.Global{Type: wasmb.FuncRef, Mut: true, Init: wasmb.ConstRefNull(wasmb.FuncRef)})
	m.Exports = append(m.Exports, wasmb.Export{Name: "mref", Kind: wasmb.KindGlobal, Idx: 1})
	m.AddFunc(nil, nil, nil, (&wasmb.Code{}).RefFunc(inc).GlobalSet(1).B, "setm")
	return m.Encode()
}

// modN imports nothing but A's mutable funcref global (null when imported).
func modN() []byte {
	m := &wasmb.Module{}
	i32 := []wasmb.ValType{wasmb.I32}
	m.Imports = append(m.Imports, wasmb.Import{Module: "a", Name: "mref", Kind: wasmb.KindGlobal, GlobalType: wasmb.FuncRef, GlobalMut: true})
	t := m.AddType(i32, i32)
	m.Tables = []wasmb.Table{{Elem: wasmb.FuncRef, Lim: wasmb.Limits{Min: 2}}}
	m.AddFunc(i32, i32, nil, (&wasmb.Code{}).I32Const(1).GlobalGet(0).TableSet(0).LocalGet(0).I32Const(1).CallIndirect(t, 0).B, "viamref")
	return m.Encode()
}

func modB() []byte {
	m := &wasmb.Module{}
	i32 := []wasmb.ValType{wasmb.I32}
	inc := m.ImportFunc("a", "inc", i32, i32)
	seg := m.ImportFunc("a", "seg", i32, i32)
	m.Imports = append(m.Imports, wasmb.Import{Module: "a", Name: "tab", Kind: wasmb.KindTable, Table: wasmb.Table{Elem: wasmb.FuncRef, Lim: wasmb.Limits{Min: 4}}})
	peek := m.ImportFunc("a", "peek", i32, i32)
	m.Imports = append(m.Imports, wasmb.Import{Module: "a", Name: "mem", Kind: wasmb.KindMemory, Mem: wasmb.Limits{Min: 1}})
	t := m.AddType(i32, i32)
	// memchk(x): grow the imported memory by a page, write x through this module's own code, read it
	// back through the exporter's code: both must see the same (possibly relocated) memory
	m.AddFunc(i32, i32, nil, (&wasmb.Code{}).I32Const(1).MemoryGrow().Drop().
		I32Const(128).LocalGet(0).I32Store(0).I32Const(128).Call(peek).
		MemorySize().I32Const(1000).I32Mul().I32Add().B, "memchk")
	m.AddFunc(i32, i32, nil, (&wasmb.Code{}).LocalGet(0).Call(inc).Call(inc).B, "twice")
	m.AddFunc(i32, i32, nil, (&wasmb.Code{}).LocalGet(0).Call(seg).B, "viaseg")
	m.AddFunc(i32, i32, nil, (&wasmb.Code{}).LocalGet(0).I32Const(0).CallIndirect(t, 0).B, "viatab")
	return m.Encode()
}

// modE imports A's exported table and writes ITS OWN function into a slot with
// an active element segment: the exported table then refers into this instance.
func modE(k int32, slot int32) []byte { return modEF(k, slot, false) }

// modEF: failing=true adds a memory and an out-of-bounds active data segment: the instantiation fails
// AFTER the element segment wrote the function into the imported table, where it stays callable.
func modEF(k int32, slot int32, failing bool) []byte {
	m := &wasmb.Module{}
	if failing {
		m.Mem = &wasmb.Limits{Min: 1}
		m.Datas = []wasmb.Data{{Offset: wasmb.ConstI32(0x7ffffff0), Bytes: []byte{1}}}
	}
	i32 := []wasmb.ValType{wasmb.I32}
	m.Imports = append(m.Imports, wasmb.Import{Module: "a", Name: "tab", Kind: wasmb.KindTable, Table: wasmb.Table{Elem: wasmb.FuncRef, Lim: wasmb.Limits{Min: 4}}})
	mul := m.AddFunc(i32, i32, nil, (&wasmb.Code{}).LocalGet(0).I32Const(k).I32Mul().B, "mul")
	m.Elems = []wasmb.Elem{{Mode: 0, Offset: wasmb.ConstI32(slot), Funcs: []uint32{mul}}}
	return m.Encode()
}

// modT(j, slot): a module with a function type nobody else has ((2+j) x i32 -> i32).  Its function tf
// (= first parameter + 1000*(j+1)) goes into A's table at slot; tcall(s, x) calls slot s WITH THAT TYPE:
// whatever has another type there is an "indirect call type mismatch", whatever was compiled or closed since.
func modT(j int, slot int32) []byte {
	m := &wasmb.Module{}
	i32 := []wasmb.ValType{wasmb.I32}
	var params []wasmb.ValType
	for k := 0; k < 2+j; k++ {
		params = append(params, wasmb.I32)
	}
	m.Imports = append(m.Imports, wasmb.Import{Module: "a", Name: "tab", Kind: wasmb.KindTable, Table: wasmb.Table{Elem: wasmb.FuncRef, Lim: wasmb.Limits{Min: 4}}})
	tj := m.AddType(params, i32)
	tf := m.AddFunc(params, i32, nil, (&wasmb.Code{}).LocalGet(0).I32Const(int32(1000*(j+1))).I32Add().B, "tf")
	m.Elems = []wasmb.Elem{{Mode: 0, Offset: wasmb.ConstI32(slot), Funcs: []uint32{tf}}}
	c := (&wasmb.Code{}).LocalGet(1)
	for k := 0; k < 1+j; k++ {
		c.I32Const(0)
	}
	c.LocalGet(0).CallIndirect(tj, 0)
	m.AddFunc([]wasmb.ValType{wasmb.I32, wasmb.I32}, i32, nil, c.B, "tcall")
	return m.Encode()
}

// modU: a second table owner ("u"): exports tab2 and callslot2(slot, x) = tab2[slot](x).
func modU() []byte {
	m := &wasmb.Module{}
	i32 := []wasmb.ValType{wasmb.I32}
	ti := m.AddType(i32, i32)
	m.Tables = []wasmb.Table{{Elem: wasmb.FuncRef, Lim: wasmb.Limits{Min: 4}}}
	m.Exports = append(m.Exports, wasmb.Export{Name: "tab2", Kind: wasmb.KindTable, Idx: 0})
	m.AddFunc([]wasmb.ValType{wasmb.I32, wasmb.I32}, i32, nil, (&wasmb.Code{}).LocalGet(1).LocalGet(0).CallIndirect(ti, 0).B, "callslot2")
	return m.Encode()
}

// modK: "glue" without any function reference of its own (no element segment, no export, no ref.func):
// it imports a.tab and u.tab2 and its START function copies a.tab[0] (A's inc) into u.tab2[1].  From then
// on u's table refers to A through nothing but this module.
func modK() []byte {
	m := &wasmb.Module{}
	m.Imports = append(m.Imports,
		wasmb.Import{Module: "a", Name: "tab", Kind: wasmb.KindTable, Table: wasmb.Table{Elem: wasmb.FuncRef, Lim: wasmb.Limits{Min: 4}}},
		wasmb.Import{Module: "u", Name: "tab2", Kind: wasmb.KindTable, Table: wasmb.Table{Elem: wasmb.FuncRef, Lim: wasmb.Limits{Min: 4}}})
	st := m.AddFunc(nil, nil, nil, (&wasmb.Code{}).I32Const(1).I32Const(0).I32Const(1).TableCopy(1, 0).B, "")
	m.Start = &st
	return m.Encode()
}

// modG imports NOTHING of A but its immutable funcref global; viaglob(x) puts the reference into its own
// table and calls it.
func modG() []byte {
	m := &wasmb.Module{}
	i32 := []wasmb.ValType{wasmb.I32}
	m.Imports = append(m.Imports, wasmb.Import{Module: "a", Name: "gref", Kind: wasmb.KindGlobal, GlobalType: wasmb.FuncRef})
	t := m.AddType(i32, i32)
	m.Tables = []wasmb.Table{{Elem: wasmb.FuncRef, Lim: wasmb.Limits{Min: 2}}}
	m.AddFunc(i32, i32, nil, (&wasmb.Code{}).I32Const(1).GlobalGet(0).TableSet(0).LocalGet(0).I32Const(1).CallIndirect(t, 0).B, "viaglob")
	return m.Encode()
}

// modH imports a function of the HOST module "hostm" (kind M: hf(x) = x + 1000).
func modH() []byte {
	m := &wasmb.Module{}
	i32 := []wasmb.ValType{wasmb.I32}
	hf := m.ImportFunc("hostm", "hf", i32, i32)
	m.AddFunc(i32, i32, nil, (&wasmb.Code{}).LocalGet(0).Call(hf).I32Const(3).I32Add().B, "viahost")
	return m.Encode()
}

func modC() []byte {
	m := &wasmb.Module{}
	i32 := []wasmb.ValType{wasmb.I32}
	t := m.AddType(i32, i32)
	m.Tables = []wasmb.Table{{Elem: wasmb.FuncRef, Lim: wasmb.Limits{Min: 4}}}
	m.Globals = []wasmb.Global{{Type: wasmb.FuncRef, Mut: true, Init: wasmb.ConstRefNull(wasmb.FuncRef)}}
	m.AddFunc([]wasmb.ValType{wasmb.I32, wasmb.FuncRef}, nil, nil, (&wasmb.Code{}).LocalGet(0).LocalGet(1).TableSet(0).B, "set")
	m.AddFunc([]wasmb.ValType{wasmb.I32, wasmb.I32}, i32, nil, (&wasmb.Code{}).LocalGet(1).LocalGet(0).CallIndirect(t, 0).B, "call")
	m.AddFunc([]wasmb.ValType{wasmb.FuncRef}, nil, nil, (&wasmb.Code{}).LocalGet(0).GlobalSet(0).B, "setg")
	m.AddFunc(i32, i32, nil, (&wasmb.Code{}).I32Const(3).GlobalGet(0).TableSet(0).LocalGet(0).I32Const(3).CallIndirect(t, 0).B, "callg")
	return m.Encode()
}

func modD() []byte {
	m := &wasmb.Module{}
	i32 := []wasmb.ValType{wasmb.I32}
	inc := m.ImportFunc("a", "inc", i32, i32)
	pause := m.ImportFunc("env", "pause", nil, nil)
	m.AddFunc(i32, i32, nil, (&wasmb.Code{}).LocalGet(0).Call(inc).Call(pause).Call(inc).B, "slow")
	return m.Encode()
}

type instance struct {
	kind           byte
	mod            api.Module
	compiled       wazero.CompiledModule // nil when created with Instantiate
	compiledClosed bool
	closed         bool
	dropped        bool
	definer        int // for B/D: index of the A they import from
	k              int32
	// C: what its slots/global hold: index of definer A, -1 null
	slots [3]int
	glob  int
	rt    int
}

type side struct {
	rts   []wazero.Runtime
	cache wazero.CompilationCache
	insts []*instance
	// paused call
	resume     chan struct{}
	parked     chan struct{}
	result     chan string
	pausedInst int
}

type runner struct {
	t               *tape.Tape
	res             *sim.Result
	ctx             context.Context
	engine          string
	real            *side
	twin            *side
	curA            int // index of the open A registered as "a" (-1 none)
	everA           bool
	curM            int // index of the open host module "hostm" (-1 none)
	everM           bool
	curU            int // index of the open second table owner "u" (-1 none)
	everU           bool
	uHolds          int // definer whose inc a glue module copied into u.tab2[1] (-1 none)
	poison          bool         // custom allocator whose Free poisons the memory
	freed           int          // buffers freed so far (only the real side ever closes anything mid-run)
	extra           []api.Module // anonymous second instances of the definer's compiled module
	followUp        []int
	leftover        map[int]int32 // table slot -> multiplier of the function a FAILED importer left there
	forceImporter   bool
	forceKind       byte
	forceKinds      []byte // queue of kinds for the next instantiations (all compiled explicitly)
	cacheClosed     bool
	shape           []string
	gcAfterClose    bool
	riskyCalls      int
	closedOrDropped bool
}

func (r *runner) newSide(shared bool, isTwin bool) *side {
	s := &side{resume: make(chan struct{}), parked: make(chan struct{}), result: make(chan string, 1), pausedInst: -1}
	var cfg wazero.RuntimeConfig
	if r.engine == "interpreter" {
		cfg = wazero.NewRuntimeConfigInterpreter()
	} else {
		cfg = wazero.NewRuntimeConfigCompiler()
	}
	n := 1
	if shared {
		s.cache = wazero.NewCompilationCache()
		cfg = cfg.WithCompilationCache(s.cache)
		n = 2
	}
	for i := 0; i < n; i++ {
		rt := wazero.NewRuntimeWithConfig(r.ctx, cfg)
		_, err := rt.NewHostModuleBuilder("env").NewFunctionBuilder().WithFunc(func() {
			s.parked <- struct{}{}
			<-s.resume
		}).Export("pause").Instantiate(r.ctx)
		if err != nil {
			panic(err)
		}
		s.rts = append(s.rts, rt)
	}
	return s
}

func outcome(res []uint64, err error) string {
	if err != nil {
		return "error: " + strings.SplitN(err.Error(), "\n", 2)[0]
	}
	return fmt.Sprint(res)
}

// drainFinalizers forces a collection and waits until the finalizer goroutine
// has processed what that collection queued.
// heapFill holds small poison objects allocated right after a forced collection, so that memory the
// collector just freed (a dangling function record, a table's old backing array) is likely reused and
// a stale pointer into it reads 0xAB bytes instead of its old, still intact content.
var heapFill [][]byte

func refillHeap() {
	heapFill = heapFill[:0]
	heapFillPtr = heapFillPtr[:0]
	for _, sz := range []int{16, 24, 32, 48, 64, 80, 96, 128} {
		for i := 0; i < 4000; i++ {
			b := make([]byte, sz)
			for j := range b {
				b[j] = 0xAB
			}
			heapFill = append(heapFill, b)
		}
		// objects WITH pointers live in other spans than pointer-free ones: records of functions, module
		// engines and instances are of this kind.  Every word points at one poisoned sentinel.
	}
	for _, sz := range []int{16, 24, 32, 48, 64, 80, 96, 112, 128, 144, 160, 176, 192, 208, 224, 240, 256, 288, 320, 352, 384, 416, 448, 480, 512,
		// (arrays of function records of modules with more functions)
		576, 640, 704, 768, 896, 1024, 1152, 1280, 1408, 1536, 1792, 2048} {
		for i := 0; i < 2000; i++ {
			p := make([]*[128]byte, sz/8)
			for j := range p {
				p[j] = &heapSentinel
			}
			heapFillPtr = append(heapFillPtr, p)
		}
	}
}

var (
	heapFillPtr  [][]*[128]byte
	heapSentinel = func() (s [128]byte) {
		for i := range s {
			s[i] = 0xAB
		}
		return
	}()
)

func drainFinalizers(cycles int) {
	defer refillHeap()
	heapFill, heapFillPtr = nil, nil
	for i := 0; i < cycles; i++ {
		done := make(chan struct{})
		s := new([64]byte)
		runtime.SetFinalizer(s, func(*[64]byte) { close(done) })
		s = nil
		runtime.GC()
		select {
		case <-done:
		case <-time.After(2 * time.Second):
		}
	}
}

// poisonMem: a custom allocator's memory whose Free overwrites the buffer (an allocator that unmaps on
// Free would fault instead): code that reads it afterwards sees 0xEE bytes.
type poisonMem struct {
	buf   []byte
	freed *int
}

func (m *poisonMem) Reallocate(size uint64) []byte {
	if uint64(cap(m.buf)) < size {
		nb := make([]byte, size, size+65536)
		copy(nb, m.buf)
		m.buf = nb
	}
	m.buf = m.buf[:size]
	return m.buf
}

func (m *poisonMem) Free() {
	full := m.buf[:cap(m.buf)]
	for i := range full {
		full[i] = 0xEE
	}
	*m.freed++
}

// poisonDiff: both outcomes are single i32 results and differ by one to three reads of a poisoned word
// (0xEEEEEEEE each): the signature of code that read the freed custom-allocator memory.
func poisonDiff(got, want string) bool {
	var g, w uint32
	if n, _ := fmt.Sscanf(got, "[%d]", &g); n != 1 {
		return false
	}
	if n, _ := fmt.Sscanf(want, "[%d]", &w); n != 1 {
		return false
	}
	d := g - w
	return d == 0xEEEEEEEE || d == 2*0xEEEEEEEE&0xFFFFFFFF || d == 3*0xEEEEEEEE&0xFFFFFFFF
}

func (c09) Run(t *tape.Tape, cfg sim.Config) (res sim.Result) {
	old := debug.SetGCPercent(-1)
	defer debug.SetGCPercent(old)
	r := &runner{t: t, res: &res, ctx: context.Background(), engine: cfg.Engine, curA: -1, curM: -1, curU: -1, uHolds: -1}
	if cfg.Class == "dangling-reference" {
		return r.dangling()
	}
	if cfg.Class == "generations" {
		return runGenerations(t, cfg)
	}
	shared := cfg.Class == "shared-cache"
	if t.Chance(1, 3) {
		// memories come from a custom allocator whose Free poisons the buffer (both runtimes alike)
		r.poison = true
		r.ctx = experimental.WithMemoryAllocator(r.ctx, experimental.MemoryAllocatorFunc(func(cap, max uint64) experimental.LinearMemory {
			return &poisonMem{freed: &r.freed}
		}))
		res.Stat("probe.poisoning_allocator", 1)
	}
	r.real = r.newSide(shared, false)
	r.twin = r.newSide(shared, true)
	nops := t.Range(8, 30)
	if t.Chance(1, 6) {
		// focus: several modules with a function type of their own on A's table; the compilation of an older
		// one is closed, a new one is compiled, then the newest and the most recent live one call each other's
		// slots with their own types
		r.forceKinds = []byte{'A', 'T', 'T', 'T'}
		r.followUp = []int{0, 0, 0, 0, 400}
		res.Stat("probe.focus_own_function_types", 1)
	}
	if len(r.forceKinds) == 0 && t.Chance(1, 8) {
		// focus: a guest importing from a host module; the host module is dropped, collected, something else
		// is compiled, collected again; the guest calls its import
		r.forceKinds = []byte{'M', 'H'}
		r.followUp = []int{0, 0, 600, 6, 0, 6, 201}
		res.Stat("probe.focus_host_module", 1)
	}
	if len(r.forceKinds) == 0 && t.Chance(1, 8) {
		// focus: an importer of nothing but A's funcref global; A is dropped and collected
		r.forceKinds = []byte{'A', 'G'}
		r.followUp = []int{0, 0, 600, 6, 0, 6, 201}
		res.Stat("probe.focus_funcref_global", 1)
	}
	if len(r.forceKinds) == 0 && t.Chance(1, 8) {
		// focus: an importer of nothing but A's MUTABLE funcref global, null when imported; A stores a
		// reference in it, then A is dropped and collected
		r.forceKinds = []byte{'A', 'N'}
		r.followUp = []int{0, 0, 700, 600, 6, 0, 6, 201}
		if t.Chance(1, 2) {
			r.followUp = []int{0, 0, 700, 201, 600, 6, 0, 6, 201}
		}
		res.Stat("probe.focus_mutable_funcref_global_set_after_import", 1)
	}
	if shared && len(r.forceKinds) == 0 && t.Chance(1, 5) {
		// focus: the shared cache (and with it the engine) is closed under live instances, which then reach
		// the engine's builtin helpers (memory.grow, ref.func through the getter)
		r.forceKinds = []byte{'A', 'B'}
		r.followUp = []int{0, 0, 800, 201, 1, 1, 201}
		res.Stat("probe.focus_cache_closed_under_live_instances", 1)
	}
	if len(r.forceKinds) == 0 && t.Chance(1, 8) {
		// focus: an importer of A's functions, table AND memory; A is dropped and collected; the importer
		// grows the memory and reads it back through A's code
		r.forceKinds = []byte{'A', 'B'}
		r.followUp = []int{0, 0, 600, 6, 201, 201}
		res.Stat("probe.focus_importer_of_the_memory", 1)
	}
	if len(r.forceKinds) == 0 && t.Chance(1, 6) {
		// focus: a glue module copies A's function into the second owner's table; then the glue module and
		// A are dropped, collected, something else is compiled, and the second owner calls the entry
		r.forceKinds = []byte{'A', 'U', 'K'}
		r.followUp = []int{0, 0, 0, 602, 600, 6, 0, 6, 500}
		if t.Chance(1, 2) {
			r.followUp = []int{0, 0, 0, 602, 6, 0, 6, 500, 600, 6, 0, 6, 500}
		}
		res.Stat("probe.focus_glue_module", 1)
	}
	for i := 0; i < nops && res.Violation == nil; i++ {
		r.step(shared)
		res.Steps++
	}
	// finish a paused call, then tear down
	if r.real.pausedInst >= 0 && res.Violation == nil {
		r.finishSlow()
	}
	for _, s := range []*side{r.real, r.twin} {
		for _, rt := range s.rts {
			rt.Close(r.ctx)
		}
		if s.cache != nil {
			s.cache.Close(r.ctx)
		}
	}
	drainFinalizers(1)
	res.Shape = sim.ShapeOf(r.shape...)
	res.Nontrivial = r.gcAfterClose && r.riskyCalls > 0
	res.Stat("probe.calls_after_close_and_gc_through_live_links", int64(r.riskyCalls))
	smp := res.Trace
	if len(smp) > 14 {
		smp = smp[:14]
	}
	res.Sample = smp
	return
}

func (r *runner) log(f string, a ...any) {
	s := fmt.Sprintf(f, a...)
	r.res.Logf("%s", s)
	r.shape = append(r.shape, strings.SplitN(s, " ", 2)[0])
}

func (r *runner) instantiateOn(s *side, kind byte, k int32, via int, rtIdx int) (*instance, error) {
	var bin []byte
	name := ""
	switch kind {
	case 'A':
		bin, name = modA(k), "a"
	case 'B':
		bin = modB()
	case 'C':
		bin = modC()
	case 'D':
		bin = modD()
	case 'E':
		bin = modE(k, 1+k%3)
	case 'F':
		bin = modEF(k, 1+k%3, true)
	case 'G':
		bin = modG()
	case 'N':
		bin = modN()
	case 'H':
		bin = modH()
	case 'T':
		bin = modT(int(k), 1+k%3)
	case 'U':
		bin, name = modU(), "u"
	case 'K':
		bin = modK()
	}
	rt := s.rts[rtIdx]
	in := &instance{kind: kind, k: k, rt: rtIdx, definer: -1, glob: -1, slots: [3]int{-1, -1, -1}}
	if kind == 'M' {
		// a host module instance: guests importing from it must keep working when it is closed and dropped
		mod, err := rt.NewHostModuleBuilder("hostm").NewFunctionBuilder().WithFunc(func(x uint32) uint32 { return x + 1000 }).Export("hf").Instantiate(r.ctx)
		if err != nil {
			return nil, err
		}
		in.mod = mod
		return in, nil
	}
	cfg := wazero.NewModuleConfig().WithName(name)
	if via == 0 {
		mod, err := rt.InstantiateWithConfig(r.ctx, bin, cfg)
		if err != nil {
			return nil, err
		}
		in.mod = mod
	} else {
		cm, err := rt.CompileModule(r.ctx, bin)
		if err != nil {
			return nil, err
		}
		mod, err := rt.InstantiateModule(r.ctx, cm, cfg)
		if err != nil {
			return nil, err
		}
		in.mod, in.compiled = mod, cm
	}
	return in, nil
}

// firstA: index of the (only) named definer instance, -1 if none yet.
func (r *runner) firstA() int {
	for i, in := range r.real.insts {
		if in.kind == 'A' {
			return i
		}
	}
	return -1
}

func (r *runner) pickInst(kinds string, needOpen bool) int {
	var c []int
	for i, in := range r.real.insts {
		if strings.IndexByte(kinds, in.kind) >= 0 && !in.dropped && (!needOpen || !in.closed) {
			c = append(c, i)
		}
	}
	if len(c) == 0 {
		return -1
	}
	return c[r.t.Choose(len(c))]
}

// liveLink reports whether definer d is kept reachable by something the
// property promises to honour: a harness-held handle, or a not-dropped
// instance that imports from it.
func (r *runner) liveLink(d int) bool {
	def := r.real.insts[d]
	if !def.dropped {
		return true
	}
	for _, in := range r.real.insts {
		if (in.kind == 'B' || in.kind == 'D') && in.definer == d && !in.dropped {
			return true
		}
	}
	return false
}

func (r *runner) compareCall(what string, i int, fn string, args ...uint64) {
	real, twin := r.real.insts[i], r.twin.insts[i]
	got := outcome(real.mod.ExportedFunction(fn).Call(r.ctx, args...))
	want := outcome(twin.mod.ExportedFunction(fn).Call(r.ctx, args...))
	r.log("%s -> %s (twin %s)", what, got, want)
	if fn == "viaseg" || fn == "seg" {
		// A.seg table.inits slot 3 with A.inc: whatever a failed importer left there is overwritten
		delete(r.leftover, 3)
	}
	if fn == "callslot" && len(args) == 2 {
		if k, ok := r.leftover[int(args[0])]; ok && real.kind == 'A' {
			// the slot holds the function of a failed importer: mul(x) = x*k, known without the twin (a
			// collection hits both runtimes alike)
			if exp := fmt.Sprintf("[%d]", uint32(int32(args[1])*k)); got != exp {
				r.res.Fail("behaviour-changed", "%s returned %s; the slot holds the function a failed importer's element segment left there, which computes %s", what, got, exp)
				return
			}
		}
	}
	// the twin never closes or drops anything: none of its calls has a reason to fail
	if strings.HasPrefix(want, "error: ") && !strings.HasPrefix(got, "error: ") {
		r.res.Fail("behaviour-changed", "%s: the twin runtime, in which nothing is ever closed or dropped, failed with %s (this runtime returned %s)", what, want, got)
		return
	}
	// as long as nothing was closed or dropped on this side, there is no reason for any call to fail
	if strings.HasPrefix(got, "error: ") && !r.closedOrDropped && !strings.HasPrefix(want, "error: ") {
		r.res.Fail("behaviour-changed", "%s failed with %s although nothing has been closed or dropped; the twin runtime returned %s", what, got, want)
		return
	}
	// results known without the twin (a collection hits both runtimes alike, so a dangling record would
	// corrupt both): slot 0 of A's table always holds A.inc, inc(x) = x + k
	if !strings.HasPrefix(got, "error: ") {
		var exp string
		kOf := func(j int) int32 { return r.real.insts[j].k }
		switch {
		case fn == "inc" && real.kind == 'A':
			exp = fmt.Sprintf("[%d]", uint32(int32(args[0])+real.k))
		case fn == "callslot" && real.kind == 'A' && args[0] == 0:
			exp = fmt.Sprintf("[%d]", uint32(int32(args[1])+real.k))
		case fn == "viatab" && real.definer >= 0:
			exp = fmt.Sprintf("[%d]", uint32(int32(args[0])+kOf(real.definer)))
		case fn == "twice" && real.definer >= 0:
			exp = fmt.Sprintf("[%d]", uint32(int32(args[0])+2*kOf(real.definer)))
		}
		if exp != "" && got != exp && !(r.poison && r.freed > 0 && poisonDiff(got, exp)) {
			r.res.Fail("behaviour-changed", "%s returned %s; it computes %s whatever was closed or collected (the twin runtime returned %s)", what, got, exp, want)
			return
		}
	}
	if got != want && r.poison && r.freed > 0 && poisonDiff(got, want) {
		// recorded known finding: the definer was closed, which handed its custom-allocator memory back
		// although importers of its FUNCTIONS can still run code that uses it
		r.res.Known = append(r.res.Known, "allocator-memory-freed-while-function-importers-live")
		return
	}
	if got != want && !strings.HasPrefix(got, "error: ") {
		r.res.Fail("behaviour-changed", "%s returned %s; the twin runtime in which nothing was closed or collected returned %s", what, got, want)
	}
	// the called instance is open and everything it uses is reachable from it: closing or collecting
	// OTHER things gives its call no reason to fail where the twin's succeeds
	if strings.HasPrefix(got, "error: ") && !strings.HasPrefix(want, "error: ") {
		r.res.Fail("behaviour-changed", "%s failed with %s; the twin runtime in which nothing was closed or collected returned %s", what, got, want)
	}
	if strings.Contains(got, "runtime error") || strings.Contains(got, "BUG") {
		r.res.Fail("internal-failure", "%s failed with an internal error rather than an ordinary one: %s", what, got)
	}
	if r.closedOrDropped && r.gcAfterClose {
		r.riskyCalls++
	}
}

func (r *runner) step(shared bool) {
	t := r.t
	k := t.Weighted(5, 6, 4, 3, 2, 2, 4, 2, 1)
	// bias: right after an importer that wrote into the exported table was dropped, follow up with
	// "another importer arrives, collect, call through the slot" (faults placed where in-flight state is)
	if len(r.followUp) > 0 {
		k = r.followUp[0]
		r.followUp = r.followUp[1:]
	}
	if k == 800 {
		// forced: close the shared cache under live runtimes
		if shared && r.real.cache != nil {
			err := r.real.cache.Close(r.ctx)
			r.closedOrDropped = true
			r.cacheClosed = true
			r.real.cache = nil
			r.res.Stat("fault.close_cache", 1)
			r.log("closeCache err=%v [focus]", err)
		}
		return
	}
	if k == 700 {
		// forced: A stores a reference to its function in its mutable funcref global
		if r.curA >= 0 && r.curA != r.real.pausedInst {
			r.compareCall(fmt.Sprintf("call #%d A.setm() [the mutable funcref global now holds A.inc]", r.curA), r.curA, "setm")
		}
		return
	}
	if k >= 600 {
		// forced: close and drop instance k-600
		if i := k - 600; i < len(r.real.insts) && !r.real.insts[i].dropped && i != r.real.pausedInst {
			in := r.real.insts[i]
			if !in.closed {
				in.mod.Close(r.ctx)
				in.closed = true
				if i == r.curA {
					r.curA = -1
				}
				if i == r.curU {
					r.curU = -1
				}
				if i == r.curM {
					r.curM = -1
				}
			}
			if in.compiled != nil {
				in.compiled.Close(r.ctx)
			}
			in.mod, in.compiled = nil, nil
			in.dropped = true
			r.closedOrDropped = true
			r.res.Stat("fault.drop_host_references", 1)
			r.log("drop #%d (%c) [focus]", i, in.kind)
		}
		return
	}
	if k == 500 {
		if r.curU >= 0 && r.real.pausedInst < 0 {
			x := uint64(t.Choose(100))
			r.compareCall(fmt.Sprintf("call #%d U.callslot2(1,%d) [entry copied by a glue module from #%d's table; glue or definer dropped and collected]", r.curU, x, r.uHolds), r.curU, "callslot2", 1, x)
		}
		return
	}
	if k == 400 {
		// close the compilation of the OLDEST live module with a type of its own, then let the rest follow
		first, last := -1, -1
		for j, o := range r.real.insts {
			if o.kind == 'T' && !o.closed && o.compiled != nil && !o.compiledClosed {
				if first < 0 {
					first = j
				}
				last = j
			}
		}
		if first >= 0 && last != first {
			r.real.insts[first].compiled.Close(r.ctx)
			r.real.insts[first].compiledClosed = true
			r.closedOrDropped = true
			r.res.Stat("fault.close_compiled", 1)
			r.log("closeCompiled #%d (own-type focus)", first)
			r.forceKinds = []byte{'T'}
			r.followUp = []int{0, 300 + last}
		}
		return
	}
	if k >= 300 {
		// forced probe: an older module with a type of its own calls, with that type, the slot the NEWEST
		// module with a type of its own wrote (and the other way round)
		j, newest := k-300, -1
		for i, in := range r.real.insts {
			if in.kind == 'T' && !in.closed {
				newest = i
			}
		}
		if j < len(r.real.insts) && newest >= 0 && newest != j && !r.real.insts[j].closed && r.real.pausedInst < 0 {
			x := uint64(t.Choose(100))
			r.res.Stat("probe.own_type_modules_meet_after_a_compilation_with_its_own_type_was_closed", 1)
			sn, so := uint64(1+r.real.insts[newest].k%3), uint64(1+r.real.insts[j].k%3)
			r.compareCall(fmt.Sprintf("call #%d T.tcall(%d,%d) [slot written by the module compiled last, #%d]", j, sn, x, newest), j, "tcall", sn, x)
			if r.res.Violation == nil {
				r.compareCall(fmt.Sprintf("call #%d T.tcall(%d,%d) [slot written by the older #%d]", newest, so, x, j), newest, "tcall", so, x)
			}
		}
		return
	}
	if k >= 200 {
		// forced probe: an importer whose definer was just dropped and collected is called
		if j := k - 200; j < len(r.real.insts) && !r.real.insts[j].closed && j != r.real.pausedInst {
			x := uint64(t.Choose(100))
			r.res.Stat("probe.importer_called_after_its_definer_was_dropped_and_collected", 1)
			switch in := r.real.insts[j]; in.kind {
			case 'G':
				r.compareCall(fmt.Sprintf("call #%d G.viaglob(%d) [its definer #%d was dropped and collected]", j, x, in.definer), j, "viaglob", x)
			case 'B':
				r.compareCall(fmt.Sprintf("call #%d B.memchk(%d) [grows and re-reads the memory of its definer #%d, which was dropped and collected]", j, x, in.definer), j, "memchk", x)
			case 'N':
				r.compareCall(fmt.Sprintf("call #%d N.viamref(%d) [imports only the mutable funcref global of #%d, null when imported and set afterwards; #%d was dropped and collected]", j, x, in.definer, in.definer), j, "viamref", x)
			case 'H':
				r.compareCall(fmt.Sprintf("call #%d H.viahost(%d) [its host module #%d was dropped and collected]", j, x, in.definer), j, "viahost", x)
			}
		}
		return
	}
	if k >= 100 {
		// forced probe: the owner calls through the slot the dropped importer wrote
		if r.curA >= 0 && !r.real.insts[r.curA].dropped && r.curA != r.real.pausedInst {
			x := uint64(t.Choose(100))
			r.compareCall(fmt.Sprintf("call #%d A.callslot(%d,%d) [slot written by a dropped importer]", r.curA, k-100, x), r.curA, "callslot", uint64(k-100), x)
		}
		return
	}
	switch k {
	case 0: // instantiate
		kind := "ABCDEGHMTUK"[t.Weighted(3, 3, 3, 2, 3, 2, 2, 1, 3, 1, 2)]
		if r.forceImporter {
			kind = 'B'
			r.forceImporter = false
		}
		if r.forceKind != 0 {
			kind, r.forceKind = r.forceKind, 0
		}
		forcedVia := false
		if len(r.forceKinds) > 0 {
			kind, r.forceKinds, forcedVia = r.forceKinds[0], r.forceKinds[1:], true
		}
		if kind == 'A' && r.curA >= 0 {
			kind = 'B'
		}
		if (kind == 'B' || kind == 'D' || kind == 'E' || kind == 'G' || kind == 'N' || kind == 'T') && r.curA < 0 {
			kind = 'A'
		}
		if kind == 'H' && r.curM < 0 {
			kind = 'M'
		}
		if kind == 'K' && r.curU < 0 {
			kind = 'U'
		}
		if kind == 'U' && r.everU {
			kind = 'C'
		}
		if kind == 'K' && r.curA < 0 {
			kind = 'A'
		}
		if kind == 'M' && r.everM {
			kind = 'C' // one host module per run (the twin never closes it: the name stays taken there)
		}
		if kind == 'A' && r.everA {
			// one NAMED definer per run (the twin never closes it, so its name stays taken there); but the
			// definer's compiled module may be instantiated AGAIN, anonymously, and the new instance's state
			// made different: whatever still runs the first instance's functions must keep seeing ITS state
			if a := r.firstA(); a >= 0 && r.real.insts[a].compiled != nil && !r.real.insts[a].compiledClosed && !r.cacheClosed && t.Chance(1, 2) {
				ra, ta := r.real.insts[a], r.twin.insts[a]
				rm, err := r.real.rts[ra.rt].InstantiateModule(r.ctx, ra.compiled, wazero.NewModuleConfig().WithName(""))
				tm, terr := r.twin.rts[ta.rt].InstantiateModule(r.ctx, ta.compiled, wazero.NewModuleConfig().WithName(""))
				r.log("instantiate the definer's compiled module again, anonymously -> %v", err)
				if err != nil || terr != nil {
					if (err == nil) != (terr == nil) {
						r.res.Fail("behaviour-changed", "re-instantiating the definer's compiled module: real err=%v twin err=%v", err, terr)
					}
					return
				}
				rm.ExportedFunction("poke").Call(r.ctx, 77)
				tm.ExportedFunction("poke").Call(r.ctx, 77)
				r.extra = append(r.extra, rm, tm) // kept open to the end
				r.res.Stat("probe.definer_compiled_module_instantiated_again", 1)
				return
			}
			kind = 'C'
		}
		if len(r.real.insts) >= 7 || r.cacheClosed {
			return // (new compilations after closing the shared cache are outside the property)
		}
		kk := int32(1 + len(r.real.insts)*7)
		if kind == 'T' {
			kk = int32(len(r.real.insts)) // the number of parameters of its type: never seen before in this run
		}
		if kind == 'E' && t.Chance(1, 3) {
			// an importer that FAILS after its element segment was applied: nothing of it is registered, no
			// handle exists, but its function sits in A's table (specification: the write persists)
			kk += int32(100 * (1 + len(r.leftover)))
			_, err := r.instantiateOn(r.real, 'F', kk, t.Choose(2), 0)
			_, terr := r.instantiateOn(r.twin, 'F', kk, t.Choose(2), 0)
			r.log("instantiate F (fails after its element segment) -> failed=%v", err != nil)
			if err == nil || terr == nil {
				r.res.Fail("behaviour-changed", "the importer with an out-of-bounds data segment instantiated: real err=%v twin err=%v", err, terr)
				return
			}
			if r.leftover == nil {
				r.leftover = map[int]int32{}
			}
			r.leftover[int(1+kk%3)] = kk
			r.res.Stat("fault.failed_instantiation_leaves_function_in_table", 1)
			r.followUp = append(r.followUp, 6, 100+int(1+kk%3)) // collect, then call through the slot
			return
		}
		via := t.Choose(2)
		if forcedVia {
			via = 1
		}
		rtIdx := 0
		if shared && kind == 'C' {
			rtIdx = t.Choose(2)
		}
		ri, err := r.instantiateOn(r.real, kind, kk, via, rtIdx)
		ti, terr := r.instantiateOn(r.twin, kind, kk, via, rtIdx)
		r.log("instantiate %c via=%d rt=%d -> %v", kind, via, rtIdx, err)
		if err != nil || terr != nil {
			if (err == nil) != (terr == nil) {
				r.res.Fail("behaviour-changed", "instantiating %c: real err=%v twin err=%v", kind, err, terr)
			}
			return
		}
		if kind == 'B' || kind == 'D' || kind == 'E' || kind == 'G' || kind == 'N' || kind == 'T' {
			ri.definer, ti.definer = r.curA, r.curA
		}
		if kind == 'H' {
			ri.definer, ti.definer = r.curM, r.curM
		}
		if kind == 'E' {
			delete(r.leftover, int(1+kk%3))
		}
		r.real.insts = append(r.real.insts, ri)
		r.twin.insts = append(r.twin.insts, ti)
		if kind == 'A' {
			r.curA = len(r.real.insts) - 1
			r.everA = true
		}
		if kind == 'M' {
			r.curM = len(r.real.insts) - 1
			r.everM = true
		}
		if kind == 'U' {
			r.curU = len(r.real.insts) - 1
			r.everU = true
		}
		if kind == 'K' {
			ri.definer, ti.definer = r.curA, r.curA
			r.uHolds = r.curA
			r.res.Stat("probe.glue_module_copied_a_reference_between_two_tables", 1)
		}
	case 1: // call
		i := r.pickInst("ABCDEGHTU", true)
		if i < 0 || i == r.real.pausedInst {
			return
		}
		in := r.real.insts[i]
		x := uint64(t.Choose(100))
		switch in.kind {
		case 'A':
			if t.Chance(1, 2) {
				// through the exported table: slots 1-3 may hold functions of (closed, dropped, collected) importers
				slot := uint64(t.Choose(4))
				r.compareCall(fmt.Sprintf("call #%d A.callslot(%d,%d) [exported table]", i, slot, x), i, "callslot", slot, x)
			} else {
				r.compareCall(fmt.Sprintf("call #%d A.inc(%d)", i, x), i, "inc", x)
			}
		case 'E':
			r.compareCall(fmt.Sprintf("call #%d E.mul(%d)", i, x), i, "mul", x)
		case 'U':
			slot := uint64(t.Choose(3))
			r.compareCall(fmt.Sprintf("call #%d U.callslot2(%d,%d) [slot 1 holds what a glue module copied from #%d's table]", i, slot, x, r.uHolds), i, "callslot2", slot, x)
		case 'T':
			slot := uint64(t.Choose(4))
			r.compareCall(fmt.Sprintf("call #%d T.tcall(%d,%d) [call_indirect with its own %d-parameter type]", i, slot, x, 2+in.k), i, "tcall", slot, x)
		case 'G':
			r.compareCall(fmt.Sprintf("call #%d G.viaglob(%d) [imports only the funcref global of #%d]", i, x, in.definer), i, "viaglob", x)
		case 'H':
			r.compareCall(fmt.Sprintf("call #%d H.viahost(%d) [imports from host module #%d]", i, x, in.definer), i, "viahost", x)
		case 'B':
			fn := tape.Pick(t, []string{"twice", "viatab", "viaseg", "memchk"})
			r.compareCall(fmt.Sprintf("call #%d B.%s(%d) [imports from #%d]", i, fn, x, in.definer), i, fn, x)
		case 'C':
			slot := t.Choose(3)
			useG := t.Chance(1, 3)
			d := in.slots[slot]
			if useG {
				d = in.glob
			}
			if d >= 0 && !r.liveLink(d) {
				// the recorded known finding: not executed in this class
				r.res.Stat("probe.known_finding_steps_generated_not_executed", 1)
				r.log("skip-known-finding #%d C call through reference to dropped definer #%d", i, d)
				return
			}
			if useG {
				r.compareCall(fmt.Sprintf("call #%d C.callg(%d) [ref to #%d]", i, x, d), i, "callg", x)
			} else {
				r.compareCall(fmt.Sprintf("call #%d C.call(%d,%d) [ref to #%d]", i, slot, x, d), i, "call", uint64(slot), x)
			}
		case 'D':
			if r.real.pausedInst >= 0 {
				return
			}
			r.startSlow(i, x)
		}
	case 2: // pass a function reference A -> host -> C
		a := r.pickInst("A", false)
		c := r.pickInst("C", true)
		if a < 0 || c < 0 {
			return
		}
		ra, ta := r.real.insts[a], r.twin.insts[a]
		ref, err := ra.mod.ExportedFunction("getref").Call(r.ctx)
		tref, terr := ta.mod.ExportedFunction("getref").Call(r.ctx)
		if err != nil || terr != nil {
			r.log("passref A#%d.getref failed: %v", a, err)
			return
		}
		slot := t.Choose(3)
		if t.Chance(1, 3) {
			_, err = r.real.insts[c].mod.ExportedFunction("setg").Call(r.ctx, ref[0])
			r.twin.insts[c].mod.ExportedFunction("setg").Call(r.ctx, tref[0])
			if err == nil {
				r.real.insts[c].glob = a
			}
			r.log("passref A#%d -> C#%d.global err=%v", a, c, err)
		} else {
			_, err = r.real.insts[c].mod.ExportedFunction("set").Call(r.ctx, uint64(slot), ref[0])
			r.twin.insts[c].mod.ExportedFunction("set").Call(r.ctx, uint64(slot), tref[0])
			if err == nil {
				r.real.insts[c].slots[slot] = a
			}
			r.log("passref A#%d -> C#%d.slot%d err=%v", a, c, slot, err)
		}
	case 3: // close instance
		i := r.pickInst("ABCDEGHMTUK", true)
		if i < 0 || i == r.real.pausedInst {
			return
		}
		in := r.real.insts[i]
		err := in.mod.Close(r.ctx)
		if i == r.curU {
			r.curU = -1
		}
		in.closed = true
		r.closedOrDropped = true
		if i == r.curA {
			r.curA = -1
		}
		if i == r.curM {
			r.curM = -1
		}
		r.res.Stat("fault.close_instance", 1)
		r.log("close #%d (%c) err=%v", i, in.kind, err)
	case 4: // close compiled module
		var c []int
		for i, in := range r.real.insts {
			if in.compiled != nil && !in.dropped {
				c = append(c, i)
			}
		}
		if len(c) == 0 {
			return
		}
		i := c[t.Choose(len(c))]
		err := r.real.insts[i].compiled.Close(r.ctx)
		r.real.insts[i].compiledClosed = true
		r.closedOrDropped = true
		if r.real.insts[i].kind == 'T' && r.curA >= 0 {
			// a compilation with a type of its own is gone: another one arrives, then the live ones meet it
			last := -1
			for j, o := range r.real.insts {
				if o.kind == 'T' && j != i && !o.closed {
					last = j // the most recent one: its type was seen last
				}
			}
			if last >= 0 && t.Chance(3, 4) {
				r.followUp, r.forceKind = []int{0, 300 + last}, 'T'
			}
		}
		r.res.Stat("fault.close_compiled", 1)
		r.log("closeCompiled #%d err=%v", i, err)
	case 5: // drop the harness's references
		i := r.pickInst("ABCDEGHMTUK", false)
		if i < 0 || i == r.real.pausedInst {
			return
		}
		in := r.real.insts[i]
		if !in.closed {
			in.mod.Close(r.ctx)
			in.closed = true
			if i == r.curA {
				r.curA = -1
			}
			if i == r.curM {
				r.curM = -1
			}
			if i == r.curU {
				r.curU = -1
			}
		}
		if in.compiled != nil {
			in.compiled.Close(r.ctx)
		}
		in.mod, in.compiled = nil, nil
		in.dropped = true
		if in.kind == 'E' && r.curA >= 0 && t.Chance(1, 2) {
			r.followUp = []int{0, 6, 100 + int(1+in.k%3)}
			r.forceImporter = true
		}
		if (in.kind == 'A' && r.uHolds == i || in.kind == 'K') && r.curU >= 0 && r.uHolds >= 0 && t.Chance(2, 3) {
			// the glue module or the definer behind u's copied entry is gone: collect, compile something,
			// collect, call through u's table
			r.followUp = []int{6, 0, 6, 500}
		} else if in.kind == 'A' || in.kind == 'M' {
			// a definer is gone: collect, let another compilation happen (the engine's bookkeeping of compiled
			// code moves), collect again, then use what imports from it
			for j, o := range r.real.insts {
				if (o.kind == 'G' || o.kind == 'H' || o.kind == 'N') && o.definer == i && !o.closed && t.Chance(2, 3) {
					r.followUp = []int{6, 0, 6, 200 + j}
					break
				}
			}
		}
		r.closedOrDropped = true
		r.res.Stat("fault.drop_host_references", 1)
		r.log("drop #%d (%c)", i, in.kind)
	case 6: // forced GC
		n := 1 + t.Choose(3)
		drainFinalizers(n)
		if r.closedOrDropped {
			r.gcAfterClose = true
		}
		r.res.Stat("fault.forced_gc", int64(n))
		r.log("gc x%d", n)
	case 7: // finish the paused call
		if r.real.pausedInst >= 0 {
			r.finishSlow()
		}
	case 8: // close the shared cache under live runtimes
		if shared && r.real.cache != nil && t.Chance(1, 2) {
			err := r.real.cache.Close(r.ctx)
			r.closedOrDropped = true
			r.cacheClosed = true
			r.real.cache = nil
			r.res.Stat("fault.close_cache", 1)
			r.log("closeCache err=%v", err)
		}
	}
}

func (r *runner) startSlow(i int, x uint64) {
	for _, s := range []*side{r.real, r.twin} {
		s := s
		mod := s.insts[i].mod
		go func() {
			s.result <- outcome(mod.ExportedFunction("slow").Call(r.ctx, x))
		}()
		select {
		case <-s.parked:
		case o := <-s.result:
			// finished without pausing (error before the host call)
			s.result <- o
		}
		s.pausedInst = i
	}
	r.res.Stat("fault.call_in_progress", 1)
	r.log("startSlow #%d D.slow(%d) parked inside the host function", i, x)
}

func (r *runner) finishSlow() {
	var outs [2]string
	for k, s := range []*side{r.real, r.twin} {
		select {
		case o := <-s.result:
			outs[k] = o
		default:
			s.resume <- struct{}{}
			outs[k] = <-s.result
		}
		s.pausedInst = -1
	}
	r.log("finishSlow -> %s (twin %s)", outs[0], outs[1])
	if outs[0] != outs[1] && r.poison && r.freed > 0 && poisonDiff(outs[0], outs[1]) {
		r.res.Known = append(r.res.Known, "allocator-memory-freed-while-function-importers-live")
	} else if outs[0] != outs[1] && !strings.HasPrefix(outs[0], "error: ") {
		r.res.Fail("behaviour-changed", "the call that was in progress while others were closed/collected returned %s; the twin returned %s", outs[0], outs[1])
	}
	if strings.Contains(outs[0], "runtime error") {
		r.res.Fail("internal-failure", "the call in progress failed with an internal error: %s", outs[0])
	}
	if r.closedOrDropped && r.gcAfterClose {
		r.riskyCalls++
	}
}

// dangling executes the recorded known finding in a sacrificial worker: a
// reference to A's function stored in C's private table, A closed, every host
// reference dropped, forced GC, then a call through the reference.
func (r *runner) dangling() sim.Result {
	fmt.Fprintln(os.Stderr, "C09 sacrificial scenario: funcref of A in C's private table, A closed+dropped, GC, call through it")
	r.real = r.newSide(false, false)
	a, err := r.instantiateOn(r.real, 'A', 5, 0, 0)
	if err != nil {
		panic(err)
	}
	c, err := r.instantiateOn(r.real, 'C', 0, 1, 0)
	if err != nil {
		panic(err)
	}
	ref, _ := a.mod.ExportedFunction("getref").Call(r.ctx)
	c.mod.ExportedFunction("set").Call(r.ctx, 0, ref[0])
	before := outcome(c.mod.ExportedFunction("call").Call(r.ctx, 0, 1))
	a.mod.Close(r.ctx)
	a.mod = nil
	a = nil
	// churn the heap so that freed objects are reused
	var junk [][]byte
	for i := 0; i < 3; i++ {
		drainFinalizers(2)
		for j := 0; j < 20000; j++ {
			junk = append(junk, make([]byte, 64+j%512))
		}
		junk = nil
	}
	after := "?"
	var wide [][]*[128]byte
	for i := 0; i < 50; i++ {
		after = outcome(c.mod.ExportedFunction("call").Call(r.ctx, 0, 1))
		if after != before {
			break
		}
		drainFinalizers(1)
		// refill EVERY size class of pointerful objects up to 4 KiB (instance, engine and function records of
		// whatever size this tree gives them), every word pointing at the poisoned sentinel
		wide = wide[:0]
		for sz := 16; sz <= 4096; sz += 16 {
			n := 200
			if sz <= 512 {
				n = 20000 // (small classes have many partially used spans: fill them all)
			}
			for k := 0; k < n; k++ {
				p := make([]*[128]byte, sz/8)
				for j := range p {
					p[j] = &heapSentinel
				}
				wide = append(wide, p)
			}
		}
	}
	wide = nil
	var res sim.Result
	res.Logf("dangling reference survived: before=%s after=%s", before, after)
	res.Nontrivial = true
	res.Shape = "survived"
	if after != before {
		// a wrong result or an error that the call did not give before (typically "indirect call type
		// mismatch": the function record's type word is whatever the collector's next tenant wrote there)
		// without a crash is the same finding: the call reads reused heap
		res.Known = []string{danglingSig}
		res.Stat("probe.dangling_reference_wrong_result", 1)
	} else {
		res.Stat("probe.dangling_reference_survived", 1)
	}
	return res
}
