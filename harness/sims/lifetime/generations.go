package lifetime

import (
	"context"
	"fmt"

	"github.com/tetratelabs/wazero"
	"github.com/tetratelabs/wazero/api"

	"verifharness/sim"
	"verifharness/tape"
	"verifharness/wasmb"
)

// Class generations: the exporter "a" is replaced several times (closed, its handles dropped, collected, a
// new instance registered under the name with another constant), and ONE CompiledModule of an importer is
// instantiated once per generation.  The importer reaches a.inc directly, through a reference an element
// segment of its own table holds, and through ref.func; every importer instance -- the current one and the
// older ones, whose exporter is closed -- must compute with the constant of the generation it was linked
// against: inc_g(x) = x + k_g.  The answers are known without a twin runtime.
func modR() []byte {
	m := &wasmb.Module{}
	i32 := []wasmb.ValType{wasmb.I32}
	inc := m.ImportFunc("a", "inc", i32, i32)
	t := m.AddType(i32, i32)
	m.Tables = []wasmb.Table{{Elem: wasmb.FuncRef, Lim: wasmb.Limits{Min: 3}}}
	m.Elems = []wasmb.Elem{{Mode: 0, Offset: wasmb.ConstI32(0), Funcs: []uint32{inc}}}
	m.AddFunc(i32, i32, nil, (&wasmb.Code{}).LocalGet(0).Call(inc).B, "direct")
	m.AddFunc(i32, i32, nil, (&wasmb.Code{}).LocalGet(0).I32Const(0).CallIndirect(t, 0).B, "viaelem")
	m.AddFunc(i32, i32, nil, (&wasmb.Code{}).I32Const(1).RefFunc(inc).TableSet(0).LocalGet(0).I32Const(1).CallIndirect(t, 0).B, "viareffunc")
	return m.Encode()
}

func runGenerations(t *tape.Tape, cfg sim.Config) (res sim.Result) {
	ctx := context.Background()
	var rc wazero.RuntimeConfig
	if cfg.Engine == "interpreter" {
		rc = wazero.NewRuntimeConfigInterpreter()
	} else {
		rc = wazero.NewRuntimeConfigCompiler()
	}
	rt := wazero.NewRuntimeWithConfig(ctx, rc)
	defer rt.Close(ctx)
	cmR, err := rt.CompileModule(ctx, modR())
	if err != nil {
		panic(fmt.Sprintf("harness: %v", err))
	}
	aCompiledOnce := t.Chance(1, 2)
	var cmA wazero.CompiledModule
	type gen struct {
		k int32
		r api.Module
	}
	var gens []gen
	var shape []string
	ngen := 2 + t.Choose(3)
	for g := 0; g < ngen && res.Violation == nil; g++ {
		k := int32(1 + g*11 + t.Choose(5))
		var a api.Module
		if aCompiledOnce {
			// (every generation has the same binary then: k = the first generation's; what differs is poke)
			if cmA == nil {
				if cmA, err = rt.CompileModule(ctx, modA(5)); err != nil {
					panic(err)
				}
			}
			a, err = rt.InstantiateModule(ctx, cmA, wazero.NewModuleConfig().WithName("a"))
			if err == nil {
				// mem[300] = k - 5, so that inc(x) = x + 5 + (k-5) = x + k
				_, err = a.ExportedFunction("poke").Call(ctx, uint64(uint32(k-5)))
			}
		} else {
			a, err = rt.InstantiateWithConfig(ctx, modA(k), wazero.NewModuleConfig().WithName("a"))
		}
		if err != nil {
			res.Fail("behaviour-changed", "generation %d of the exporter cannot be instantiated under the name its closed predecessor had: %v", g, err)
			return
		}
		r, err := rt.InstantiateModule(ctx, cmR, wazero.NewModuleConfig().WithName(""))
		if err != nil {
			res.Fail("behaviour-changed", "generation %d: the importer's compiled module cannot be instantiated again: %v", g, err)
			return
		}
		gens = append(gens, gen{k, r})
		shape = append(shape, fmt.Sprintf("g%d", g))
		check := func(when string) {
			for j, ge := range gens {
				if ge.r == nil {
					continue
				}
				x := uint64(t.Choose(100))
				for _, fn := range []string{"direct", "viaelem", "viareffunc"} {
					got := outcome(ge.r.ExportedFunction(fn).Call(ctx, x))
					want := fmt.Sprintf("[%d]", uint32(int32(x)+ge.k))
					res.Logf("%s: importer of generation %d %s(%d) -> %s", when, j, fn, x, got)
					if got != want {
						res.Fail("behaviour-changed", "%s (generation %d is current): the importer instantiated against generation %d of the exporter (inc(x) = x + %d): %s(%d) = %s, expected %s", when, g, j, ge.k, fn, x, got, want)
						return
					}
					res.Steps++
				}
			}
		}
		check("after instantiating")
		if res.Violation != nil {
			return
		}
		// the exporter is closed and dropped (its name becomes free), sometimes an older importer too
		a.Close(ctx)
		a = nil
		if g > 0 && t.Chance(1, 3) {
			j := t.Choose(g)
			if gens[j].r != nil {
				gens[j].r.Close(ctx)
				gens[j].r = nil
				shape = append(shape, fmt.Sprintf("close-r%d", j))
			}
		}
		drainFinalizers(1 + t.Choose(2))
		check("after the exporter was closed, dropped and collected")
	}
	res.Nontrivial = true
	res.Shape = sim.ShapeOf(shape...)
	res.Stat("probe.exporter_generations", int64(ngen))
	smp := res.Trace
	if len(smp) > 12 {
		smp = smp[:12]
	}
	res.Sample = smp
	return
}
