package linking

import (
	"syscall"

	"github.com/tetratelabs/wazero/experimental"

	"verifharness/tape"
)

// movingAllocator is the buggify knob at the allocator seam: every growth
// moves the buffer to a fresh mmap region and turns the old one PROT_NONE, so
// a base pointer cached anywhere and not re-derived after the grow faults
// immediately instead of reading stale bytes.  failNext makes the next
// Reallocate fail (allocation failure fault).
type movingAllocator struct {
	t        *tape.Tape
	failNext bool
	frees    int
	regions  [][]byte
}

func (a *movingAllocator) Allocate(cap, max uint64) experimental.LinearMemory {
	return &movingMemory{a: a}
}

func (a *movingAllocator) freeAll() {
	for _, r := range a.regions {
		syscall.Munmap(r)
	}
	a.regions = nil
}

type movingMemory struct {
	a   *movingAllocator
	cur []byte // full region (length = mapped size)
	n   uint64 // bytes in use
}

func (m *movingMemory) Reallocate(size uint64) []byte {
	if m.a.failNext && m.cur != nil {
		return nil
	}
	mapSize := int(size)
	if mapSize == 0 {
		mapSize = 4096
	}
	mapSize = (mapSize + 4095) &^ 4095
	region, err := syscall.Mmap(-1, 0, mapSize, syscall.PROT_READ|syscall.PROT_WRITE, syscall.MAP_ANON|syscall.MAP_PRIVATE)
	if err != nil {
		return nil
	}
	m.a.regions = append(m.a.regions, region)
	if m.cur != nil {
		copy(region, m.cur[:m.n])
		// keep the old region mapped but inaccessible
		syscall.Mprotect(m.cur, syscall.PROT_NONE)
	}
	m.cur, m.n = region, size
	return region[:size:size]
}

// Free makes the current region inaccessible (it stays mapped until the run
// ends): any instance that still uses the memory after a Free faults at once.
func (m *movingMemory) Free() {
	if m.cur != nil {
		syscall.Mprotect(m.cur, syscall.PROT_NONE)
		m.a.frees++
	}
}
