// Package linking is the instance-graph simulator for C04: linked modules
// share state exactly as the specification says (single-copy model).
package linking

import (
	"context"
	"fmt"
	"math"
	"runtime"
	"strings"
	"time"

	"github.com/tetratelabs/wazero"
	"github.com/tetratelabs/wazero/api"
	"github.com/tetratelabs/wazero/experimental"
	"github.com/tetratelabs/wazero/experimental/table"
	"github.com/tetratelabs/wazero/imports/wasi_snapshot_preview1"

	"verifharness/sim"
	"verifharness/tape"
	"verifharness/wasmb"
)

type c04 struct{}

func init() { sim.Register(c04{}) }

func (c04) Property() string { return "C04" }

func (c04) Classes() []sim.Class {
	var cs []sim.Class
	for _, e := range []string{"interpreter", "compiler"} {
		cs = append(cs,
			sim.Class{Name: "graph", Engine: e, Quick: 1200, Thorough: 60000, DeathIsViolation: true, RunTimeoutSec: 120},
			sim.Class{Name: "graph-moving-allocator", Engine: e, Quick: 500, Thorough: 25000, DeathIsViolation: true, RunTimeoutSec: 120},
			// several instances of ONE compiled module around one imported table: every call form that crosses
			// from one instance into a sibling (twins.go)
			sim.Class{Name: "twins", Engine: e, Quick: 600, Thorough: 30000, DeathIsViolation: true, RunTimeoutSec: 60},
			sim.Class{Name: "type-identity", Engine: e, Quick: 300, Thorough: 15000, DeathIsViolation: true, RunTimeoutSec: 60},
		)
	}
	return cs
}

func (c04) Describe() sim.Description {
	return sim.Description{
		Level: "exploration",
		Rule: "class type-identity: three to five modules compiled one after the other with overlapping and duplicated type sections over a pool of eight structural types, one function per type in a shared table, every slot called with every type (a call succeeds exactly when the structural types are equal); class twins: several instances of one compiled module around one table, plus a collector module referencing the same-named import of two of them; otherwise: tape-generated graphs of 2-4 instances wired by imports of functions, one memory, one table and five globals (mutable i32/i64/f32/f64, immutable i32), each object either defined by the instance or imported from ANY earlier instance (chains through re-exports included); every import is drawn compatible or incompatible in exactly one respect (signature, value type, mutability, memory min/max, table min/max/element type, missing export, missing module). " +
			"Then a history of 10-40 steps: writers and readers of every shared object from every side, memory.grow from any instance and through the host API, table.set/grow/call_indirect, host API global access, and further instantiations after state changed whose active data/element segment offsets and global initialisers read the imported immutable global, with out-of-bounds segments (earlier segments persist) and trapping start functions. " +
			"Oracle: single-copy model (one value per global object, one byte array and size per memory, one slot array per table); after EVERY step every instance's own getters (guest code) and the host API agree with the model; instantiation succeeds iff the model's compatibility rule says so, and after a failed instantiation the name is free and all earlier instances still match. " +
			"Class graph-moving-allocator: a custom MemoryAllocator over harness-owned mmap regions that always moves the buffer on grow and turns the old region PROT_NONE (a stale cached base pointer faults at once; worker death = violation) and, per tape, fails allocation. Non-trivial: an object shared by >= 2 instances was written from one side and read from another after a grow or a later instantiation; distinct = distinct (graph, step kinds) sequences",
		RealCode:    []string{"internal/wasm store.go resolveImports / applyData / applyElements / global initialisation", "both engines' imported function/memory/global indirection", "experimental.MemoryAllocator seam", "api.Memory / api.Global host API"},
		Stubs:       []string{"class graph-moving-allocator: the memory allocator is the harness's (mmap regions, always-move, PROT_NONE old regions, injected allocation failure)"},
		Assumptions: []string{"generated graphs are valid by construction (a mutable imported global in a constant expression would be an invalid module; not generated)", "table import minimum is compared with the current size only where wazero and the specification agree (import min <= declared min or > current size)"},
		FaultKinds:  []string{"incompatible_import", "missing_export", "out_of_bounds_segment", "trapping_start", "allocator_failure", "allocator_moves_buffer", "close_leaf_instance", "forced_gc_after_close"},
	}
}

// ---- objects of the single-copy model

const (
	nCells   = 32
	tabInit  = 8
	// startSlot: where the start function of variant 3 puts the instance's own function before it traps
	startSlot = 5
	memMax   = 4
	gI32     = 0
	gI64     = 1
	gF32     = 2
	gF64     = 3
	gConst   = 4
	nGlobals = 5
)

var gTypes = []wasmb.ValType{wasmb.I32, wasmb.I64, wasmb.F32, wasmb.F64, wasmb.I32}

type memObj struct {
	cells [nCells]int32
	pages int
	max   int
}

type fnRef struct {
	inst int // -1 null
}

type tabObj struct {
	slots []fnRef
	max   int // -1 none
}

type globObj struct {
	bits uint64
	kind int
}

// instance of the model
type inst struct {
	idx   int
	name  string
	mem   *memObj
	tab   *tabObj
	globs [nGlobals]*globObj
	mod   api.Module
	imps  []int // imported id functions: indices of defining instances
	cap   int32 // value of the imported mutable i32 global when this instance was created (capturesMut)
}

// module specification
type spec struct {
	idx     int
	name    string
	memFrom int // -1 own, j import from instance j
	tabFrom int
	gFrom   [nGlobals]int
	impFn   []int    // module each function import comes from
	impName []string // export name there: "id" (its own function) or "re<k>" (a function it re-exports)
	impDef  []int    // the instance that ultimately defines the function
	// twist makes one import incompatible / missing
	twist string
	// segments
	dataSeg        bool
	oobSeg         bool
	elemSeg        bool
	elemImp        bool // the element segment's item is the first IMPORTED function instead of the module's own id
	aliasImp       bool // the mutable i32 global is imported a second time under another index
	aliasOtherName bool // ... through the exporter's second export name of the same global
	funcImpLast    bool // the import section lists memory, table and globals BEFORE the functions (indexes are per kind)
	capMut         bool // a private global is initialised with global.get of the imported mutable i32 global
	elemNull       bool // the element segment has a second item, ref.null, which clears the slot after the first
	ownInit        bool // own mutable i32 global initialised from the imported immutable global
	start          int  // 0 none, 1 writes cell 31, 2 writes then traps
	constVal       int32
	memMin         int  // declared minimum of the memory import (0 = 1 page)
	tabMin         int  // declared minimum of the table import (0 = the initial size)
	noTabExport    bool // an imported table is not re-exported by this module
}

func (s *spec) describe() string {
	return fmt.Sprintf("m%d{mem<-%d tab<-%d globals<-%v funcs<-%v%v tabMin=%d twist=%q data=%v oob=%v elem=%v/%v ownInit=%v start=%d const=%d}", s.idx, s.memFrom, s.tabFrom, s.gFrom, s.impFn, s.impName, s.tabMin, s.twist, s.dataSeg, s.oobSeg, s.elemSeg, s.elemNull, s.ownInit, s.start, s.constVal)
}

// gcUsable: the immutable i32 global is imported with its proper type, so
// constant expressions may read it.
func (s *spec) gcUsable() bool {
	return s.gFrom[gConst] >= 0 && s.twist != fmt.Sprintf("global-type-%d", gConst) && s.twist != fmt.Sprintf("global-mut-%d", gConst)
}

// putsImport: the element segment writes the first imported function (properly typed) into the table.
func (s *spec) putsImport() bool {
	return s.elemImp && len(s.impFn) > 0 && !strings.HasPrefix(s.twist, "func-")
}

// capturesMut: the mutable i32 global is imported (with its proper type) and a private global copies it.
func (s *spec) capturesMut() bool {
	return s.capMut && s.gFrom[gI32] >= 0 && !strings.HasPrefix(s.twist, "global-")
}

func constExpr(kind int, v int32) []byte {
	switch kind {
	case gI64:
		return wasmb.ConstI64(int64(v))
	case gF32:
		return wasmb.ConstF32(float32(v))
	case gF64:
		return wasmb.ConstF64(float64(v))
	}
	return wasmb.ConstI32(v)
}

func initBits(kind int, v int32) uint64 {
	switch kind {
	case gI64:
		return uint64(int64(v))
	case gF32:
		return uint64(math.Float32bits(float32(v)))
	case gF64:
		return math.Float64bits(float64(v))
	}
	return uint64(uint32(v))
}

// build emits the module for a spec.  The export surface is the same for every
// module: mem, tab, g0..g4, id, rd_cell, wr_cell, mem_size, mem_grow, rd_g*,
// wr_g*, tab_size, tab_grow, tab_set, tab_call, tab_isnull, imp<k>.
func build(s *spec, specs []*spec) []byte {
	m := &wasmb.Module{}
	i32 := []wasmb.ValType{wasmb.I32}
	modName := func(j int) string { return specs[j].name }
	if s.funcImpLast {
		// type 0 is a type of its own: nothing that defaults to "type index 0" matches a real function
		m.AddType([]wasmb.ValType{wasmb.F64, wasmb.I64}, []wasmb.ValType{wasmb.F32})
	}
	// imports: functions first (index space), then others
	for k, j := range s.impFn {
		p, r := i32, i32
		if s.twist == fmt.Sprintf("func-sig-%d", k) {
			p = []wasmb.ValType{wasmb.I64}
		}
		name := s.impName[k]
		if s.twist == fmt.Sprintf("func-missing-%d", k) {
			name = "nosuch"
		}
		m.ImportFunc(modName(j), name, p, r)
	}
	// WASI sched_yield: "id" calls it, so a function that survives in a shared table needs its own
	// instance's system context (the default Osyield does nothing)
	yieldFn := m.ImportFunc("wasi_snapshot_preview1", "sched_yield", nil, i32)
	growImp := -1
	if s.memFrom >= 0 {
		// the memory owner's grow function: lets a caller hold a memory base across a growing callee
		growImp = int(m.ImportFunc(modName(s.memFrom), "grow1", nil, i32))
	}
	// the table.grow function of every module we import a function from: its table may or may not be ours
	var tgrowOf []uint32
	for _, j := range s.impFn {
		tgrowOf = append(tgrowOf, m.ImportFunc(modName(j), "tgrow1", nil, i32))
	}
	tgrowImp, bumpImp := -1, -1
	if s.tabFrom >= 0 {
		tgrowImp = int(m.ImportFunc(modName(s.tabFrom), "tgrow1", nil, i32))
	}
	g0Twisted := s.twist == fmt.Sprintf("global-type-%d", gI32) || s.twist == fmt.Sprintf("global-mut-%d", gI32) || s.twist == fmt.Sprintf("global-nomodule-%d", gI32)
	if s.gFrom[gI32] >= 0 && !g0Twisted {
		bumpImp = int(m.ImportFunc(modName(s.gFrom[gI32]), "bump_g0", nil, nil))
	}
	nImpF := uint32(len(s.impFn))
	gidx := map[int]uint32{}
	effType := append([]wasmb.ValType(nil), gTypes...)
	effMut := []bool{true, true, true, true, false}
	var nImpG uint32
	for k := 0; k < nGlobals; k++ {
		if s.gFrom[k] >= 0 {
			vt, mut := gTypes[k], k != gConst
			if s.twist == fmt.Sprintf("global-type-%d", k) {
				if vt == wasmb.I32 {
					vt = wasmb.I64
				} else {
					vt = wasmb.I32
				}
			}
			if s.twist == fmt.Sprintf("global-mut-%d", k) {
				mut = !mut
			}
			effType[k], effMut[k] = vt, mut
			mn := modName(s.gFrom[k])
			if s.twist == fmt.Sprintf("global-nomodule-%d", k) {
				mn = "absent"
			}
			m.Imports = append(m.Imports, wasmb.Import{Module: mn, Name: fmt.Sprintf("g%d", k), Kind: wasmb.KindGlobal, GlobalType: vt, GlobalMut: mut})
			gidx[k] = nImpG
			nImpG++
		}
	}
	// the same exported global imported a second time: both import indexes name one object
	aliasG := -1
	if s.aliasImp && s.gFrom[gI32] >= 0 && effMut[gI32] && effType[gI32] == wasmb.I32 && !strings.HasPrefix(s.twist, "global-") {
		// ... under the same export name, or under the second name every module exports the global with
		aliasName := fmt.Sprintf("g%d", gI32)
		if s.aliasOtherName {
			aliasName = fmt.Sprintf("g%dbis", gI32)
		}
		m.Imports = append(m.Imports, wasmb.Import{Module: modName(s.gFrom[gI32]), Name: aliasName, Kind: wasmb.KindGlobal, GlobalType: wasmb.I32, GlobalMut: true})
		aliasG = int(nImpG)
		nImpG++
	}
	if s.memFrom >= 0 {
		lim := wasmb.Limits{Min: 1, Max: memMax, HasMax: true}
		if s.memMin > 0 {
			lim.Min = uint32(s.memMin)
		}
		switch s.twist {
		case "mem-min":
			lim.Min = 5
			lim.Max, lim.HasMax = 8, true
		case "mem-max":
			lim.Max = 2
			if lim.Min > lim.Max {
				lim.Min = 1
			}
		case "mem-shared":
			lim.Shared = true // the exported memory is not shared
		}
		m.Imports = append(m.Imports, wasmb.Import{Module: modName(s.memFrom), Name: "mem", Kind: wasmb.KindMemory, Mem: lim})
	} else {
		m.Mem = &wasmb.Limits{Min: 1, Max: memMax, HasMax: true}
	}
	if s.tabFrom >= 0 {
		tb := wasmb.Table{Elem: wasmb.FuncRef, Lim: wasmb.Limits{Min: tabInit, Max: 16, HasMax: true}}
		if s.tabMin > 0 {
			tb.Lim.Min = uint32(s.tabMin)
		}
		switch s.twist {
		case "tab-min":
			tb.Lim.Min = 40
			tb.Lim.Max = 64
		case "tab-max":
			tb.Lim.Max = 12
		case "tab-elem":
			tb.Elem = wasmb.ExternRef
		}
		m.Imports = append(m.Imports, wasmb.Import{Module: modName(s.tabFrom), Name: "tab", Kind: wasmb.KindTable, Table: tb})
	} else {
		m.Tables = []wasmb.Table{{Elem: wasmb.FuncRef, Lim: wasmb.Limits{Min: tabInit, Max: 16, HasMax: true}}}
	}
	// own globals
	for k := 0; k < nGlobals; k++ {
		if s.gFrom[k] < 0 {
			init := constExpr(k, int32(100*(s.idx+1)+k))
			if k == gConst {
				init = wasmb.ConstI32(s.constVal)
			}
			if k == gI32 && s.ownInit && s.gcUsable() {
				init = wasmb.ConstGlobalGet(gidx[gConst])
			}
			m.Globals = append(m.Globals, wasmb.Global{Type: gTypes[k], Mut: k != gConst, Init: init})
			gidx[k] = nImpG + uint32(len(m.Globals)-1)
		}
	}
	// a private global holding the instance's index: "id" reads it, so a function that survives in a
	// shared table depends on its own instance's state being in place
	m.Globals = append(m.Globals, wasmb.Global{Type: wasmb.I32, Mut: true, Init: wasmb.ConstI32(int32(s.idx))})
	ownG := nImpG + uint32(len(m.Globals)-1)
	// a private immutable global initialised from the imported MUTABLE i32 global (wazero accepts that
	// in a constant expression): a value captured at instantiation time
	capG := -1
	if s.capturesMut() {
		m.Globals = append(m.Globals, wasmb.Global{Type: wasmb.I32, Mut: false, Init: wasmb.ConstGlobalGet(gidx[gI32])})
		capG = int(nImpG) + len(m.Globals) - 1
	}
	for k := 0; k < nGlobals; k++ {
		m.Exports = append(m.Exports, wasmb.Export{Name: fmt.Sprintf("g%d", k), Kind: wasmb.KindGlobal, Idx: gidx[k]})
	}
	// the mutable i32 global is exported under a second name too (one object, two names)
	m.Exports = append(m.Exports, wasmb.Export{Name: fmt.Sprintf("g%dbis", gI32), Kind: wasmb.KindGlobal, Idx: gidx[gI32]})
	m.Exports = append(m.Exports, wasmb.Export{Name: "mem", Kind: wasmb.KindMemory, Idx: 0})
	if !s.noTabExport {
		m.Exports = append(m.Exports, wasmb.Export{Name: "tab", Kind: wasmb.KindTable, Idx: 0})
	}
	// functions
	tI := m.AddType(i32, i32)
	c := func() *wasmb.Code { return &wasmb.Code{} }
	// (it also loads from the instance's memory, discarding the value: the memory must be there)
	idFn := m.AddFunc(i32, i32, nil, c().Call(yieldFn).Drop().LocalGet(0).I32Const(10).I32Mul().GlobalGet(ownG).I32Add().I32Const(8*30).I32Load(0).I32Const(0).I32Mul().I32Add().B, "id")
	m.AddFunc(i32, i32, nil, c().LocalGet(0).I32Const(8).I32Mul().I32Load(0).B, "rd_cell")
	m.AddFunc([]wasmb.ValType{wasmb.I32, wasmb.I32}, nil, nil, c().LocalGet(0).I32Const(8).I32Mul().LocalGet(1).I32Store(0).B, "wr_cell")
	m.AddFunc(nil, i32, nil, c().MemorySize().B, "mem_size")
	m.AddFunc(i32, i32, nil, c().LocalGet(0).MemoryGrow().B, "mem_grow")
	grow1 := m.AddFunc(nil, i32, nil, c().I32Const(1).MemoryGrow().B, "grow1")
	if growImp >= 0 {
		grow1 = uint32(growImp)
	}
	// stale(c, v): store, let a callee (possibly of another instance) grow the memory, load again
	m.AddFunc([]wasmb.ValType{wasmb.I32, wasmb.I32}, i32, nil,
		c().LocalGet(0).I32Const(8).I32Mul().LocalGet(1).I32Store(0).Call(grow1).Drop().LocalGet(0).I32Const(8).I32Mul().I32Load(0).B, "stale")
	for k := 0; k < nGlobals; k++ {
		vt := []wasmb.ValType{effType[k]}
		m.AddFunc(nil, vt, nil, c().GlobalGet(gidx[k]).B, fmt.Sprintf("rd_g%d", k))
		if effMut[k] {
			m.AddFunc(vt, nil, nil, c().LocalGet(0).GlobalSet(gidx[k]).B, fmt.Sprintf("wr_g%d", k))
		}
	}
	// cross-instance nesting: a callee in another instance grows the shared table / bumps the shared
	// global while the caller's activation is live; the caller then looks again
	tgrow1 := m.AddFunc(nil, i32, nil, c().RefNull(wasmb.FuncRef).I32Const(1).TableGrow(0).B, "tgrow1")
	if tgrowImp >= 0 {
		tgrow1 = uint32(tgrowImp)
	}
	m.AddFunc(nil, i32, nil, c().Call(tgrow1).I32Const(100).I32Mul().TableSize(0).I32Add().B, "xtab_grow")
	for k, f := range tgrowOf {
		m.AddFunc(nil, i32, nil, c().Call(f).I32Const(100).I32Mul().TableSize(0).I32Add().B, fmt.Sprintf("xg%d", k))
	}
	if effMut[gI32] && effType[gI32] == wasmb.I32 {
		bump := m.AddFunc(nil, nil, nil, c().GlobalGet(gidx[gI32]).I32Const(1).I32Add().GlobalSet(gidx[gI32]).B, "bump_g0")
		if bumpImp >= 0 {
			bump = uint32(bumpImp)
		}
		m.AddFunc(nil, i32, []wasmb.ValType{wasmb.I32}, c().GlobalGet(gidx[gI32]).LocalSet(0).Call(bump).GlobalGet(gidx[gI32]).LocalGet(0).I32Sub().B, "g_across")
	}
	if capG >= 0 {
		m.AddFunc(nil, i32, nil, c().GlobalGet(uint32(capG)).B, "rd_cap")
	}
	if aliasG >= 0 {
		// read through one import index, write through the other, read again: old + new
		m.AddFunc(i32, i32, nil, c().GlobalGet(uint32(aliasG)).LocalGet(0).GlobalSet(gidx[gI32]).GlobalGet(uint32(aliasG)).I32Add().B, "g_alias")
	}
	m.AddFunc(nil, i32, nil, c().TableSize(0).B, "tab_size")
	m.AddFunc(i32, i32, nil, c().RefNull(wasmb.FuncRef).LocalGet(0).TableGrow(0).B, "tab_grow")
	m.AddFunc(i32, nil, nil, c().LocalGet(0).RefFunc(idFn).TableSet(0).B, "tab_set")
	m.AddFunc([]wasmb.ValType{wasmb.I32, wasmb.I32}, i32, nil, c().LocalGet(1).LocalGet(0).CallIndirect(tI, 0).B, "tab_call")
	m.AddFunc(i32, i32, nil, c().LocalGet(0).TableGet(0).RefIsNull().B, "tab_isnull")
	for k := range s.impFn {
		// re-export the imported function: a later module may import it from here
		m.Exports = append(m.Exports, wasmb.Export{Name: fmt.Sprintf("re%d", k), Kind: wasmb.KindFunc, Idx: uint32(k)})
		if s.twist == fmt.Sprintf("func-sig-%d", k) {
			m.AddFunc(i32, i32, nil, c().LocalGet(0).I64ExtendI32U().Call(uint32(k)).B, fmt.Sprintf("imp%d", k))
			continue
		}
		m.AddFunc(i32, i32, nil, c().LocalGet(0).Call(uint32(k)).B, fmt.Sprintf("imp%d", k))
	}
	_ = nImpF
	if s.start > 0 {
		sc := c().I32Const(8 * 31).I32Const(int32(7000 + s.idx)).I32Store(0)
		if s.start == 3 {
			// publishes a function of the half-built instance through the table, then traps
			sc.I32Const(startSlot).RefFunc(idFn).TableSet(0)
		}
		if s.start >= 2 {
			sc.Unreachable()
		}
		st := m.AddFunc(nil, nil, nil, sc.B, "")
		m.Start = &st
	}
	// segments
	off := func() []byte {
		if s.gcUsable() {
			return wasmb.ConstGlobalGet(gidx[gConst])
		}
		return wasmb.ConstI32(s.constVal)
	}
	if s.twist == "elem-item-global-i32" {
		// an element item "global.get <imported i32 global>": not a reference, the module is invalid
		m.Elems = append(m.Elems, wasmb.Elem{Mode: 0, Offset: wasmb.ConstI32(0), Funcs: []uint32{gidx[gI32]}, GlobalAt: map[int]bool{0: true}})
	} else if s.elemSeg {
		first := idFn
		if s.putsImport() {
			first = 0 // function index 0 = the first imported function
		}
		if s.elemNull {
			m.Elems = append(m.Elems, wasmb.Elem{Mode: 0, Offset: off(), Funcs: []uint32{first, 0}, NullAt: map[int]bool{1: true}})
		} else {
			m.Elems = append(m.Elems, wasmb.Elem{Mode: 0, Offset: off(), Funcs: []uint32{first}})
		}
	}
	// (no declarative segment: id is exported, which already makes ref.func id valid; a module without
	// an active segment thus has NO element section at all)
	if s.dataSeg {
		// the const expression yields the cell index... as a byte offset: cells are 8 bytes apart, so
		// the data lands at byte offset v, i.e. inside cell v/8 when v%8==0.  constVal is a multiple of 8.
		v := uint32(9000 + s.idx)
		m.Datas = append(m.Datas, wasmb.Data{Offset: off(), Bytes: []byte{byte(v), byte(v >> 8), byte(v >> 16), byte(v >> 24)}})
	}
	if s.oobSeg {
		m.Datas = append(m.Datas, wasmb.Data{Offset: wasmb.ConstI32(0x7ffffff0), Bytes: []byte{1, 2, 3, 4}})
	}
	if s.funcImpLast {
		// index spaces are per kind: the order BETWEEN kinds in the import section changes no index
		var fn, other []wasmb.Import
		for _, im := range m.Imports {
			if im.Kind == wasmb.KindFunc {
				fn = append(fn, im)
			} else {
				other = append(other, im)
			}
		}
		m.Imports = append(other, fn...)
	}
	return m.Encode()
}

type runner struct {
	closedLeaf map[int]bool // instances closed by the leaf-close step
	t          *tape.Tape
	res        *sim.Result
	rt         wazero.Runtime
	ctx        context.Context
	specs      []*spec
	insts      []*inst // nil for failed instantiations
	alloc      *movingAllocator
	shape      []string
	cross      int
	growOrInst bool
	lastWriter map[any]int
}

func (r *runner) call(in *inst, fn string, args ...uint64) ([]uint64, error) {
	return in.mod.ExportedFunction(fn).Call(r.ctx, args...)
}

// compatible evaluates the model's linking rule for a spec against the live model.
func (r *runner) compatible(s *spec) (bool, string) {
	if s.twist != "" {
		// every twist makes exactly one import incompatible, provided the import exists
		switch {
		case strings.HasPrefix(s.twist, "func-"):
			return false, s.twist
		case strings.HasPrefix(s.twist, "global-"):
			return false, s.twist
		case strings.HasPrefix(s.twist, "mem-"), strings.HasPrefix(s.twist, "tab-"), strings.HasPrefix(s.twist, "elem-"):
			return false, s.twist
		}
	}
	if s.memFrom >= 0 && s.memMin > r.insts[s.memFrom].mem.pages {
		return false, fmt.Sprintf("memory import minimum %d > current size %d", s.memMin, r.insts[s.memFrom].mem.pages)
	}
	if s.tabFrom >= 0 && s.tabMin > len(r.insts[s.tabFrom].tab.slots) {
		return false, fmt.Sprintf("table import minimum %d > current size %d", s.tabMin, len(r.insts[s.tabFrom].tab.slots))
	}
	return true, ""
}

func (c04) Run(t *tape.Tape, cfg sim.Config) (res sim.Result) {
	if cfg.Class == "twins" {
		return runTwins(t, cfg)
	}
	if cfg.Class == "type-identity" {
		return runTypeIdentity(t, cfg)
	}
	ctx := context.Background()
	r := &runner{t: t, res: &res, ctx: ctx, lastWriter: map[any]int{}}
	var rc wazero.RuntimeConfig
	if cfg.Engine == "interpreter" {
		rc = wazero.NewRuntimeConfigInterpreter()
	} else {
		rc = wazero.NewRuntimeConfigCompiler()
	}
	if cfg.Class == "graph-moving-allocator" {
		r.alloc = &movingAllocator{t: t}
		ctx = experimental.WithMemoryAllocator(ctx, r.alloc)
		r.ctx = ctx
		defer r.alloc.freeAll()
	}
	if t.Chance(1, 2) {
		rc = rc.WithMemoryCapacityFromMax(true) // growth then happens inside the existing capacity
	}
	rc = rc.WithCoreFeatures(api.CoreFeaturesV2 | experimental.CoreFeaturesThreads)
	r.rt = wazero.NewRuntimeWithConfig(ctx, rc)
	defer r.rt.Close(ctx)
	if _, err := wasi_snapshot_preview1.Instantiate(ctx, r.rt); err != nil {
		panic(err)
	}
	ninit := t.Range(2, 3)
	for i := 0; i < ninit && res.Violation == nil; i++ {
		r.instantiate(i > 0 && t.Chance(1, 5))
	}
	nsteps := t.Range(10, 40)
	for i := 0; i < nsteps && res.Violation == nil; i++ {
		r.step()
		if res.Violation == nil {
			r.checkAll(fmt.Sprintf("step %d", i))
		}
		res.Steps++
	}
	res.Shape = sim.ShapeOf(r.shape...)
	res.Nontrivial = r.cross > 0 && r.growOrInst
	res.Stat("probe.cross_instance_observations", int64(r.cross))
	var sp []string
	for _, s := range r.specs {
		sp = append(sp, s.describe())
	}
	smp := res.Trace
	if len(smp) > 12 {
		smp = smp[:12]
	}
	res.Sample = map[string]any{"graph": sp, "steps": smp}
	return
}

func (r *runner) live() []*inst {
	var l []*inst
	for _, in := range r.insts {
		if in != nil {
			l = append(l, in)
		}
	}
	return l
}

// instantiate adds a module to the graph (twisted = incompatible in one respect).
func (r *runner) instantiate(twisted bool) {
	t := r.t
	live := r.live()
	idx := len(r.specs)
	s := &spec{idx: idx, name: fmt.Sprintf("m%d", idx), memFrom: -1, tabFrom: -1, constVal: int32(8 * t.Choose(3))}
	for k := range s.gFrom {
		s.gFrom[k] = -1
	}
	pick := func() int { return live[t.Choose(len(live))].idx }
	if len(live) > 0 {
		if t.Chance(3, 4) {
			s.memFrom = pick()
		}
		if t.Chance(3, 4) {
			// from a module that exports its table
			var cands []int
			for _, c := range live {
				if !r.specs[c.idx].noTabExport {
					cands = append(cands, c.idx)
				}
			}
			if len(cands) > 0 {
				s.tabFrom = cands[t.Choose(len(cands))]
				s.noTabExport = t.Chance(1, 2)
			}
		}
		for k := range s.gFrom {
			if t.Chance(2, 3) {
				s.gFrom[k] = pick()
			}
		}
		for n := t.Choose(3); n > 0; n-- {
			j := pick()
			name, def := "id", j
			if pj := r.specs[j]; len(pj.impFn) > 0 && pj.twist == "" && t.Chance(1, 2) {
				k2 := t.Choose(len(pj.impFn))
				name, def = fmt.Sprintf("re%d", k2), pj.impDef[k2]
			}
			s.impFn = append(s.impFn, j)
			s.impName = append(s.impName, name)
			s.impDef = append(s.impDef, def)
		}
	}
	if s.memFrom >= 0 {
		cur := r.insts[s.memFrom].mem.pages
		switch t.Weighted(3, 2, 1) {
		case 1:
			s.memMin = cur // the import's minimum equals the CURRENT size (after growth): compatible
		case 2:
			s.memMin = cur + 1 // one page more than there is: incompatible
		}
		if s.memMin > memMax {
			s.memMin = 0
		}
	}
	if s.tabFrom >= 0 {
		cur := len(r.insts[s.tabFrom].tab.slots)
		switch t.Weighted(3, 2, 1) {
		case 1:
			s.tabMin = cur // the CURRENT size (after table.grow): compatible
		case 2:
			s.tabMin = cur + 1 // incompatible
		}
		if s.tabMin > 16 {
			s.tabMin = 0
		}
	}
	s.dataSeg = t.Chance(1, 2)
	s.elemSeg = t.Chance(1, 2)
	s.elemNull = s.elemSeg && t.Chance(1, 3)
	s.capMut = t.Chance(1, 2)
	s.aliasImp = t.Chance(1, 2)
	s.aliasOtherName = t.Chance(1, 2)
	s.funcImpLast = t.Chance(1, 2)
	s.elemImp = t.Chance(1, 3)
	s.ownInit = t.Chance(1, 2)
	s.start = t.Weighted(6, 2, 1, 1)
	s.oobSeg = t.Chance(1, 8)
	if twisted && len(live) > 0 {
		var opts []string
		for k := range s.impFn {
			opts = append(opts, fmt.Sprintf("func-sig-%d", k), fmt.Sprintf("func-missing-%d", k))
		}
		for k := range s.gFrom {
			if s.gFrom[k] >= 0 {
				opts = append(opts, fmt.Sprintf("global-type-%d", k), fmt.Sprintf("global-mut-%d", k), fmt.Sprintf("global-nomodule-%d", k))
			}
		}
		if s.memFrom >= 0 {
			opts = append(opts, "mem-min", "mem-max", "mem-shared")
		}
		if s.gFrom[gI32] >= 0 {
			opts = append(opts, "elem-item-global-i32")
		}
		if s.tabFrom >= 0 {
			opts = append(opts, "tab-min", "tab-max")
		}
		if len(opts) > 0 {
			s.twist = opts[t.Choose(len(opts))]
			if s.memFrom >= 0 && s.memMin > r.insts[s.memFrom].mem.pages {
				s.memMin = 0 // exactly one incompatibility per module
			}
			if s.tabFrom >= 0 && (s.tabMin > len(r.insts[s.tabFrom].tab.slots) || strings.HasPrefix(s.twist, "tab-")) {
				s.tabMin = 0
			}
		}
	}
	r.specs = append(r.specs, s)
	r.insts = append(r.insts, nil)
	what := "instantiate " + s.describe()
	r.shape = append(r.shape, "inst:"+s.twist)
	bin := build(s, r.specs)
	// model: resolve objects
	in := &inst{idx: idx, name: s.name, imps: s.impDef}
	get := func(j int) *inst { return r.insts[j] }
	wantOK, why := r.compatible(s)
	if s.memFrom >= 0 {
		in.mem = get(s.memFrom).mem
		if s.twist == "mem-min" && in.mem.pages >= 5 {
			wantOK = true // the memory has grown enough meanwhile: min 5 is satisfied... but max 8 >= 4 fine
		}
	} else {
		in.mem = &memObj{pages: 1, max: memMax}
	}
	if s.tabFrom >= 0 {
		in.tab = get(s.tabFrom).tab
	} else {
		in.tab = &tabObj{slots: make([]fnRef, tabInit), max: 16}
		for i := range in.tab.slots {
			in.tab.slots[i].inst = -1
		}
	}
	for k := 0; k < nGlobals; k++ {
		if s.gFrom[k] >= 0 {
			in.globs[k] = get(s.gFrom[k]).globs[k]
		}
	}
	for k := 0; k < nGlobals; k++ {
		if s.gFrom[k] < 0 {
			g := &globObj{kind: k, bits: initBits(k, int32(100*(idx+1)+k))}
			if k == gConst {
				g.bits = uint64(uint32(s.constVal))
			}
			if k == gI32 && s.ownInit && s.gcUsable() {
				g.bits = in.globs[gConst].bits
			}
			in.globs[k] = g
		}
	}
	// instantiation effects in specification order: element segment, data segments, start
	nullProbe, nullPrev := -1, fnRef{}
	capAtInst := int32(0)
	if s.capturesMut() {
		capAtInst = int32(uint32(in.globs[gI32].bits))
	}
	effects := func() bool {
		offV := s.constVal
		if s.gcUsable() {
			offV = int32(uint32(in.globs[gConst].bits))
		}
		n := 1
		if s.elemNull {
			n = 2
		}
		if s.elemSeg && int(offV)+n <= len(in.tab.slots) {
			// (an out-of-bounds active element segment is documented by wazero as
			// ignored rather than failing the instantiation: store.go applyElements)
			in.tab.slots[offV] = fnRef{inst: idx}
			if s.putsImport() {
				in.tab.slots[offV] = fnRef{inst: s.impDef[0]}
			}
			if s.elemNull {
				if prev := in.tab.slots[offV+1]; prev.inst >= 0 {
					nullProbe, nullPrev = int(offV)+1, prev
				}
				in.tab.slots[offV+1] = fnRef{inst: -1} // ref.null overwrites what was there
			}
		}
		if s.dataSeg {
			if int(offV)+4 > in.mem.pages*65536 {
				return false
			}
			if offV%8 == 0 && offV/8 < nCells {
				in.mem.cells[offV/8] = int32(9000 + idx)
			}
		}
		if s.oobSeg {
			return false
		}
		if s.start > 0 {
			in.mem.cells[31] = int32(7000 + idx)
			if s.start == 3 {
				in.tab.slots[startSlot] = fnRef{inst: idx} // stays callable: side effects of a failed instantiation persist
			}
			if s.start >= 2 {
				return false
			}
		}
		return true
	}
	// a compatible module may be instantiated under a name that is TAKEN: it must fail and, having never
	// existed, leave no trace in the objects it would have shared (segments not applied, start not run)
	instName, dupName := s.name, false
	if lv := r.live(); wantOK && len(lv) > 0 && r.t.Chance(1, 10) {
		instName, dupName = lv[r.t.Choose(len(lv))].name, true
		wantOK, why = false, "the name is taken by an open module"
		r.res.Stat("fault.instantiation_under_a_taken_name", 1)
	}
	if wantOK {
		wantOK = effects()
		if !wantOK {
			why = "segment out of bounds or trapping start"
		}
	}
	cm, err := r.rt.CompileModule(r.ctx, bin)
	if s.twist == "elem-item-global-i32" {
		// invalid by its own text: must be refused when compiled
		r.res.Logf("%s -> compile failed=%v", what, err != nil)
		if err == nil {
			r.res.Fail("link-compatibility", "%s: an element item that is global.get of an i32 global was accepted by CompileModule (the integer would become a function reference in the shared table)", what)
		}
		return
	}
	if err != nil {
		panic(fmt.Sprintf("harness: generated module does not compile: %v\n%s", err, s.describe()))
	}
	mod, err := r.rt.InstantiateModule(r.ctx, cm, wazero.NewModuleConfig().WithName(instName))
	// (the error text is not logged: with several imports wazero reports whichever it meets first, in map order)
	r.res.Logf("%s -> failed=%v (model: ok=%v %s)", what, err != nil, wantOK, why)
	if (err == nil) != wantOK {
		r.res.Fail("link-compatibility", "%s: model says instantiation ok=%v (%s), wazero returned %v", what, wantOK, why, errLine(err))
		return
	}
	if nullProbe >= 0 {
		// recorded known finding: a ref.null item of an active element segment does not overwrite the
		// entry an imported table already holds.  Probed right here, through any instance on this table.
		probe := mod
		for _, o := range r.insts {
			if probe == nil && o != nil && o.mod != nil && !o.mod.IsClosed() && o.tab == in.tab {
				probe = o.mod
			}
		}
		if probe != nil {
			if res, perr := probe.ExportedFunction("tab_isnull").Call(r.ctx, uint64(nullProbe)); perr == nil && res[0] == 0 {
				r.res.Known = append(r.res.Known, "null-element-item-does-not-overwrite")
				in.tab.slots[nullProbe] = nullPrev
			}
		}
	}
	if err != nil {
		r.res.Stat("fault.failed_instantiation", 1)
		// the name must be free again
		if !dupName && r.rt.Module(s.name) != nil {
			r.res.Fail("failed-instantiation-leaks", "%s failed but the name %s is still registered", what, s.name)
		}
		return
	}
	in.mod = mod
	r.insts[idx] = in
	r.growOrInst = true
	if s.capturesMut() {
		in.cap = capAtInst
		res, err := mod.ExportedFunction("rd_cap").Call(r.ctx)
		if err != nil || int32(uint32(res[0])) != in.cap {
			r.res.Fail("captured-value", "%s: the private global initialised with global.get of the imported mutable global holds %v %v, the global's value at instantiation was %d", what, res, errLine(err), in.cap)
		}
	}
}

// hostLookupCall looks the slot up with experimental/table.LookupFunction (which panics like call_indirect traps) and calls it.
func hostLookupCall(ctx context.Context, mod api.Module, slot uint32, x uint64) (res uint64, err error) {
	defer func() {
		if p := recover(); p != nil {
			err = fmt.Errorf("lookup panicked: %v", p)
		}
	}()
	f := table.LookupFunction(mod, 0, slot, []api.ValueType{api.ValueTypeI32}, []api.ValueType{api.ValueTypeI32})
	rs, err := f.Call(ctx, x)
	if err != nil {
		return 0, err
	}
	return rs[0], nil
}

func errLine(err error) string {
	if err == nil {
		return "<nil>"
	}
	return strings.SplitN(err.Error(), "\n", 2)[0]
}

func (r *runner) noteWrite(obj any, by int) { r.lastWriter[obj] = by }
func (r *runner) noteRead(obj any, by int) {
	if w, ok := r.lastWriter[obj]; ok && w != by {
		r.cross++
	}
}

func (r *runner) step() {
	t := r.t
	live := r.live()
	if len(live) == 0 {
		r.instantiate(false)
		return
	}
	in := live[t.Choose(len(live))]
	k := t.Weighted(5, 3, 3, 4, 3, 2, 2, 2, 2, 2, 2, 2, 2, 1)
	switch k {
	case 0: // write cell from guest
		c, v := t.Choose(nCells), int32(1000+t.Choose(100000))
		_, err := r.call(in, "wr_cell", uint64(c), uint64(uint32(v)))
		r.log("m%d.wr_cell(%d,%d)", in.idx, c, v)
		if err != nil {
			r.res.Fail("unexpected-trap", "m%d.wr_cell(%d) failed: %v", in.idx, c, errLine(err))
			return
		}
		in.mem.cells[c] = v
		r.noteWrite(in.mem, in.idx)
	case 1: // write cell through the host API
		c, v := t.Choose(nCells), int32(2000000+t.Choose(100000))
		ok := in.mod.Memory().WriteUint32Le(uint32(8*c), uint32(v))
		r.log("host m%d.Memory().Write(cell %d,%d)", in.idx, c, v)
		if !ok {
			r.res.Fail("host-api", "host write to cell %d of m%d refused", c, in.idx)
			return
		}
		in.mem.cells[c] = v
		r.noteWrite(in.mem, -1)
	case 2: // memory.grow from guest or host
		n := t.Choose(3)
		want := int32(in.mem.pages)
		fail := in.mem.pages+n > in.mem.max
		if r.alloc != nil && n > 0 && !fail && t.Chance(1, 6) {
			r.alloc.failNext = true
		}
		allocFail := r.alloc != nil && r.alloc.failNext && n > 0 && !fail
		var got int32
		if t.Chance(1, 3) {
			prev, ok := in.mod.Memory().Grow(uint32(n))
			got = int32(prev)
			if !ok {
				got = -1
			}
			r.log("host m%d.Memory().Grow(%d) -> %d", in.idx, n, got)
		} else {
			res, err := r.call(in, "mem_grow", uint64(n))
			if err != nil {
				r.res.Fail("unexpected-trap", "m%d.mem_grow(%d) failed: %v", in.idx, n, errLine(err))
				return
			}
			got = int32(uint32(res[0]))
			r.log("m%d.mem_grow(%d) -> %d", in.idx, n, got)
		}
		if r.alloc != nil {
			r.alloc.failNext = false
		}
		if fail || allocFail {
			want = -1
			if allocFail {
				r.res.Stat("fault.allocator_failure", 1)
			}
		}
		if got != want {
			r.res.Fail("grow-result", "memory.grow(%d) on m%d returned %d, model expects %d (pages %d, max %d)", n, in.idx, got, want, in.mem.pages, in.mem.max)
			return
		}
		if want >= 0 {
			in.mem.pages += n
			if n > 0 {
				r.growOrInst = true
				if r.alloc != nil {
					r.res.Stat("fault.allocator_moves_buffer", 1)
				}
			}
		}
	case 3: // write a global from guest
		g := t.Choose(4)
		v := int32(t.Choose(1 << 20))
		bits := initBits(g, v)
		_, err := r.call(in, fmt.Sprintf("wr_g%d", g), bits)
		r.log("m%d.wr_g%d(%d)", in.idx, g, v)
		if err != nil {
			r.res.Fail("unexpected-trap", "m%d.wr_g%d failed: %v", in.idx, g, errLine(err))
			return
		}
		in.globs[g].bits = bits
		r.noteWrite(in.globs[g], in.idx)
	case 4: // table.set own function
		s := t.Choose(len(in.tab.slots) + 1)
		_, err := r.call(in, "tab_set", uint64(s))
		r.log("m%d.tab_set(%d)", in.idx, s)
		if s >= len(in.tab.slots) {
			if err == nil || !strings.Contains(err.Error(), "invalid table access") {
				r.res.Fail("table-bounds", "m%d.tab_set(%d) beyond size %d returned %v", in.idx, s, len(in.tab.slots), errLine(err))
			}
			return
		}
		if err != nil {
			r.res.Fail("unexpected-trap", "m%d.tab_set(%d) failed: %v", in.idx, s, errLine(err))
			return
		}
		in.tab.slots[s] = fnRef{inst: in.idx}
		r.noteWrite(in.tab, in.idx)
	case 5: // table.grow
		n := t.Choose(4)
		res, err := r.call(in, "tab_grow", uint64(n))
		if err != nil {
			r.res.Fail("unexpected-trap", "m%d.tab_grow failed: %v", in.idx, errLine(err))
			return
		}
		got := int32(uint32(res[0]))
		want := int32(len(in.tab.slots))
		if len(in.tab.slots)+n > in.tab.max {
			want = -1
		}
		r.log("m%d.tab_grow(%d) -> %d", in.idx, n, got)
		if got != want {
			r.res.Fail("grow-result", "table.grow(%d) on m%d returned %d, model expects %d", n, in.idx, got, want)
			return
		}
		if want >= 0 {
			for i := 0; i < n; i++ {
				in.tab.slots = append(in.tab.slots, fnRef{inst: -1})
			}
		}
	case 6: // call an imported function
		if len(in.imps) == 0 {
			return
		}
		k := t.Choose(len(in.imps))
		x := int32(t.Choose(1000))
		res, err := r.call(in, fmt.Sprintf("imp%d", k), uint64(uint32(x)))
		want := x*10 + int32(in.imps[k])
		r.log("m%d.imp%d(%d)", in.idx, k, x)
		if err != nil || int32(uint32(res[0])) != want {
			r.res.Fail("imported-function", "m%d.imp%d(%d) = %v %v, model expects %d (function id of m%d)", in.idx, k, x, res, errLine(err), want, in.imps[k])
		}
	case 7, 8: // another instantiation after state changed
		if len(r.specs) < 6 {
			r.instantiate(t.Chance(1, 3))
		}
	case 10: // a callee (possibly in another instance) grows the shared table; the caller looks at its size
		res, err := r.call(in, "xtab_grow")
		r.log("m%d.xtab_grow()", in.idx)
		if err != nil {
			r.res.Fail("unexpected-trap", "m%d.xtab_grow failed: %v", in.idx, errLine(err))
			return
		}
		old := len(in.tab.slots)
		want := int32(old*100 + old + 1)
		if old+1 > in.tab.max {
			want = int32(-1*100 + old)
		} else {
			in.tab.slots = append(in.tab.slots, fnRef{inst: -1})
			r.noteWrite(in.tab, in.idx)
		}
		if got := int32(uint32(res[0])); got != want {
			r.res.Fail("view-diverged", "m%d.xtab_grow() (table.grow in the table owner's function, then table.size in the caller) = %d, model expects %d (old size %d)", in.idx, got, want, old)
		}
	case 13: // close an instance nobody imports from: every other instance must be unaffected
		var leaves []*inst
		for _, c := range live {
			used := false
			for _, o := range live {
				if o == c {
					continue
				}
				sp := r.specs[o.idx]
				if sp.memFrom == c.idx || sp.tabFrom == c.idx {
					used = true
				}
				for _, g := range sp.gFrom {
					if g == c.idx {
						used = true
					}
				}
				for _, f := range sp.impFn {
					if f == c.idx {
						used = true
					}
				}
				for _, f := range sp.impDef {
					if f == c.idx {
						used = true
					}
				}
			}
			if !used {
				leaves = append(leaves, c)
			}
		}
		if len(leaves) == 0 || len(live) < 2 {
			return
		}
		c := leaves[t.Choose(len(leaves))]
		// table slots holding the closed instance's functions stay callable: a shared (exported/imported)
		// table keeps every instance involved in it alive, also after the harness dropped its references
		// and the collector ran
		err := c.mod.Close(r.ctx)
		c.mod = nil
		r.log("close m%d (a leaf: nobody imports from it) err=%v", c.idx, err)
		r.res.Stat("fault.close_leaf_instance", 1)
		r.insts[c.idx] = nil
		if r.closedLeaf == nil {
			r.closedLeaf = map[int]bool{}
		}
		r.closedLeaf[c.idx] = true
		c = nil
		for i := 0; i < 2; i++ {
			done := make(chan struct{})
			sentinel := new([64]byte)
			runtime.SetFinalizer(sentinel, func(*[64]byte) { close(done) })
			sentinel = nil
			runtime.GC()
			select {
			case <-done:
			case <-time.After(2 * time.Second):
			}
		}
		r.res.Stat("fault.forced_gc_after_close", 1)
	case 12: // a callee in ANOTHER instance grows ITS table (which may not be ours); we then look at ours
		if len(in.imps) == 0 {
			return
		}
		k := t.Choose(len(in.imps))
		other := r.insts[r.specs[in.idx].impFn[k]]
		res, err := r.call(in, fmt.Sprintf("xg%d", k))
		r.log("m%d.xg%d() [table.grow inside m%d]", in.idx, k, other.idx)
		if err != nil {
			r.res.Fail("unexpected-trap", "m%d.xg%d failed: %v", in.idx, k, errLine(err))
			return
		}
		old := len(other.tab.slots)
		ret := old
		if old+1 > other.tab.max {
			ret = -1
		} else {
			other.tab.slots = append(other.tab.slots, fnRef{inst: -1})
			r.noteWrite(other.tab, in.idx)
		}
		want := int32(ret*100 + len(in.tab.slots))
		if got := int32(uint32(res[0])); got != want {
			r.res.Fail("view-diverged", "m%d.xg%d(): table.grow executed by m%d's function on its own table returned/left %d, model expects %d (m%d table %d entries, m%d table %d entries)", in.idx, k, other.idx, got, want, other.idx, len(other.tab.slots), in.idx, len(in.tab.slots))
		}
	case 11: // a callee bumps the shared mutable global while the caller holds its old value
		if in.mod.ExportedFunction("g_alias") != nil && t.Chance(1, 2) {
			v := int32(t.Choose(1 << 20))
			res, err := r.call(in, "g_alias", uint64(uint32(v)))
			r.log("m%d.g_alias(%d)", in.idx, v)
			if err != nil {
				r.res.Fail("unexpected-trap", "m%d.g_alias failed: %v", in.idx, errLine(err))
				return
			}
			old := int32(uint32(in.globs[gI32].bits))
			in.globs[gI32].bits = uint64(uint32(v))
			r.noteWrite(in.globs[gI32], in.idx)
			if got := int32(uint32(res[0])); got != old+v {
				r.res.Fail("view-diverged", "m%d.g_alias(%d): the global imported twice was read as %d through one import index after %d was written through the other (old value %d)", in.idx, v, got-old, v, old)
			}
			return
		}
		if in.mod.ExportedFunction("g_across") == nil {
			return
		}
		res, err := r.call(in, "g_across")
		r.log("m%d.g_across()", in.idx)
		if err != nil {
			r.res.Fail("unexpected-trap", "m%d.g_across failed: %v", in.idx, errLine(err))
			return
		}
		in.globs[gI32].bits = uint64(uint32(int32(uint32(in.globs[gI32].bits)) + 1))
		r.noteWrite(in.globs[gI32], in.idx)
		if got := int32(uint32(res[0])); got != 1 {
			r.res.Fail("view-diverged", "m%d.g_across(): the global read after the callee incremented it differs from the read before by %d (expected 1): the caller kept a stale copy", in.idx, got)
		}
	case 9: // hold a memory base across a callee that grows the (shared) memory
		c, v := t.Choose(nCells), int32(3000000+t.Choose(100000))
		res, err := r.call(in, "stale", uint64(c), uint64(uint32(v)))
		r.log("m%d.stale(%d,%d)", in.idx, c, v)
		if err != nil {
			r.res.Fail("unexpected-trap", "m%d.stale(%d): store, growing callee, load failed: %v", in.idx, c, errLine(err))
			return
		}
		in.mem.cells[c] = v
		if in.mem.pages+1 <= in.mem.max {
			in.mem.pages++
			r.growOrInst = true
			if r.alloc != nil {
				r.res.Stat("fault.allocator_moves_buffer", 1)
			}
		}
		r.noteWrite(in.mem, in.idx)
		if int32(uint32(res[0])) != v {
			r.res.Fail("view-diverged", "m%d.stale(%d,%d): after a callee grew the memory the caller read %d back", in.idx, c, v, int32(uint32(res[0])))
		}
	}
}

func (r *runner) log(f string, a ...any) {
	s := fmt.Sprintf(f, a...)
	r.res.Logf("%s", s)
	r.shape = append(r.shape, strings.SplitN(s, "(", 2)[0])
}

// checkAll: every instance's own view and the host API agree with the model.
func (r *runner) checkAll(after string) {
	t := r.t
	for _, in := range r.live() {
		// memory size: guest and host
		res, err := r.call(in, "mem_size")
		if err != nil || int(uint32(res[0])) != in.mem.pages {
			r.res.Fail("view-diverged", "after %s: m%d sees memory.size=%v %v, model has %d pages", after, in.idx, res, errLine(err), in.mem.pages)
			return
		}
		if hs := int(in.mod.Memory().Size() / 65536); hs != in.mem.pages {
			r.res.Fail("view-diverged", "after %s: host API of m%d reports %d pages, model has %d", after, in.idx, hs, in.mem.pages)
			return
		}
		// cells: two random, plus cell 31 and the last byte of memory
		for _, c := range []int{t.Choose(nCells), t.Choose(nCells), 31} {
			res, err := r.call(in, "rd_cell", uint64(c))
			if err != nil || int32(uint32(res[0])) != in.mem.cells[c] {
				r.res.Fail("view-diverged", "after %s: m%d reads cell %d = %v %v, model has %d", after, in.idx, c, res, errLine(err), in.mem.cells[c])
				return
			}
			hv, ok := in.mod.Memory().ReadUint32Le(uint32(8 * c))
			if !ok || int32(hv) != in.mem.cells[c] {
				r.res.Fail("view-diverged", "after %s: host API of m%d reads cell %d = %d, model has %d", after, in.idx, c, int32(hv), in.mem.cells[c])
				return
			}
			r.noteRead(in.mem, in.idx)
		}
		// reading the last word of the memory must work from every instance (stale lengths would trap)
		last := uint64(in.mem.pages*65536/8 - 1)
		if _, err := r.call(in, "rd_cell", last); err != nil {
			r.res.Fail("view-diverged", "after %s: m%d cannot read the last word of the %d-page memory: %v", after, in.idx, in.mem.pages, errLine(err))
			return
		}
		if _, err := r.call(in, "rd_cell", last+1); err == nil {
			r.res.Fail("view-diverged", "after %s: m%d reads beyond the %d-page memory without a trap", after, in.idx, in.mem.pages)
			return
		}
		// globals
		for k := 0; k < nGlobals; k++ {
			res, err := r.call(in, fmt.Sprintf("rd_g%d", k))
			want := in.globs[k].bits
			if err != nil || maskBits(k, res[0]) != want {
				r.res.Fail("view-diverged", "after %s: m%d reads global %d = %#x %v, model has %#x", after, in.idx, k, res, errLine(err), want)
				return
			}
			if hv := in.mod.ExportedGlobal(fmt.Sprintf("g%d", k)).Get(); maskBits(k, hv) != want {
				r.res.Fail("view-diverged", "after %s: host API of m%d reads global %d = %#x, model has %#x", after, in.idx, k, hv, want)
				return
			}
			r.noteRead(in.globs[k], in.idx)
		}
		// table
		res, err = r.call(in, "tab_size")
		if err != nil || int(uint32(res[0])) != len(in.tab.slots) {
			r.res.Fail("view-diverged", "after %s: m%d sees table.size=%v %v, model has %d", after, in.idx, res, errLine(err), len(in.tab.slots))
			return
		}
		for _, s := range []int{t.Choose(len(in.tab.slots)), t.Choose(len(in.tab.slots))} {
			ref := in.tab.slots[s]
			if ref.inst == -2 {
				continue // function of a closed instance: lifetime questions belong to C09
			}
			res, err := r.call(in, "tab_call", uint64(s), 7)
			if ref.inst >= 0 && r.closedLeaf[ref.inst] && err != nil && strings.Contains(err.Error(), "nil pointer dereference") && strings.Contains(err.Error(), "sched_yield") {
				// the function of a CLOSED instance reached its WASI call: Close took the instance's system
				// context away (what a closed instance's functions may still do is C09's subject, and this
				// mechanism is recorded under C07); the function itself was found and entered
				r.res.Stat("probe.closed_instance_function_hit_missing_sys_context", 1)
				continue
			}
			if ref.inst < 0 {
				if err == nil || !strings.Contains(err.Error(), "invalid table access") {
					r.res.Fail("view-diverged", "after %s: m%d calls null slot %d: %v %v, model expects an invalid table access trap", after, in.idx, s, res, errLine(err))
					return
				}
			} else if err != nil || int32(uint32(res[0])) != int32(70+ref.inst) {
				r.res.Fail("view-diverged", "after %s: m%d calls slot %d = %v %v, model expects %d (function of m%d)", after, in.idx, s, res, errLine(err), 70+ref.inst, ref.inst)
				return
			}
			// the same slot through the host-side lookup (experimental/table), as call_indirect would
			if ref.inst >= 0 && (r.insts[ref.inst] == nil || r.insts[ref.inst].mod == nil || r.insts[ref.inst].mod.IsClosed()) {
				continue // a function left by a failed instantiation: api.Function.Call refuses closed modules
			}
			hres, herr := hostLookupCall(r.ctx, in.mod, uint32(s), 7)
			if ref.inst < 0 {
				if herr == nil {
					r.res.Fail("view-diverged", "after %s: table.LookupFunction(m%d, slot %d) found a function in a null slot (%v)", after, in.idx, s, hres)
					return
				}
			} else if herr != nil || int32(uint32(hres)) != int32(70+ref.inst) {
				r.res.Fail("view-diverged", "after %s: table.LookupFunction(m%d, slot %d) called with 7 = %d %v, model expects %d (function of m%d)", after, in.idx, s, int32(uint32(hres)), errLine(herr), 70+ref.inst, ref.inst)
				return
			}
			r.noteRead(in.tab, in.idx)
		}
	}
}

func maskBits(kind int, v uint64) uint64 {
	switch kind {
	case gI32, gF32, gConst:
		return v & 0xFFFFFFFF
	}
	return v
}
