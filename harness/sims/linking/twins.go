package linking

import (
	"context"
	"fmt"
	"strings"

	"github.com/tetratelabs/wazero"
	"github.com/tetratelabs/wazero/api"
	"github.com/tetratelabs/wazero/experimental"

	"verifharness/sim"
	"verifharness/tape"
	"verifharness/wasmb"
)

// Class twins: SEVERAL INSTANCES OF ONE COMPILED MODULE linked through one imported table (and one
// imported mutable global).  The instances differ only in their private state, so whatever identifies
// "the callee's instance" by its code rather than by the instance is wrong here.  Every call form that
// can cross from one instance into another through the table is used: call_indirect,
// return_call_indirect, and a host-side lookup.

// twinT: exports the table, a shared mutable global and a counter function.
func twinT(base int32) []byte {
	m := &wasmb.Module{}
	m.Tables = []wasmb.Table{{Elem: wasmb.FuncRef, Lim: wasmb.Limits{Min: 6, Max: 6, HasMax: true}}}
	// "base": an immutable global the importers use as the OFFSET of their active segments
	m.Globals = []wasmb.Global{{Type: wasmb.I32, Mut: true, Init: wasmb.ConstI32(0)}, {Type: wasmb.I32, Mut: false, Init: wasmb.ConstI32(base)}}
	m.Exports = append(m.Exports, wasmb.Export{Name: "tab", Kind: wasmb.KindTable, Idx: 0}, wasmb.Export{Name: "shared", Kind: wasmb.KindGlobal, Idx: 0},
		wasmb.Export{Name: "base", Kind: wasmb.KindGlobal, Idx: 1})
	i32 := []wasmb.ValType{wasmb.I32}
	m.AddFunc(nil, i32, nil, (&wasmb.Code{}).GlobalGet(0).B, "rd_shared")
	return m.Encode()
}

// twinM: imports t.tab and t.shared; private mutable global own and private memory cell.
//
//	id(x)        = own*1000 + x, and counts the call in the private memory cell and in t.shared
//	set_own(v)   : own = v
//	put(slot)    : tab[slot] = ref.func id
//	call(slot,x) = call_indirect tab[slot](x) + own*1000000        (the caller's own state after the call)
//	tcall(slot,x)= return_call_indirect tab[slot](x)
//	calls()      = private counter
func twinM() []byte {
	m := &wasmb.Module{}
	i32 := []wasmb.ValType{wasmb.I32}
	two := []wasmb.ValType{wasmb.I32, wasmb.I32}
	m.Imports = append(m.Imports,
		wasmb.Import{Module: "t", Name: "tab", Kind: wasmb.KindTable, Table: wasmb.Table{Elem: wasmb.FuncRef, Lim: wasmb.Limits{Min: 6, Max: 6, HasMax: true}}},
		wasmb.Import{Module: "t", Name: "shared", Kind: wasmb.KindGlobal, GlobalType: wasmb.I32, GlobalMut: true},
		wasmb.Import{Module: "t", Name: "base", Kind: wasmb.KindGlobal, GlobalType: wasmb.I32})
	m.Globals = []wasmb.Global{{Type: wasmb.I32, Mut: true, Init: wasmb.ConstI32(0)}} // own = global 2; global 3 (below) = ref.func id
	m.Mem = &wasmb.Limits{Min: 1, Max: 1, HasMax: true}
	ty := m.AddType(i32, i32)
	c := func() *wasmb.Code { return &wasmb.Code{} }
	id := m.AddFunc(i32, i32, nil, c().
		I32Const(0).I32Const(0).I32Load(16).I32Const(1).I32Add().I32Store(16).
		GlobalGet(0).I32Const(1).I32Add().GlobalSet(0).
		GlobalGet(2).I32Const(1000).I32Mul().LocalGet(0).I32Add().B, "id")
	m.AddFunc(i32, nil, nil, c().LocalGet(0).GlobalSet(2).B, "set_own")
	m.AddFunc(i32, nil, nil, c().LocalGet(0).RefFunc(id).TableSet(0).B, "put")
	m.AddFunc(two, i32, nil, c().LocalGet(1).LocalGet(0).CallIndirect(ty, 0).GlobalGet(2).I32Const(1000000).I32Mul().I32Add().B, "call")
	m.AddFunc(two, i32, nil, c().LocalGet(1).LocalGet(0).ReturnCallIndirect(ty, 0).B, "tcall")
	m.AddFunc(nil, i32, nil, c().I32Const(0).I32Load(16).B, "calls")
	// active segments whose offset is the IMPORTED global: id goes into the table at slot base, a marker
	// byte into the private memory at address base (the call counter lives at 16) -- per instance, whatever another instance's exporter said
	m.Elems = []wasmb.Elem{{Mode: 0, Offset: wasmb.ConstGlobalGet(1), Funcs: []uint32{id}}}
	m.Datas = []wasmb.Data{{Offset: wasmb.ConstGlobalGet(1), Bytes: []byte{0x5A}}, {Passive: true, Bytes: []byte{0x77}}}
	m.DataCount = true
	// minit(): memory.init from the passive segment to address 50, returns that byte; ddrop(): data.drop it.
	// Dropping is per INSTANCE: the siblings' copies of the segment stay
	m.AddFunc(nil, i32, nil, c().I32Const(50).I32Const(0).I32Const(1).MemoryInit(1).I32Const(50).I32Load8U(0).B, "minit")
	m.AddFunc(nil, nil, nil, c().DataDrop(1).B, "ddrop")
	m.AddFunc(i32, i32, nil, c().LocalGet(0).I32Load8U(0).B, "peek8")
	// a passive element segment whose item is "global.get" of the module's OWN funcref global (= ref.func id);
	// pinit(slot): table.init it into tab[slot]
	m.Globals = append(m.Globals, wasmb.Global{Type: wasmb.FuncRef, Mut: false, Init: wasmb.ConstRefFunc(id)})
	m.Elems = append(m.Elems, wasmb.Elem{Mode: 1, Funcs: []uint32{3}, GlobalAt: map[int]bool{0: true}})
	m.AddFunc(i32, nil, nil, c().LocalGet(0).I32Const(0).I32Const(1).TableInit(1, 0).B, "pinit")
	return m.Encode()
}

func runTwins(t *tape.Tape, cfg sim.Config) (res sim.Result) {
	ctx := context.Background()
	var rc wazero.RuntimeConfig
	if cfg.Engine == "interpreter" {
		rc = wazero.NewRuntimeConfigInterpreter()
	} else {
		rc = wazero.NewRuntimeConfigCompiler()
	}
	rt := wazero.NewRuntimeWithConfig(ctx, rc.WithCoreFeatures(api.CoreFeaturesV2|experimental.CoreFeaturesTailCall))
	defer rt.Close(ctx)
	bases := [2]int32{1 + int32(t.Choose(2)), 3 + int32(t.Choose(2))}
	tmod, err := rt.InstantiateWithConfig(ctx, twinT(bases[0]), wazero.NewModuleConfig().WithName("t"))
	if err != nil {
		panic(err)
	}
	cm, err := rt.CompileModule(ctx, twinM())
	if err != nil {
		panic(err)
	}
	// an experimental ImportResolver may bind the import name "t" to ANOTHER, anonymous instance of the
	// table module, while the registered "t" exists as well: instances created under the resolver are
	// linked to what the resolver returned (one model table / shared counter per table instance)
	tmods := []api.Module{tmod}
	var t2 api.Module
	if t.Chance(1, 3) {
		tcm, err := rt.CompileModule(ctx, twinT(bases[1]))
		if err != nil {
			panic(err)
		}
		if t2, err = rt.InstantiateModule(ctx, tcm, wazero.NewModuleConfig().WithName("")); err != nil {
			panic(err)
		}
		tmods = append(tmods, t2)
		res.Stat("probe.import_resolver_overrides_a_registered_name", 1)
	}
	n := t.Range(2, 4)
	mods := make([]api.Module, n)
	own := make([]int32, n)
	calls := make([]int32, n)
	tOf := make([]int, n) // which table module each instance is linked to
	for i := range mods {
		ictx := ctx
		if t2 != nil && t.Chance(1, 2) {
			tOf[i] = 1
			ictx = experimental.WithImportResolver(ctx, func(name string) api.Module {
				if name == "t" {
					return t2
				}
				return nil
			})
		}
		if mods[i], err = rt.InstantiateModule(ictx, cm, wazero.NewModuleConfig().WithName(fmt.Sprintf("m%d", i))); err != nil {
			panic(err)
		}
		own[i] = int32(i + 1)
		if _, err = mods[i].ExportedFunction("set_own").Call(ctx, uint64(own[i])); err != nil {
			panic(err)
		}
	}
	slotsOf := [2][6]int{{-1, -1, -1, -1, -1, -1}, {-1, -1, -1, -1, -1, -1}}
	sharedOf := [2]int32{}
	dropped := make([]bool, n)
	for i := range mods {
		// instantiation order: the later instance's element segment wins the slot
		slotsOf[tOf[i]][bases[tOf[i]]] = i
		for _, b := range []int32{bases[0], bases[1]} {
			want := uint64(0)
			if b == bases[tOf[i]] {
				want = 0x5A
			}
			if got, err := mods[i].ExportedFunction("peek8").Call(ctx, uint64(b)); err != nil || got[0] != want {
				res.Fail("view-diverged", "m%d is linked to table module %d whose global base = %d: byte %d of its memory is %v %v, expected %#x (active data segment at offset global.get base)", i, tOf[i], bases[tOf[i]], b, got, errLine(err), want)
				return
			}
		}
	}
	var shape []string
	crossTail := 0
	for step, nsteps := 0, t.Range(6, 24); step < nsteps && res.Violation == nil; step++ {
		i := t.Choose(n)
		switch op := t.Weighted(3, 3, 4, 1, 2, 2, 1); op {
		case 5:
			got, err := mods[i].ExportedFunction("minit").Call(ctx)
			res.Logf("m%d.minit()", i)
			shape = append(shape, "minit")
			if dropped[i] {
				if err == nil || !strings.Contains(err.Error(), "out of bounds memory access") {
					res.Fail("view-diverged", "m%d.minit() after m%d dropped its passive data segment: got %v %v, expected the out-of-bounds trap", i, i, got, errLine(err))
					return
				}
			} else if err != nil || got[0] != 0x77 {
				res.Fail("view-diverged", "m%d.minit(): m%d never dropped its passive data segment (instances that did: %v); got %v %v, expected 0x77", i, i, dropped, got, errLine(err))
				return
			}
		case 6:
			if _, err := mods[i].ExportedFunction("ddrop").Call(ctx); err != nil {
				res.Fail("unexpected-trap", "m%d.ddrop(): %v", i, err)
				return
			}
			dropped[i] = true
			res.Logf("m%d.ddrop()", i)
			shape = append(shape, "ddrop")
		case 0, 4:
			s := t.Choose(6)
			fn := "put"
			if op == 4 {
				fn = "pinit" // table.init from the passive segment holding global.get of the instance's own funcref global
			}
			if _, err := mods[i].ExportedFunction(fn).Call(ctx, uint64(s)); err != nil {
				res.Fail("unexpected-trap", "m%d.%s(%d): %v", i, fn, s, err)
				return
			}
			slotsOf[tOf[i]][s] = i
			res.Logf("m%d.%s(%d)", i, fn, s)
			shape = append(shape, fn)
		case 1, 2:
			fn := "call"
			if op == 2 {
				fn = "tcall"
			}
			s, x := t.Choose(6), int32(t.Choose(900))
			got, err := mods[i].ExportedFunction(fn).Call(ctx, uint64(s), uint64(uint32(x)))
			res.Logf("m%d.%s(%d,%d)", i, fn, s, x)
			shape = append(shape, fn)
			slots := &slotsOf[tOf[i]]
			if slots[s] < 0 {
				if err == nil || !strings.Contains(err.Error(), "invalid table access") {
					res.Fail("view-diverged", "m%d.%s(%d): the slot is empty, got %v %v", i, fn, s, got, err)
				}
				continue
			}
			j := slots[s]
			want := own[j]*1000 + x
			if fn == "call" {
				want += own[i] * 1000000
			} else if j != i {
				crossTail++
			}
			calls[j]++
			sharedOf[tOf[i]]++
			if err != nil || int32(uint32(got[0])) != want {
				res.Fail("view-diverged", "m%d.%s(slot %d, %d): the slot holds the function of m%d (own=%d); got %v %v, the model expects %d (the callee runs on ITS instance's state, the caller continues on its own)", i, fn, s, x, j, own[j], got, errLine(err), want)
				return
			}
		case 3:
			own[i] += 10
			if _, err := mods[i].ExportedFunction("set_own").Call(ctx, uint64(own[i])); err != nil {
				panic(err)
			}
			res.Logf("m%d.set_own(%d)", i, own[i])
			shape = append(shape, "own")
		}
		// every instance's private counter and the shared global
		for k := range mods {
			got, err := mods[k].ExportedFunction("calls").Call(ctx)
			if err != nil || int32(uint32(got[0])) != calls[k] {
				res.Fail("view-diverged", "after step %d: m%d's private call counter is %v %v, the model has %d", step, k, got, errLine(err), calls[k])
				return
			}
		}
		for ti, tm := range tmods {
			if got, err := tm.ExportedFunction("rd_shared").Call(ctx); err != nil || int32(uint32(got[0])) != sharedOf[ti] {
				res.Fail("view-diverged", "after step %d: the shared global of table module %d is %v %v, the model has %d (instances are linked to table modules %v; 1 = the one the import resolver returned)", step, ti, got, errLine(err), sharedOf[ti], tOf)
				return
			}
		}
		res.Steps++
	}
	// a collector module imports the SAME-NAMED function from two of the twins and takes a reference to
	// both (element segment, ref.func): each reference runs on the state of the instance it came from
	if res.Violation == nil && t.Chance(1, 2) {
		i0 := t.Choose(n)
		i1 := (i0 + 1 + t.Choose(n-1)) % n
		q := &wasmb.Module{}
		i32 := []wasmb.ValType{wasmb.I32}
		f0 := q.ImportFunc(fmt.Sprintf("m%d", i0), "id", i32, i32)
		f1 := q.ImportFunc(fmt.Sprintf("m%d", i1), "id", i32, i32)
		ty := q.AddType(i32, i32)
		q.Tables = []wasmb.Table{{Elem: wasmb.FuncRef, Lim: wasmb.Limits{Min: 4}}}
		q.Elems = []wasmb.Elem{{Mode: 0, Offset: wasmb.ConstI32(0), Funcs: []uint32{f0, f1}}}
		q.AddFunc([]wasmb.ValType{wasmb.I32, wasmb.I32}, i32, nil, (&wasmb.Code{}).LocalGet(1).LocalGet(0).CallIndirect(ty, 0).B, "q")
		q.AddFunc(nil, nil, nil, (&wasmb.Code{}).I32Const(2).RefFunc(f1).TableSet(0).I32Const(3).RefFunc(f0).TableSet(0).B, "refs")
		qm, err := rt.InstantiateWithConfig(ctx, q.Encode(), wazero.NewModuleConfig().WithName("q"))
		if err != nil {
			panic(fmt.Sprintf("harness: collector: %v", err))
		}
		if _, err := qm.ExportedFunction("refs").Call(ctx); err != nil {
			panic(err)
		}
		res.Stat("probe.references_to_the_same_named_import_of_two_twins", 1)
		for slot, j := range []int{i0, i1, i1, i0} {
			x := int32(t.Choose(900))
			got, err := qm.ExportedFunction("q").Call(ctx, uint64(slot), uint64(uint32(x)))
			want := own[j]*1000 + x
			res.Logf("q(%d,%d)", slot, x)
			if err != nil || int32(uint32(got[0])) != want {
				res.Fail("view-diverged", "a module importing \"id\" from m%d and from m%d (instances of one compiled module) holds a reference to each (slots 0/1 by element segment, 2/3 by ref.func): call_indirect slot %d must run m%d's id (own=%d); got %v %v, the model expects %d", i0, i1, slot, j, own[j], got, errLine(err), want)
				return
			}
		}
	}
	res.Shape = sim.ShapeOf(shape...)
	res.Nontrivial = crossTail > 0
	res.Stat("probe.tail_calls_into_a_sibling_instance_of_the_same_compiled_module", int64(crossTail))
	res.Sample = map[string]any{"instances_of_one_compiled_module": n, "steps": res.Trace}
	return
}
