package linking

import (
	"context"
	"fmt"
	"strings"

	"github.com/tetratelabs/wazero"
	"github.com/tetratelabs/wazero/api"

	"verifharness/sim"
	"verifharness/tape"
	"verifharness/wasmb"
)

// Class type-identity: function types are identified across modules BY STRUCTURE.  Three to five modules
// are compiled one after the other in one runtime (sometimes after a host module that already uses some of
// the types); each has a tape-drawn type section over a pool of eight structural types -- with types the
// store already knows listed before new ones, and duplicates inside a section -- puts one function per type
// into a table they all import, and call_indirects every slot with every type it has.  Model: the call
// succeeds (the callee's constant) exactly when the callee's structural type equals the caller's expected
// one, traps with "indirect call type mismatch" otherwise, "invalid table access" on an empty slot.

var typePool = [][]wasmb.ValType{
	{}, {wasmb.I32}, {wasmb.I32, wasmb.I32}, {wasmb.I64}, {wasmb.F32}, {wasmb.F64}, {wasmb.I32, wasmb.I64}, {wasmb.I64, wasmb.I64},
}

func pushZero(c *wasmb.Code, vt wasmb.ValType) {
	switch vt {
	case wasmb.I32:
		c.I32Const(0)
	case wasmb.I64:
		c.I64Const(0)
	case wasmb.F32:
		c.F32Const(0)
	default:
		c.F64Const(0)
	}
}

func runTypeIdentity(t *tape.Tape, cfg sim.Config) (res sim.Result) {
	ctx := context.Background()
	var rc wazero.RuntimeConfig
	if cfg.Engine == "interpreter" {
		rc = wazero.NewRuntimeConfigInterpreter()
	} else {
		rc = wazero.NewRuntimeConfigCompiler()
	}
	rt := wazero.NewRuntimeWithConfig(ctx, rc)
	defer rt.Close(ctx)
	const slots = 24
	var shape []string
	if t.Chance(1, 2) {
		// a host module registers some types first: func() and func(i32) i32
		b := rt.NewHostModuleBuilder("h").NewFunctionBuilder().WithFunc(func() {}).Export("nop")
		if t.Chance(1, 2) {
			b = b.NewFunctionBuilder().WithFunc(func(x uint32) uint32 { return x }).Export("idf")
		}
		if _, err := b.Instantiate(ctx); err != nil {
			panic(err)
		}
		shape = append(shape, "host")
	}
	tm := &wasmb.Module{}
	tm.Tables = []wasmb.Table{{Elem: wasmb.FuncRef, Lim: wasmb.Limits{Min: slots}}}
	tm.Exports = append(tm.Exports, wasmb.Export{Name: "tab", Kind: wasmb.KindTable, Idx: 0})
	if _, err := rt.InstantiateWithConfig(ctx, tm.Encode(), wazero.NewModuleConfig().WithName("t")); err != nil {
		panic(err)
	}
	i32 := []wasmb.ValType{wasmb.I32}
	slotType := make([]int, slots) // pool index of the function in the slot, -1 empty
	slotVal := make([]int32, slots)
	for i := range slotType {
		slotType[i] = -1
	}
	type modRec struct {
		mod   api.Module
		types []int // pool indexes, in the order of the type section (duplicates possible)
	}
	var mods []modRec
	nextSlot := 0
	known := map[int]bool{}
	nmods := 3 + t.Choose(3)
	for mi := 0; mi < nmods; mi++ {
		// type section: some already known types first (sometimes), then new ones, sometimes a duplicate
		var sect []int
		var knownList []int
		for p := range typePool {
			if known[p] {
				knownList = append(knownList, p)
			}
		}
		if len(knownList) > 0 && t.Chance(2, 3) {
			for n := 1 + t.Choose(2); n > 0; n-- {
				sect = append(sect, knownList[t.Choose(len(knownList))])
			}
		}
		for n := 1 + t.Choose(3); n > 0; n-- {
			sect = append(sect, t.Choose(len(typePool)))
		}
		if t.Chance(1, 4) {
			sect = append(sect, sect[t.Choose(len(sect))])
		}
		m := &wasmb.Module{}
		m.Imports = append(m.Imports, wasmb.Import{Module: "t", Name: "tab", Kind: wasmb.KindTable, Table: wasmb.Table{Elem: wasmb.FuncRef, Lim: wasmb.Limits{Min: slots}}})
		for _, p := range sect {
			m.Types = append(m.Types, wasmb.FuncType{Params: typePool[p], Results: i32})
		}
		// the callers' own type (i32 slot) -> i32 goes LAST in the section
		callerType := uint32(len(m.Types))
		m.Types = append(m.Types, wasmb.FuncType{Params: i32, Results: i32})
		var elemFuncs []uint32
		first := nextSlot
		for k, p := range sect {
			if nextSlot >= slots {
				break
			}
			val := int32(mi*100 + k + 1)
			m.Funcs = append(m.Funcs, wasmb.Func{TypeIdx: uint32(k), Body: (&wasmb.Code{}).I32Const(val).B})
			elemFuncs = append(elemFuncs, uint32(len(m.Funcs)-1))
			slotType[nextSlot], slotVal[nextSlot] = p, val
			nextSlot++
		}
		if len(elemFuncs) > 0 {
			m.Elems = []wasmb.Elem{{Mode: 0, Offset: wasmb.ConstI32(int32(first)), Funcs: elemFuncs}}
		}
		for k, p := range sect {
			c := &wasmb.Code{}
			for _, vt := range typePool[p] {
				pushZero(c, vt)
			}
			c.LocalGet(0).CallIndirect(uint32(k), 0)
			m.Funcs = append(m.Funcs, wasmb.Func{TypeIdx: callerType, Body: c.B, Name: fmt.Sprintf("call%d", k)})
			m.Exports = append(m.Exports, wasmb.Export{Name: fmt.Sprintf("call%d", k), Kind: wasmb.KindFunc, Idx: uint32(len(m.Funcs) - 1)})
		}
		cm, err := rt.CompileModule(ctx, m.Encode())
		if err != nil {
			panic(fmt.Sprintf("harness: module %d (type section %v): %v", mi, sect, err))
		}
		mod, err := rt.InstantiateModule(ctx, cm, wazero.NewModuleConfig().WithName(fmt.Sprintf("m%d", mi)))
		if err != nil {
			panic(fmt.Sprintf("harness: module %d: %v", mi, err))
		}
		for _, p := range sect {
			known[p] = true
		}
		known[1] = true // (i32) -> i32, the callers' type
		mods = append(mods, modRec{mod, sect})
		shape = append(shape, fmt.Sprint(sect))
		res.Logf("module %d: type section %v (pool indexes), functions at slots %d..%d", mi, sect, first, nextSlot-1)
	}
	mismatches := 0
	for mi, mr := range mods {
		for k, p := range mr.types {
			for s := 0; s < nextSlot+1 && s < slots; s++ {
				got, err := mr.mod.ExportedFunction(fmt.Sprintf("call%d", k)).Call(ctx, uint64(s))
				var want string
				switch {
				case slotType[s] < 0:
					want = "invalid table access"
				case slotType[s] != p:
					want = "indirect call type mismatch"
					mismatches++
				}
				ok := false
				if want == "" {
					ok = err == nil && int32(uint32(got[0])) == slotVal[s]
				} else {
					ok = err != nil && strings.Contains(err.Error(), want)
				}
				if !ok {
					exp := fmt.Sprintf("the trap %q", want)
					if want == "" {
						exp = fmt.Sprint(slotVal[s])
					}
					res.Fail("view-diverged", "module %d (type section %v) call_indirect slot %d with its type %d = %v->i32; the slot holds a function of type %v->i32 (pool %d): got %v %v, expected %s (function types are identified by structure across modules)", mi, mr.types, s, k, typePool[p], poolOrNil(slotType[s]), slotType[s], got, errLine(err), exp)
					return
				}
				res.Steps++
			}
		}
	}
	res.Nontrivial = mismatches > 0
	res.Shape = sim.ShapeOf(shape...)
	res.Stat("probe.cross_module_indirect_calls_with_a_mismatching_type", int64(mismatches))
	res.Sample = res.Trace
	return
}

func poolOrNil(p int) any {
	if p < 0 {
		return "<empty>"
	}
	return typePool[p]
}
