// Package nonsem is the configuration-swarm simulator for C12: non-semantic
// configuration does not change guest behaviour.
package nonsem

import (
	"context"
	"fmt"
	"os"
	"strings"
	"time"

	"github.com/tetratelabs/wazero"
	"github.com/tetratelabs/wazero/api"
	"github.com/tetratelabs/wazero/experimental"
	"github.com/tetratelabs/wazero/experimental/table"
	"github.com/tetratelabs/wazero/imports/wasi_snapshot_preview1"

	"verifharness/plan"
	"verifharness/sim"
	"verifharness/tape"
	"verifharness/wasmb"
)

type c12 struct{}

func init() { sim.Register(c12{}) }

func (c12) Property() string { return "C12" }

func (c12) Classes() []sim.Class {
	var cs []sim.Class
	for _, e := range []string{"interpreter", "compiler"} {
		cs = append(cs, sim.Class{Name: "swarm", Engine: e, Quick: 1400, Thorough: 40000, RunTimeoutSec: 120})
		cs = append(cs, sim.Class{Name: "listener-sets-over-caches", Engine: e, Quick: 800, Thorough: 8000, RunTimeoutSec: 120})
		cs = append(cs, sim.Class{Name: "snapshot-restore", Engine: e, Quick: 100, Thorough: 4000, RunTimeoutSec: 120})
	}
	return cs
}

func (c12) Describe() sim.Description {
	return sim.Description{
		Level: "exploration",
		Rule: "class snapshot-restore: experimental checkpoints (snapshot in a host function, restore from 0-5 guest frames deeper) under listeners on guest and/or host functions, debug info, close-on-context-done and a cache, each configuration judged against the baseline one; otherwise: per run the tape draws a plan (name and custom sections, memory with a maximum, growth from guest and host, traps, host calls), a call script, and 2-4 runtime descriptions, each a point of {cache: none | private in-memory | shared in-memory | directory (cold, then warm for later runtimes)} x memory-capacity-from-max x allocator {default, slice-backed, slice-backed with spare capacity} x debug info x custom sections x listeners {none, all, subset} x close-on-context-done (never triggered), " +
			"plus the order in which those runtimes compile, instantiate, run and close over the shared cache objects (so an entry compiled under one setting is reused under another, and warm directory starts are real deserialisations). Oracle: each runtime's canonical trace (results, error kinds, host-call log, final memory cells/globals, memory.size) equals the trace of the baseline configuration on the same engine. No fault injection. " +
			"Non-trivial: at least two runtimes with different settings touched the same cache object, or a warm directory entry was used; distinct = distinct (configuration tuple sequence)",
		RealCode:    []string{"config.go RuntimeConfig options", "cache.go, internal/filecache (real directory)", "wazevo engine_cache.go re-binding of cached entries", "internal/wasm/binary decoder memory sizing", "experimental.MemoryAllocator and listeners"},
		Stubs:       []string{"none"},
		Assumptions: []string{"this is a configuration lattice sampled swarm-style; the stateful part is the shared caches touched in tape-chosen orders"},
		FaultKinds:  []string{"guest_trap", "host_panic", "context cancelled after the call returned", "caches first used by a runtime with older features"},
	}
}

type rtDesc struct {
	Cache      string `json:"cache"` // none | private | shared | dir
	CapFromMax bool   `json:"cap_from_max"`
	Alloc      string `json:"allocator"` // default | slice | spare
	NoDebug    bool   `json:"debug_info_off"`
	Custom     bool   `json:"custom_sections"`
	Listen     string `json:"listeners"` // none | all | subset | set | set+alias
	ListenSet  []int  `json:"listener_set,omitempty"`
	EnsureTerm bool   `json:"close_on_context_done"`
	// MemLimit is WithMemoryLimitPages: a SEMANTIC setting, identical for every runtime of a run
	// (baseline included); 0 = default
	MemLimit uint32 `json:"memory_limit_pages,omitempty"`
}

func (d rtDesc) String() string {
	return fmt.Sprintf("{cache=%s capFromMax=%v alloc=%s noDebug=%v custom=%v listen=%s term=%v limit=%d}", d.Cache, d.CapFromMax, d.Alloc, d.NoDebug, d.Custom, d.Listen, d.EnsureTerm, d.MemLimit)
}

type sliceMem struct {
	buf    []byte
	spare  bool
	poison bool // reserve-max / commit-on-Reallocate style: bytes beyond the committed size are NOT zero
	max    uint64
}

func (m *sliceMem) Reallocate(size uint64) []byte {
	if m.poison {
		if m.buf == nil {
			m.buf = make([]byte, 0, m.max)
			full := m.buf[:m.max]
			for i := range full {
				full[i] = 0xAA
			}
		}
		old := uint64(len(m.buf))
		m.buf = m.buf[:size]
		for i := old; i < size; i++ {
			m.buf[i] = 0 // commit: newly exposed bytes are zeroed by the allocator
		}
		return m.buf
	}
	if uint64(cap(m.buf)) >= size {
		m.buf = m.buf[:size]
		return m.buf
	}
	c := size
	if m.spare {
		c = m.max
	}
	nb := make([]byte, size, c)
	copy(nb, m.buf)
	m.buf = nb
	return nb
}
// Free poisons the buffer (an allocator that unmaps would fault instead): code that still runs on this
// memory reads 0xEE bytes.
func (m *sliceMem) Free() {
	full := m.buf[:cap(m.buf)]
	for i := range full {
		full[i] = 0xEE
	}
}

type nopListener struct{ n *int }

func (l nopListener) Before(context.Context, api.Module, api.FunctionDefinition, []uint64, experimental.StackIterator) {
	*l.n++
}
func (l nopListener) After(context.Context, api.Module, api.FunctionDefinition, []uint64) { *l.n++ }
func (l nopListener) Abort(context.Context, api.Module, api.FunctionDefinition, error)    { *l.n++ }

// tailGuest: loops written as tail calls (direct, indirect, mutual): they run in constant stack, so
// any iteration count must give the same result under every configuration.
func tailGuest() []byte {
	m := &wasmb.Module{}
	i32 := wasmb.I32
	two := []wasmb.ValType{i32, i32}
	one := []wasmb.ValType{i32}
	ty := m.AddType(two, one)
	body := func(next func(c *wasmb.Code)) []byte {
		c := &wasmb.Code{}
		c.LocalGet(0).I32Eqz().If(wasmb.BlockVoid).LocalGet(1).Return().End()
		c.LocalGet(0).I32Const(1).I32Sub().LocalGet(1).LocalGet(0).I32Add()
		next(c)
		return c.B
	}
	// function indexes: 0 tdirect, 1 tindirect, 2 ta, 3 tb
	m.AddFunc(two, one, nil, body(func(c *wasmb.Code) { c.ReturnCall(0) }), "tdirect")
	m.AddFunc(two, one, nil, body(func(c *wasmb.Code) { c.I32Const(1).ReturnCallIndirect(ty, 0) }), "tindirect")
	m.AddFunc(two, one, nil, body(func(c *wasmb.Code) { c.ReturnCall(3) }), "tmutual")
	m.AddFunc(two, one, nil, body(func(c *wasmb.Code) { c.I32Const(2).ReturnCallIndirect(ty, 0) }), "tb")
	// mvblock(n, acc): a block with a multi-value result type (feature multi-value, part of 2.0)
	tmv := m.AddType(nil, []wasmb.ValType{i32, i32})
	m.AddFunc(two, one, nil, (&wasmb.Code{}).Block(byte(tmv)).LocalGet(0).LocalGet(1).End().I32Add().B, "mvblock")
	m.Tables = []wasmb.Table{{Elem: wasmb.FuncRef, Lim: wasmb.Limits{Min: 4}}}
	m.Elems = []wasmb.Elem{{Mode: 0, Offset: wasmb.ConstI32(0), Funcs: []uint32{0, 1, 2, 3}}}
	return m.Encode()
}

// pairLib / pairApp: a guest of TWO modules.  lib.work(n) loops n times and returns 7; app.run(n) calls
// lib.work(n) and then the host function env.peek, which reads byte 16 of the memory of the module it is
// handed (app: 0xAA, lib: 0xBB); run = work + peek.  The script also closes lib and runs app again.
func pairLib() []byte {
	m := &wasmb.Module{Mem: &wasmb.Limits{Min: 1, Max: 2, HasMax: true}}
	i32 := []wasmb.ValType{wasmb.I32}
	m.Datas = []wasmb.Data{{Offset: wasmb.ConstI32(16), Bytes: []byte{0xBB}}}
	c := (&wasmb.Code{}).Loop(wasmb.BlockVoid).LocalGet(0).I32Const(1).I32Sub().LocalTee(0).I32Const(0).I32GtS().BrIf(0).End().I32Const(7)
	m.AddFunc(i32, i32, nil, c.B, "work")
	// chk() = byte 16 of lib's memory (0xBB); the memory is exported for a third module to import
	m.AddFunc(nil, i32, nil, (&wasmb.Code{}).I32Const(16).I32Load8U(0).B, "chk")
	m.Exports = append(m.Exports, wasmb.Export{Name: "mem", Kind: wasmb.KindMemory, Idx: 0})
	return m.Encode()
}

// pairBad imports lib's memory and then a function that does not exist: its instantiation fails after
// the memory import was resolved.  lib and app go on as if it had never been tried.
func pairBad() []byte {
	m := &wasmb.Module{}
	m.Imports = append(m.Imports, wasmb.Import{Module: "lib", Name: "mem", Kind: wasmb.KindMemory, Mem: wasmb.Limits{Min: 1, Max: 2, HasMax: true}})
	m.ImportFunc("lib", "nosuch", nil, nil)
	return m.Encode()
}

func pairApp() []byte {
	m := &wasmb.Module{}
	i32 := []wasmb.ValType{wasmb.I32}
	work := m.ImportFunc("lib", "work", i32, i32)
	peek := m.ImportFunc("env", "peek", nil, i32)
	chk := m.ImportFunc("lib", "chk", nil, i32)
	m.AddFunc(nil, i32, nil, (&wasmb.Code{}).Call(chk).B, "libbyte")
	m.Mem = &wasmb.Limits{Min: 1, Max: 2, HasMax: true}
	m.Datas = []wasmb.Data{{Offset: wasmb.ConstI32(16), Bytes: []byte{0xAA}}}
	m.AddFunc(i32, i32, nil, (&wasmb.Code{}).LocalGet(0).Call(work).Call(peek).I32Add().B, "run")
	return m.Encode()
}

var tailFns = []string{"tdirect", "tindirect", "tmutual", "mvblock"}

type tailStep struct {
	fn string
	n  int32
}

type callStep struct {
	fn   int
	arg  int32
	grow int // host-side Memory().Grow before the call (0 = none)
}

// runOne executes the script under one runtime description and returns the canonical trace.
func runOne(engine string, d rtDesc, shared wazero.CompilationCache, dir string, bin []byte, p *plan.Plan, script []callStep, tails []tailStep, pair bool) (trace []string, err error) {
	ctx := context.Background()
	var cfg wazero.RuntimeConfig
	if engine == "interpreter" {
		cfg = wazero.NewRuntimeConfigInterpreter()
	} else {
		cfg = wazero.NewRuntimeConfigCompiler()
	}
	var own wazero.CompilationCache
	switch d.Cache {
	case "private":
		own = wazero.NewCompilationCache()
		cfg = cfg.WithCompilationCache(own)
	case "shared":
		cfg = cfg.WithCompilationCache(shared)
	case "dir":
		own, err = wazero.NewCompilationCacheWithDir(dir)
		if err != nil {
			return nil, err
		}
		cfg = cfg.WithCompilationCache(own)
	}
	cfg = cfg.WithCoreFeatures(api.CoreFeaturesV2 | experimental.CoreFeaturesTailCall).WithMemoryCapacityFromMax(d.CapFromMax).WithDebugInfoEnabled(!d.NoDebug).WithCustomSections(d.Custom).WithCloseOnContextDone(d.EnsureTerm)
	if d.MemLimit != 0 {
		cfg = cfg.WithMemoryLimitPages(d.MemLimit)
	}
	cctx := ctx
	lcount := 0
	switch d.Listen {
	case "all":
		cctx = experimental.WithFunctionListenerFactory(cctx, experimental.FunctionListenerFactoryFunc(func(api.FunctionDefinition) experimental.FunctionListener { return nopListener{&lcount} }))
	case "subset":
		cctx = experimental.WithFunctionListenerFactory(cctx, experimental.FunctionListenerFactoryFunc(func(def api.FunctionDefinition) experimental.FunctionListener {
			if len(def.DebugName())%2 == 0 {
				return nopListener{&lcount}
			}
			return nil
		}))
	case "set", "set+alias":
		in := map[uint32]bool{}
		for _, i := range d.ListenSet {
			in[uint32(i)] = true
		}
		cctx = experimental.WithFunctionListenerFactory(cctx, experimental.FunctionListenerFactoryFunc(func(def api.FunctionDefinition) experimental.FunctionListener {
			if in[def.Index()] {
				return nopListener{&lcount}
			}
			return nil
		}))
	}
	switch d.Alloc {
	case "slice":
		cctx = experimental.WithMemoryAllocator(cctx, experimental.MemoryAllocatorFunc(func(cap, max uint64) experimental.LinearMemory { return &sliceMem{max: max} }))
	case "spare":
		cctx = experimental.WithMemoryAllocator(cctx, experimental.MemoryAllocatorFunc(func(cap, max uint64) experimental.LinearMemory { return &sliceMem{max: max, spare: true} }))
	case "commit":
		cctx = experimental.WithMemoryAllocator(cctx, experimental.MemoryAllocatorFunc(func(cap, max uint64) experimental.LinearMemory { return &sliceMem{max: max, poison: true} }))
	}
	rt := wazero.NewRuntimeWithConfig(cctx, cfg)
	defer func() {
		rt.Close(ctx)
		if own != nil {
			own.Close(ctx)
		}
	}()
	if _, err = wasi_snapshot_preview1.Instantiate(ctx, rt); err != nil {
		return nil, err
	}
	hcount := 0
	var hostLog []string
	_, err = rt.NewHostModuleBuilder("env").NewFunctionBuilder().
		WithGoModuleFunction(api.GoModuleFunc(func(ctx context.Context, mod api.Module, stack []uint64) {
			tag, v := int32(uint32(stack[0])), int32(uint32(stack[1]))
			hcount++
			hostLog = append(hostLog, fmt.Sprintf("h(%d,%d)", tag, v))
			if (int(tag)+int(v)+hcount)%19 == 0 {
				panic(fmt.Sprintf("simstring-%d", hcount))
			}
			stack[0] = uint64(uint32(v*3 + tag))
		}), []api.ValueType{api.ValueTypeI32, api.ValueTypeI32}, []api.ValueType{api.ValueTypeI32}).Export("h").
		NewFunctionBuilder().
		WithGoModuleFunction(api.GoModuleFunc(func(ctx context.Context, mod api.Module, stack []uint64) {
			b, _ := mod.Memory().ReadByte(16)
			stack[0] = uint64(b)
		}), nil, []api.ValueType{api.ValueTypeI32}).Export("peek").Instantiate(cctx)
	if err != nil {
		return nil, err
	}
	cm, err := rt.CompileModule(cctx, bin)
	if err != nil {
		return nil, fmt.Errorf("compile: %w", err)
	}
	mod, err := rt.InstantiateModule(cctx, cm, wazero.NewModuleConfig().WithName(""))
	if err != nil {
		return nil, fmt.Errorf("instantiate: %w", err)
	}
	waits := 0
	for i, st := range script {
		if st.grow > 0 {
			prev, ok := mod.Memory().Grow(uint32(st.grow))
			trace = append(trace, fmt.Sprintf("host-grow(%d) -> %d %v", st.grow, prev, ok))
		}
		// every call gets its own cancellable context, cancelled after the call returned (the usual
		// "defer cancel()"): with close-on-context-done that must not touch the module any more
		callCtx, cancelCall := context.WithCancel(cctx)
		res, err := callContained(mod.ExportedFunction(fmt.Sprintf("f%d", st.fn)), callCtx, uint64(uint32(st.arg)))
		cancelCall()
		if err != nil && d.EnsureTerm && !mod.IsClosed() && waits < 2 {
			// a watcher left behind by the failed call would now close the module: give it a moment
			waits++
			for w := 0; w < 8 && !mod.IsClosed(); w++ {
				time.Sleep(100 * time.Microsecond)
			}
		}
		line := fmt.Sprintf("%d f%d(%d) -> ", i, st.fn, st.arg)
		if err != nil {
			line += "error: " + strings.TrimSuffix(strings.SplitN(err.Error(), "\n", 2)[0], " (recovered by wazero)")
		} else {
			line += fmt.Sprint(int32(uint32(res[0])))
		}
		trace = append(trace, line)
	}
	// the embedder reaches a function that no export names through the table (experimental/table, the
	// way host-implemented invoke_* functions do): a NON-exported function whose type usually no export shares
	trace = append(trace, "lookup table[odd]() -> "+func() (out string) {
		defer func() {
			if r := recover(); r != nil {
				out = fmt.Sprintf("GO PANIC out of table.LookupFunction/Call: %v", r)
			}
		}()
		if mod.IsClosed() {
			return "module closed"
		}
		f := table.LookupFunction(mod, 0, plan.SlotOdd, nil, nil)
		if _, err := f.Call(cctx); err != nil {
			return "error: " + strings.TrimSuffix(strings.SplitN(err.Error(), "\n", 2)[0], " (recovered by wazero)")
		}
		return "ok"
	}())
	if len(tails) > 0 {
		tcm, err := rt.CompileModule(cctx, tailGuest())
		if err != nil {
			return nil, fmt.Errorf("compile tail guest: %w", err)
		}
		tmod, err := rt.InstantiateModule(cctx, tcm, wazero.NewModuleConfig().WithName("tails"))
		if err != nil {
			return nil, fmt.Errorf("instantiate tail guest: %w", err)
		}
		for _, ts := range tails {
			res, err := tmod.ExportedFunction(ts.fn).Call(cctx, uint64(uint32(ts.n)), 0)
			line := fmt.Sprintf("tails.%s(%d) -> ", ts.fn, ts.n)
			if err != nil {
				line += "error: " + strings.SplitN(err.Error(), "\n", 2)[0]
			} else {
				line += fmt.Sprint(int32(uint32(res[0])))
			}
			trace = append(trace, line)
		}
	}
	if pair {
		lcm, err := rt.CompileModule(cctx, pairLib())
		if err != nil {
			return nil, fmt.Errorf("compile pair lib: %w", err)
		}
		lib, err := rt.InstantiateModule(cctx, lcm, wazero.NewModuleConfig().WithName("lib"))
		if err != nil {
			return nil, fmt.Errorf("instantiate pair lib: %w", err)
		}
		acm, err := rt.CompileModule(cctx, pairApp())
		if err != nil {
			return nil, fmt.Errorf("compile pair app: %w", err)
		}
		app, err := rt.InstantiateModule(cctx, acm, wazero.NewModuleConfig().WithName("app"))
		if err != nil {
			return nil, fmt.Errorf("instantiate pair app: %w", err)
		}
		for step := 0; step < 3; step++ {
			if step == 2 {
				lib.Close(ctx) // its exported function stays callable through app's import
				trace = append(trace, "pair: lib closed")
			}
			if step == 1 {
				// a third module that imports lib's memory fails to instantiate (a later import is missing)
				_, berr := rt.InstantiateWithConfig(cctx, pairBad(), wazero.NewModuleConfig().WithName("bad"))
				trace = append(trace, fmt.Sprintf("pair: importer of lib's memory failed=%v", berr != nil))
			}
			if step < 2 {
				// (while lib is open: what its code reads from its memory)
				res, err := callContained(app.ExportedFunction("libbyte"), cctx)
				line := fmt.Sprintf("pair.app.libbyte() #%d -> ", step)
				if err != nil {
					line += "error: " + strings.SplitN(err.Error(), "\n", 2)[0]
				} else {
					line += fmt.Sprintf("%#x", uint32(res[0]))
				}
				trace = append(trace, line)
			}
			res, err := app.ExportedFunction("run").Call(cctx, 3)
			line := fmt.Sprintf("pair.app.run(3) #%d -> ", step)
			if err != nil {
				line += "error: " + strings.SplitN(err.Error(), "\n", 2)[0]
			} else {
				line += fmt.Sprintf("%#x", uint32(res[0]))
			}
			trace = append(trace, line)
		}
	}
	mem := mod.Memory()
	st := fmt.Sprintf("final pages=%d closed=%v cells=", mem.Size()/65536, mod.IsClosed())
	for c := 0; c < plan.NCells; c++ {
		v, _ := mem.ReadUint32Le(uint32(8 * c))
		st += fmt.Sprintf("%d,", int32(v))
	}
	st += " pagewords="
	for pg := uint32(0); pg < mem.Size()/65536; pg++ {
		// the first and last word of every page beyond the first: grown pages must read as zero
		if pg > 0 {
			a, _ := mem.ReadUint32Le(pg * 65536)
			b, _ := mem.ReadUint32Le(pg*65536 + 65532)
			st += fmt.Sprintf("%x/%x,", a, b)
		}
	}
	st += " globals="
	for g := 0; g < plan.NGlobals; g++ {
		st += fmt.Sprintf("%d,", int32(uint32(mod.ExportedGlobal(fmt.Sprintf("g%d", g)).Get())))
	}
	trace = append(trace, st, "hostlog: "+strings.Join(hostLog, " "))
	return trace, nil
}

// callContained: a Go panic leaving api.Function.Call becomes an error of its own kind in the trace (it
// then differs from the baseline's line, or the baseline itself shows it)
func callContained(f api.Function, ctx context.Context, args ...uint64) (res []uint64, err error) {
	defer func() {
		if r := recover(); r != nil {
			err = fmt.Errorf("GO PANIC out of api.Function.Call: %v", r)
		}
	}()
	return f.Call(ctx, args...)
}

func (c12) Run(t *tape.Tape, cfg sim.Config) (res sim.Result) {
	if cfg.Class == "snapshot-restore" {
		return runSnapshotRestore(t, cfg)
	}
	o := plan.Opts{MinFuncs: 3, MaxFuncs: 8, MaxAtoms: 6, Host: true, Traps: true, Grow: true, Table: true, Segments: true, HostTags: 4, GRef: true, Wide: true}
	focus := cfg.Class == "listener-sets-over-caches"
	if focus || t.Chance(1, 4) {
		o.MinFuncs, o.MaxFuncs, o.MaxAtoms = 66, 140, 3 // more functions than one 64-bit word of anything
	}
	// functions made mostly of loops: with close-on-context-done every loop header carries a check that
	// no instruction of the body corresponds to
	o.Loopy = t.Chance(1, 4)
	p := plan.Generate(t, o)
	p.Name = "pn"
	bin := p.Encode()
	// custom sections (kept or dropped by WithCustomSections / WithDebugInfoEnabled): with a payload or
	// with an empty one, after the last section or before the first
	full := []byte{0, 8, 4, 'm', 'e', 't', 'a', 1, 2, 3}
	empty := []byte{0, 5, 4, 'v', 'o', 'i', 'd'}
	csKind := t.Choose(7)
	dwKind := -1
	if o.Loopy && t.Chance(1, 2) {
		csKind, dwKind = 6, 0
		res.Stat("probe.loop_headers_with_debug_sections", 1)
	}
	switch csKind {
	case 6:
		// guest-chosen debug sections: rows without a file (read only when debug info is enabled and a
		// stack trace is built)
		if dwKind < 0 {
			dwKind = t.Choose(3)
		}
		bin = append(bin, wasmb.DegenerateDWARFKind(dwKind)...)
		res.Stat("probe.degenerate_dwarf_sections", 1)
	case 1:
		bin = append(bin, full...)
	case 2:
		bin = append(bin, empty...)
		res.Stat("probe.empty_custom_section_last", 1)
	case 3:
		bin = append(append(append([]byte{}, bin[:8]...), empty...), bin[8:]...)
	case 4:
		bin = append(append(append(append([]byte{}, bin[:8]...), full...), bin[8:]...), empty...)
		res.Stat("probe.empty_custom_section_last", 1)
	case 5:
		bin = append(append(bin, empty...), full...)
	}
	// the runtime's page limit (the same for every runtime of the run): the default, or below / at /
	// above the maximum the module declares
	var memLimit uint32
	if t.Chance(1, 3) {
		memLimit = tape.Pick(t, []uint32{2, 3, plan.MaxPages, 9})
		res.Stat("probe.memory_limit_pages_set", 1)
	}
	var script []callStep
	for n := t.Range(3, 12); n > 0; n-- {
		st := callStep{fn: t.Choose(len(p.Funcs)), arg: int32(t.Choose(200))}
		if t.Chance(1, 6) {
			st.grow = 1
		}
		script = append(script, st)
	}
	if focus {
		// call the functions whose listeners come and go between the runtimes
		for i := 6; i < len(p.Funcs)+6 && len(script) < 60; i++ {
			if (i%64 < 12 || t.Chance(1, 10)) && i-6 < len(p.Funcs) {
				script = append(script, callStep{fn: i - 6, arg: int32(t.Choose(200))})
			}
		}
	}
	var tails []tailStep
	if t.Chance(1, 3) {
		for k := t.Range(1, 2); k > 0; k-- {
			tails = append(tails, tailStep{tape.Pick(t, tailFns), tape.Pick(t, []int32{0, 1, 50, 3000, 150000})})
		}
		res.Stat("probe.tail_call_loops", int64(len(tails)))
	}
	pair := t.Chance(1, 3)
	if pair {
		res.Stat("probe.two_module_guest", 1)
	}
	base, err := runOne(cfg.Engine, rtDesc{Cache: "none", Alloc: "default", Listen: "none", MemLimit: memLimit}, nil, "", bin, p, script, tails, pair)
	baseErr := err
	if baseErr != nil {
		res.Stat("probe.baseline_rejects_module", 1)
	}
	dir, err := os.MkdirTemp(os.Getenv("VERIF_SCRATCH"), "c12-")
	if err != nil {
		panic(err)
	}
	defer os.RemoveAll(dir)
	shared := wazero.NewCompilationCache()
	defer shared.Close(context.Background())
	n := t.Range(2, 4)
	var descs []rtDesc
	sharedUsers, dirUsers := 0, 0
	var shape []string
	// a sparse base set of function indexes for the index-based listener selections; runtimes use the
	// base set itself or the base set plus "aliases" 64 positions away (bitmap-word aliasing)
	nf := len(p.Funcs) + 8
	var baseSet []int
	for i := 0; i < nf; i++ {
		if t.Chance(1, 6) {
			baseSet = append(baseSet, i)
		}
	}
	for i := 0; i < n; i++ {
		d := rtDesc{
			Cache:      tape.Pick(t, []string{"shared", "dir", "none", "private", "shared", "dir"}),
			CapFromMax: t.Chance(1, 2),
			Alloc:      tape.Pick(t, []string{"default", "slice", "spare", "commit"}),
			NoDebug:    t.Chance(1, 2),
			Custom:     t.Chance(1, 2),
			Listen:     tape.Pick(t, []string{"none", "all", "subset", "set", "set+alias"}),
			EnsureTerm: t.Chance(1, 3),
			MemLimit:   memLimit,
		}
		if focus {
			// every runtime on a shared cache object, listener selections by function index only
			d.Cache = tape.Pick(t, []string{"dir", "shared", "dir"})
			d.Listen = tape.Pick(t, []string{"set+alias", "set", "none"})
		}
		switch d.Listen {
		case "set":
			d.ListenSet = baseSet
			if t.Chance(1, 4) {
				d.ListenSet = nil // a factory is there and declines every function of this module
			}
		case "set+alias":
			d.ListenSet = append([]int(nil), baseSet...)
			for _, j := range baseSet {
				if j+64 < nf && t.Chance(1, 2) {
					d.ListenSet = append(d.ListenSet, j+64)
				}
				if j-64 >= 0 && t.Chance(1, 2) {
					d.ListenSet = append(d.ListenSet, j-64)
				}
			}
		}
		descs = append(descs, d)
		shape = append(shape, d.String())
		switch d.Cache {
		case "shared":
			sharedUsers++
		case "dir":
			dirUsers++
		}
	}
	if t.Chance(1, 4) {
		// another embedder uses the shared caches first, with an OLDER feature set (its own business):
		// the caches must serve every later runtime according to that runtime's own settings
		var rc wazero.RuntimeConfig
		if cfg.Engine == "interpreter" {
			rc = wazero.NewRuntimeConfigInterpreter()
		} else {
			rc = wazero.NewRuntimeConfigCompiler()
		}
		dc, derr := wazero.NewCompilationCacheWithDir(dir)
		if derr != nil {
			panic(derr)
		}
		for _, cc := range []wazero.CompilationCache{shared, dc} {
			drt := wazero.NewRuntimeWithConfig(context.Background(), rc.WithCoreFeatures(api.CoreFeaturesV1).WithCompilationCache(cc))
			if _, err := drt.CompileModule(context.Background(), []byte{0, 'a', 's', 'm', 1, 0, 0, 0}); err != nil {
				panic(err)
			}
			drt.Close(context.Background())
		}
		dc.Close(context.Background())
		res.Stat("probe.caches_first_used_by_a_runtime_with_older_features", 1)
	}
	for i, d := range descs {
		tr, err := runOne(cfg.Engine, d, shared, dir, bin, p, script, tails, pair)
		res.Logf("runtime %d %s", i, d)
		if (err != nil) != (baseErr != nil) {
			res.Fail("config-changes-behaviour", "runtime %d %s (after %v): error %v; the baseline configuration (no cache, default allocator, no listeners, debug info on, custom sections dropped) gives error %v for the same module", i, d, descs[:i], err, baseErr)
			return
		}
		for j := range base {
			if j >= len(tr) || tr[j] != base[j] {
				got := "<missing>"
				if j < len(tr) {
					got = tr[j]
				}
				res.Fail("config-changes-behaviour", "runtime %d %s (runtimes before it on the shared caches: %v): trace line %d is %q, the baseline configuration gives %q", i, d, descs[:i], j, got, base[j])
				return
			}
		}
		res.Steps++
	}
	res.Shape = sim.ShapeOf(shape...)
	res.Nontrivial = sharedUsers >= 2 || dirUsers >= 2
	res.Stat("probe.shared_cache_reused_across_settings", int64(b2i(sharedUsers >= 2)))
	res.Stat("probe.directory_cache_warm_start", int64(b2i(dirUsers >= 2)))
	smp := base
	if len(smp) > 6 {
		smp = smp[:6]
	}
	res.Sample = map[string]any{"runtimes": descs, "baseline_trace_head": smp}
	return
}

func b2i(b bool) int {
	if b {
		return 1
	}
	return 0
}
