package nonsem

import (
	"context"
	"fmt"
	"strings"

	"github.com/tetratelabs/wazero"
	"github.com/tetratelabs/wazero/api"
	"github.com/tetratelabs/wazero/experimental"

	"verifharness/sim"
	"verifharness/tape"
	"verifharness/wasmb"
)

// Class snapshot-restore: a guest whose host functions take a snapshot of the execution state and later
// restore it (experimental checkpoints: what setjmp/longjmp or exception emulation is built on), run
// under a lattice of configurations that must not matter: no listeners / listeners on the guest / on the
// host functions / on both, debug info, close-on-context-done, a compilation cache.  Model: known
// without running anything -- main(depth, v) takes a snapshot (the host function answers 0), calls depth
// nested guest frames, the innermost calls restore(v) and control is back at the snapshot call, which now
// answers v; main returns v + 1000.
func runSnapshotRestore(t *tape.Tape, cfg sim.Config) (res sim.Result) {
	ctx := experimental.WithSnapshotter(context.Background())
	depth := t.Choose(6)
	m := &wasmb.Module{}
	i32 := []wasmb.ValType{wasmb.I32}
	snap := m.ImportFunc("env", "snapshot", i32, i32) // (a parameter and a result, as in the documented example)
	restore := m.ImportFunc("env", "restore", i32, nil)
	// down(n, v): n == 0 ? restore(v) : down(n-1, v)
	down := uint32(3)
	// main(n, v): r = snapshot(); if r == 0 { down(n, v); unreachable }; return r + 1000
	m.AddFunc([]wasmb.ValType{wasmb.I32, wasmb.I32}, i32, i32, (&wasmb.Code{}).
		I32Const(0).Call(snap).LocalTee(2).I32Eqz().If(wasmb.BlockVoid).LocalGet(0).LocalGet(1).Call(down).Unreachable().End().
		LocalGet(2).I32Const(1000).I32Add().B, "main")
	m.AddFunc([]wasmb.ValType{wasmb.I32, wasmb.I32}, nil, nil, (&wasmb.Code{}).
		LocalGet(0).I32Eqz().If(wasmb.BlockVoid).LocalGet(1).Call(restore).Unreachable().End().
		LocalGet(0).I32Const(1).I32Sub().LocalGet(1).Call(down).B, "")
	bin := m.Encode()
	type variant struct {
		listen string // none | guest | host | both
		term   bool
		cache  bool
		noDbg  bool
	}
	var vs []variant
	vs = append(vs, variant{listen: "none"})
	for n := 2 + t.Choose(3); n > 0; n-- {
		vs = append(vs, variant{listen: tape.Pick(t, []string{"none", "guest", "host", "both", "host", "both"}), term: t.Chance(1, 3), cache: t.Chance(1, 3), noDbg: t.Chance(1, 3)})
	}
	cache := wazero.NewCompilationCache()
	defer cache.Close(ctx)
	var shape []string
	baseline := ""
	for vi, v := range vs {
		var rc wazero.RuntimeConfig
		if cfg.Engine == "interpreter" {
			rc = wazero.NewRuntimeConfigInterpreter()
		} else {
			rc = wazero.NewRuntimeConfigCompiler()
		}
		rc = rc.WithCloseOnContextDone(v.term).WithDebugInfoEnabled(!v.noDbg)
		if v.cache {
			rc = rc.WithCompilationCache(cache)
		}
		rt := wazero.NewRuntimeWithConfig(ctx, rc)
		lctx := experimental.WithFunctionListenerFactory(ctx, nopFactory{})
		hctx, gctx := ctx, ctx
		if v.listen == "host" || v.listen == "both" {
			hctx = lctx
		}
		if v.listen == "guest" || v.listen == "both" {
			gctx = lctx
		}
		var saved experimental.Snapshot
		_, err := rt.NewHostModuleBuilder("env").
			NewFunctionBuilder().WithGoModuleFunction(api.GoModuleFunc(func(ctx context.Context, _ api.Module, stack []uint64) {
			saved = experimental.GetSnapshotter(ctx).Snapshot()
			stack[0] = 0
		}), []api.ValueType{api.ValueTypeI32}, []api.ValueType{api.ValueTypeI32}).Export("snapshot").
			NewFunctionBuilder().WithGoModuleFunction(api.GoModuleFunc(func(ctx context.Context, _ api.Module, stack []uint64) {
			saved.Restore([]uint64{stack[0]})
		}), []api.ValueType{api.ValueTypeI32}, nil).Export("restore").Instantiate(hctx)
		if err != nil {
			panic(err)
		}
		mod, err := rt.InstantiateWithConfig(gctx, bin, wazero.NewModuleConfig().WithName(""))
		if err != nil {
			panic(fmt.Sprintf("harness: %v", err))
		}
		val := uint64(1 + t.Choose(500))
		got := func() (out string) {
			defer func() {
				if r := recover(); r != nil {
					out = fmt.Sprintf("GO PANIC out of api.Function.Call: %v", r)
				}
			}()
			r, err := mod.ExportedFunction("main").Call(ctx, uint64(depth), val)
			if err != nil {
				return "error: " + strings.SplitN(err.Error(), "\n", 2)[0]
			}
			return fmt.Sprint(r)
		}()
		// judged against the baseline configuration (variant 0: no listeners, no cache, defaults) with the same
		// value: C12 is about configurations not mattering, not about the checkpoint feature itself
		if vi == 0 {
			baseline = strings.ReplaceAll(got, fmt.Sprint(val+1000), "<v+1000>")
		}
		want := strings.ReplaceAll(baseline, "<v+1000>", fmt.Sprint(val+1000))
		if vi == 0 && got == fmt.Sprintf("[%d]", val+1000) {
			res.Stat("probe.snapshot_restore_worked_in_the_baseline", 1)
		}
		res.Logf("variant %d %+v: main(%d,%d) -> %s", vi, v, depth, val, got)
		shape = append(shape, v.listen)
		rt.Close(ctx)
		if got != want {
			res.Fail("config-changes-behaviour", "snapshot taken in a host function, restored from %d guest frames deeper: configuration %+v gives %s, the baseline configuration (no listeners, no cache, defaults) gives %s; listeners, debug info, close-on-context-done and caches are not part of the semantics", depth, v, got, want)
			return
		}
		res.Steps++
	}
	res.Nontrivial = true
	res.Shape = sim.ShapeOf(shape...)
	res.Sample = res.Trace
	return
}

type nopFactory struct{}

func (nopFactory) NewFunctionListener(api.FunctionDefinition) experimental.FunctionListener {
	return nopListener{n: new(int)}
}

