// Package term is the cancellation simulator for C07: non-terminating guests
// of every cycle shape, and the simulator owns the moment and the cause of
// cancellation.
package term

import (
	"context"
	"errors"
	"fmt"
	"io/fs"
	"os"
	"strings"
	"sync"
	"sync/atomic"
	"testing/fstest"
	"time"

	"github.com/tetratelabs/wazero"
	"github.com/tetratelabs/wazero/api"
	"github.com/tetratelabs/wazero/experimental"
	"github.com/tetratelabs/wazero/imports/wasi_snapshot_preview1"
	"github.com/tetratelabs/wazero/sys"

	"verifharness/sim"
	"verifharness/tape"
	"verifharness/wasmb"
)

type c07 struct{}

func init() { sim.Register(c07{}) }

func (c07) Property() string { return "C07" }

func (c07) Classes() []sim.Class {
	var cs []sim.Class
	for _, e := range []string{"interpreter", "compiler"} {
		cs = append(cs,
			sim.Class{Name: "yielding", Engine: e, Quick: 600, Thorough: 30000, DeathIsViolation: true, RunTimeoutSec: 30, Batch: 40},
			sim.Class{Name: "purespin", Engine: e, Quick: 300, Thorough: 15000, DeathIsViolation: true, RunTimeoutSec: 30, Batch: 20},
			// a guest parked in memory.atomic.wait (threads feature): the recorded known finding
			sim.Class{Name: "parked", Engine: e, Quick: 2, Thorough: 12, RunTimeoutSec: 60, Batch: 1},
			sim.Class{Name: "sleeping", Engine: e, Quick: 1, Thorough: 6, RunTimeoutSec: 60, Batch: 1},
			// a guest that recurses exponentially without any loop or tail call: the recorded known finding
			sim.Class{Name: "recursion", Engine: e, Quick: 2, Thorough: 12, RunTimeoutSec: 60, Batch: 1},
			// a guest spinning in its start-section function, i.e. inside InstantiateModule
			sim.Class{Name: "start-function", Engine: e, Quick: 40, Thorough: 600, RunTimeoutSec: 60, Batch: 4},
			sim.Class{Name: "synctest-deadline", Engine: e, Quick: 120, Thorough: 6000, DeathIsViolation: true, RunTimeoutSec: 60, Batch: 10, Toolchain: "go1.26.8"},
		)
	}
	return cs
}

// set by synctest.go (go >= 1.25 builds only)
var (
	synctestAvailable bool
	runSynctest       func(t *tape.Tape, cfg sim.Config) sim.Result
)

func (c07) Describe() sim.Description {
	return sim.Description{
		Level: "exploration",
		Rule: "classes parked / sleeping / recursion / start-function: a guest parked in memory.atomic.wait, asleep in WASI poll_oneoff with a real sleep configured, recursing without loops, or spinning in its start-section function (inside InstantiateModule); otherwise: one scenario per run: a non-terminating guest of a tape-chosen cycle shape (loop, nested loops, br_table re-entry, loop around bounded recursion, self return_call, mutual return_call, return_call_indirect, call_indirect in a loop, loop entered from a host callback, tail call into a looping function; with tape-chosen padding) " +
			"x yielding (host call in the cycle) or pure spin x cause (cancel, deadline, CloseWithExitCode from another goroutine, Runtime.Close, cancel/timeout with a custom cause, cancel while Runtime.Close is blocked in another module's notification, a context of the embedder's own type done with its own error) x moment (context already done at call time, at the k-th host callback, or from a second goroutine after the guest signalled entry). " +
			"Oracle: the call returns (supervisor watchdog 30 s otherwise: hang = violation), the error is *sys.ExitError with the code of the cause, IsClosed() is true, and for yielding guests the number of host callbacks after the closed flag became visible is at most the number of host-call sites in the cycle (derived from the plan). " +
			"Non-trivial: cause fired while the guest was inside the cycle (not before the call); distinct = (shape, padding, yield, cause, moment)",
		RealCode: []string{"both engines with WithCloseOnContextDone(true)", "watcher goroutine CloseModuleOnCanceledOrTimeout", "FailIfClosed", "exit-code checks emitted by both lowerings"},
		Stubs:    []string{"none; contexts are real context.WithCancel/WithTimeout; class synctest-deadline runs them under testing/synctest's fake clock (deadlines of simulated minutes to hours, host callbacks sleeping simulated seconds to minutes)"},
		Assumptions: []string{
			"for pure spins on the compiler the instant of cancellation relative to native code is not controlled; the oracle is moment-independent",
			"unbounded plain recursion is not in the workload (it ends by stack exhaustion, C06)",
		},
		FaultKinds: []string{"cancel", "deadline", "close_from_other_goroutine", "runtime_close", "already_done_at_call", "cancel_with_custom_cause", "timeout_with_custom_cause", "cancel_while_runtime_close_is_blocked_in_another_modules_notification", "host function swallowing the re-entrant call's error", "guest parked in memory.atomic.wait", "WASI call inside the cycle"},
	}
}

const (
	shLoop = iota
	shNested
	shBrTable
	shLoopRec
	shSelfTail
	shMutualTail
	shTailIndirect
	shCallIndirectLoop
	shHostEntered
	shTailIntoLoop
	shBrIfBackEdge
	shBrTableBackEdge
	shBrTableDefaultBackEdge
	shCrossModuleLoop
	shCrossModuleNestedLoop
	shLoopAtLoopHeader
	shLoopInBlockAtLoopHeader
	numShapes
)

var shapeNames = []string{"loop", "nested-loops", "br_table-reentry", "loop-around-recursion", "self-return_call", "mutual-return_call", "return_call_indirect", "call_indirect-in-loop", "loop-entered-from-host-callback", "return_call-into-looping-function",
	"loop-with-br_if-back-edge", "loop-with-br_table-back-edges", "loop-with-br_table-default-back-edge", "loop-in-imported-module-function", "loop-in-callee-of-imported-module-function",
	"loop-opening-at-a-loop-header", "loop-in-block-opening-at-a-loop-header"}

// guestWASI: the guests' cycles also call WASI sched_yield (function index 1; every other function moves
// up by one), so the running code depends on the module's system context while the module is closed
// under it.  Set per scenario by runScenario.
var guestWASI bool

// guestFile (with guestWASI): the guest also imports path_open (function index 2) and opens a file before
// it enters its cycle; the file belongs to a mount whose files fail to close.
var guestFile bool

// fx maps the function indexes written in the shapes (h=0, run=1, ...) to the real ones.
func fx(i uint32) uint32 {
	if guestWASI && i >= 1 {
		i++
		if guestFile {
			i++
		}
	}
	return i
}

// buildGuest returns the module and the number of host-call sites in the cycle.
func buildGuest(shape int, yield bool, pad int) ([]byte, int) {
	m := &wasmb.Module{}
	i32 := []wasmb.ValType{wasmb.I32}
	h := m.ImportFunc("env", "h", i32, nil)
	if guestWASI {
		m.ImportFunc("wasi_snapshot_preview1", "sched_yield", nil, i32)
		if guestFile {
			w32, w64 := wasmb.I32, wasmb.I64
			m.ImportFunc("wasi_snapshot_preview1", "path_open", []wasmb.ValType{w32, w32, w32, w32, w32, w64, w64, w32, w32}, i32)
		}
	}
	sites := 0
	tick := func(c *wasmb.Code, tag int32) {
		if guestWASI {
			c.Call(1).Drop()
		}
		if yield {
			c.I32Const(tag).Call(h)
			sites++
		}
	}
	padding := func(c *wasmb.Code) {
		for i := 0; i < pad; i++ {
			c.I32Const(int32(i)).Drop()
		}
	}
	enter := func(c *wasmb.Code) {
		if guestFile {
			// path_open(3, "f") -> fd at 32; the result goes to the host with tag 0 (entered) either way
			c.I32Const(3).I32Const(0).I32Const(16).I32Const(1).I32Const(0).I64Const(0).I64Const(0).I32Const(0).I32Const(32).Call(2).Drop()
		}
		c.I32Const(0).Call(h)
	}
	// function indices: h=0, then in order of AddFunc
	switch shape {
	case shLoop:
		c := &wasmb.Code{}
		enter(c)
		c.Loop(wasmb.BlockVoid)
		padding(c)
		tick(c, 1)
		c.Br(0).End()
		m.AddFunc(nil, nil, nil, c.B, "run")
	case shNested:
		c := &wasmb.Code{}
		enter(c)
		c.Loop(wasmb.BlockVoid) // outer
		c.I32Const(0).LocalSet(0)
		c.Loop(wasmb.BlockVoid) // inner
		padding(c)
		tick(c, 1)
		c.LocalGet(0).I32Const(1).I32Add().LocalTee(0).I32Const(3).I32LtU().BrIf(0)
		c.End()
		tick(c, 2)
		c.Br(0).End()
		m.AddFunc(nil, nil, i32, c.B, "run")
	case shLoopAtLoopHeader, shLoopInBlockAtLoopHeader:
		// the inner loop opens right at the outer loop's header; only the INNER back edge is ever taken
		c := &wasmb.Code{}
		enter(c)
		c.Loop(wasmb.BlockVoid)
		if shape == shLoopInBlockAtLoopHeader {
			c.Block(wasmb.BlockVoid)
		}
		c.Loop(wasmb.BlockVoid)
		padding(c)
		tick(c, 1)
		c.Br(0).End()
		if shape == shLoopInBlockAtLoopHeader {
			c.End()
		}
		c.End()
		m.AddFunc(nil, nil, nil, c.B, "run")
	case shBrTable:
		c := &wasmb.Code{}
		enter(c)
		c.Loop(wasmb.BlockVoid)
		c.Block(wasmb.BlockVoid).Block(wasmb.BlockVoid)
		c.LocalGet(0).I32Const(1).I32And().BrTable([]uint32{0}, 1)
		c.End()
		tick(c, 1)
		padding(c)
		c.LocalGet(0).I32Const(1).I32Add().LocalSet(0).Br(1)
		c.End()
		tick(c, 2)
		c.LocalGet(0).I32Const(1).I32Add().LocalSet(0).Br(0)
		c.End()
		m.AddFunc(nil, nil, i32, c.B, "run")
	case shLoopRec:
		// rec = func 2, run = func 1
		c := &wasmb.Code{}
		enter(c)
		c.Loop(wasmb.BlockVoid)
		c.I32Const(int32(4 + pad)).Call(fx(2)).Drop()
		tick(c, 1)
		c.Br(0).End()
		m.AddFunc(nil, nil, nil, c.B, "run")
		r := &wasmb.Code{}
		r.LocalGet(0).I32Eqz().If(wasmb.BlockVoid).I32Const(0).Return().End()
		r.LocalGet(0).I32Const(1).I32Sub().Call(fx(2)).I32Const(1).I32Add()
		m.AddFunc(i32, i32, nil, r.B, "")
	case shSelfTail:
		c := &wasmb.Code{}
		enter(c)
		c.ReturnCall(fx(2))
		m.AddFunc(nil, nil, nil, c.B, "run")
		s := &wasmb.Code{}
		padding(s)
		tick(s, 1)
		s.ReturnCall(fx(2))
		m.AddFunc(nil, nil, nil, s.B, "")
	case shMutualTail:
		c := &wasmb.Code{}
		enter(c)
		c.ReturnCall(fx(2))
		m.AddFunc(nil, nil, nil, c.B, "run")
		f := &wasmb.Code{}
		tick(f, 1)
		padding(f)
		f.ReturnCall(fx(3))
		m.AddFunc(nil, nil, nil, f.B, "")
		g := &wasmb.Code{}
		tick(g, 2)
		g.ReturnCall(fx(2))
		m.AddFunc(nil, nil, nil, g.B, "")
	case shTailIndirect:
		c := &wasmb.Code{}
		enter(c)
		c.I32Const(0).ReturnCallIndirect(m.AddType(nil, nil), 0)
		m.AddFunc(nil, nil, nil, c.B, "run")
		s := &wasmb.Code{}
		tick(s, 1)
		padding(s)
		s.I32Const(0).ReturnCallIndirect(m.AddType(nil, nil), 0)
		m.AddFunc(nil, nil, nil, s.B, "")
		m.Tables = []wasmb.Table{{Elem: wasmb.FuncRef, Lim: wasmb.Limits{Min: 1}}}
		m.Elems = []wasmb.Elem{{Mode: 0, Offset: wasmb.ConstI32(0), Funcs: []uint32{fx(2)}}}
	case shCallIndirectLoop:
		c := &wasmb.Code{}
		enter(c)
		c.Loop(wasmb.BlockVoid)
		c.I32Const(0).CallIndirect(m.AddType(nil, nil), 0)
		padding(c)
		c.Br(0).End()
		m.AddFunc(nil, nil, nil, c.B, "run")
		s := &wasmb.Code{}
		tick(s, 1)
		m.AddFunc(nil, nil, nil, s.B, "")
		m.Tables = []wasmb.Table{{Elem: wasmb.FuncRef, Lim: wasmb.Limits{Min: 1}}}
		m.Elems = []wasmb.Elem{{Mode: 0, Offset: wasmb.ConstI32(0), Funcs: []uint32{fx(2)}}}
	case shHostEntered:
		// run calls h(9); the host calls the exported "spin"
		c := &wasmb.Code{}
		c.I32Const(9).Call(h)
		m.AddFunc(nil, nil, nil, c.B, "run")
		s := &wasmb.Code{}
		enter(s)
		s.Loop(wasmb.BlockVoid)
		padding(s)
		tick(s, 1)
		s.Br(0).End()
		m.AddFunc(nil, nil, nil, s.B, "spin")
	case shBrIfBackEdge:
		c := &wasmb.Code{}
		enter(c)
		c.Loop(wasmb.BlockVoid)
		tick(c, 1)
		padding(c)
		c.I32Const(1).BrIf(0)
		c.End()
		m.AddFunc(nil, nil, nil, c.B, "run")
	case shBrTableBackEdge:
		// every back edge is a br_table arm (switch-in-a-loop state machine)
		c := &wasmb.Code{}
		enter(c)
		c.Loop(wasmb.BlockVoid)
		tick(c, 1)
		padding(c)
		c.LocalGet(0).I32Const(1).I32Add().LocalTee(0).I32Const(3).I32And().BrTable([]uint32{0, 0, 0}, 0)
		c.End()
		m.AddFunc(nil, nil, i32, c.B, "run")
	case shBrTableDefaultBackEdge:
		c := &wasmb.Code{}
		enter(c)
		c.Loop(wasmb.BlockVoid)
		tick(c, 1)
		padding(c)
		c.I32Const(0).BrTable(nil, 0)
		c.End()
		m.AddFunc(nil, nil, nil, c.B, "run")
	case shCrossModuleLoop, shCrossModuleNestedLoop:
		// run calls the imported b.f; buildGuestB provides it
		bf := m.ImportFunc("b", "f", nil, nil)
		c := &wasmb.Code{}
		padding(c)
		c.Call(bf)
		m.AddFunc(nil, nil, nil, c.B, "run")
	case shTailIntoLoop:
		c := &wasmb.Code{}
		enter(c)
		c.ReturnCall(fx(2))
		m.AddFunc(nil, nil, nil, c.B, "run")
		s := &wasmb.Code{}
		s.Loop(wasmb.BlockVoid)
		tick(s, 1)
		padding(s)
		s.Br(0).End()
		m.AddFunc(nil, nil, nil, s.B, "")
	}
	if guestFile {
		if m.Mem == nil {
			m.Mem = &wasmb.Limits{Min: 1}
		}
		m.Datas = append(m.Datas, wasmb.Data{Offset: wasmb.ConstI32(16), Bytes: []byte("f")})
	}
	return m.Encode(), sites
}

// failCloseFS: one file "f" whose Close fails (a network file system, a mount that went away).
type failCloseFS struct{ fstest.MapFS }

type failCloseFile struct{ fs.File }

func (failCloseFile) Close() error { return errors.New("close failed: stale file handle") }

func (f failCloseFS) Open(name string) (fs.File, error) {
	file, err := f.MapFS.Open(name)
	if err == nil && name == "f" {
		guestFileOpened.Add(1)
		return failCloseFile{file}, nil
	}
	return file, err
}

var guestFileOpened atomic.Int64

// buildGuestB: the module "b" for the cross-module shapes: f loops itself
// (shCrossModuleLoop) or calls g which loops (shCrossModuleNestedLoop).
func buildGuestB(shape int, yield bool, pad int) ([]byte, int) {
	m := &wasmb.Module{}
	i32 := []wasmb.ValType{wasmb.I32}
	h := m.ImportFunc("env", "h", i32, nil)
	sites := 0
	loop := func() *wasmb.Code {
		c := &wasmb.Code{}
		c.I32Const(0).Call(h)
		c.Loop(wasmb.BlockVoid)
		for i := 0; i < pad; i++ {
			c.I32Const(int32(i)).Drop()
		}
		if yield {
			c.I32Const(1).Call(h)
			sites++
		}
		c.Br(0).End()
		return c
	}
	if shape == shCrossModuleLoop {
		m.AddFunc(nil, nil, nil, loop().B, "f")
	} else {
		// f = func 1 calls g = func 2
		m.AddFunc(nil, nil, nil, (&wasmb.Code{}).Call(2).B, "f")
		m.AddFunc(nil, nil, nil, loop().B, "g")
	}
	return m.Encode(), sites
}

const (
	causeCancel = iota
	causeDeadline
	causeClose
	causeRuntimeClose
	causeCancelCause
	causeTimeoutCause
	// Runtime.Close has started and is blocked inside the close notification of ANOTHER module (holding
	// the store's lock) when the call's context is cancelled
	causeCancelUnderBlockedRuntimeClose
	// the call's context is of the embedder's own type (or derived from one): its Done channel closes and
	// its Err is then an error of its own, neither context.Canceled nor context.DeadlineExceeded
	causeOwnError
	numCauses
)

// ownCtx is a context.Context that is not built on the standard library's cancellation.
type ownCtx struct {
	context.Context
	done chan struct{}
}

var errOwn = errors.New("server is shutting down")

var errPriorCall = errors.New("earlier call ended by the simulator")

func (c *ownCtx) Done() <-chan struct{} { return c.done }
func (c *ownCtx) Err() error {
	select {
	case <-c.done:
		return errOwn
	default:
		return nil
	}
}
func (c *ownCtx) Deadline() (time.Time, bool) { return time.Time{}, false }

var causeNames = []string{"cancel", "deadline", "close-from-goroutine", "runtime-close", "cancel-with-custom-cause", "timeout-with-custom-cause", "cancel-while-runtime-close-is-blocked-in-another-modules-notification", "context-of-its-own-type-done-with-its-own-error"}

type scenario struct {
	Swallow bool // host-entered loop: the host function swallows the inner call's error and returns
	Derived bool   `json:"host_reenters_with_derived_context,omitempty"`
	Shape   string `json:"shape"`
	Yield   bool   `json:"yield"`
	Pad     int    `json:"padding"`
	Cause   string `json:"cause"`
	Moment  string `json:"moment"`
	K       int    `json:"k"`
	Code    uint32 `json:"close_code"`
}

func (c07) Run(t *tape.Tape, cfg sim.Config) (res sim.Result) {
	if cfg.Class == "parked" {
		return runParked(t, cfg)
	}
	if cfg.Class == "sleeping" {
		return runSleeping(t, cfg)
	}
	if cfg.Class == "recursion" {
		return runRecursion(t, cfg)
	}
	if cfg.Class == "start-function" {
		return runStartSpin(t, cfg)
	}
	return runScenario(t, cfg, false)
}

// RunListened runs a C07 scenario of class yielding with a bracket-checking FunctionListenerFactory on every
// function (guest, host, both modules): used by C20's class termination -- frames unwound because the
// module was closed under a running call must each get their Abort.
func RunListened(t *tape.Tape, cfg sim.Config) sim.Result {
	cfg.Class = "yielding"
	return runScenario(t, cfg, true)
}

// bracket is the listener of RunListened: a stack of open calls.
type bracket struct {
	open   []string
	events int
	fault  string
}

func (b *bracket) NewFunctionListener(api.FunctionDefinition) experimental.FunctionListener { return b }
func (b *bracket) Before(_ context.Context, _ api.Module, def api.FunctionDefinition, _ []uint64, _ experimental.StackIterator) {
	b.open = append(b.open, def.DebugName())
	b.events++
}
func (b *bracket) end(kind string, def api.FunctionDefinition) {
	b.events++
	if n := len(b.open); n == 0 || b.open[n-1] != def.DebugName() {
		if b.fault == "" {
			b.fault = fmt.Sprintf("%s %s while the open calls are %v", kind, def.DebugName(), tail(b.open, 6))
		}
		return
	}
	b.open = b.open[:len(b.open)-1]
}
func (b *bracket) After(_ context.Context, _ api.Module, def api.FunctionDefinition, _ []uint64) {
	b.end("after", def)
}
func (b *bracket) Abort(_ context.Context, _ api.Module, def api.FunctionDefinition, _ error) {
	b.end("abort", def)
}

func tail(xs []string, n int) []string {
	if len(xs) > n {
		return xs[len(xs)-n:]
	}
	return xs
}

func runScenario(t *tape.Tape, cfg sim.Config, listen bool) (res sim.Result) {
	if cfg.Class == "synctest-deadline" {
		if runSynctest == nil {
			panic("harness: class synctest-deadline needs the worker built with go1.26.8 (testing/synctest)")
		}
		return runSynctest(t, cfg)
	}
	shape := t.Choose(numShapes)
	if listen {
		// tail calls replace frames: their listener events are implementation-defined (C20 excludes them)
		for strings.Contains(shapeNames[shape], "return_call") {
			shape = (shape + 1) % numShapes
		}
	}
	yield := cfg.Class == "yielding"
	pad := tape.Pick(t, []int{0, 1, 7, 40})
	cause := t.Choose(numCauses)
	already := t.Chance(1, 10) && (cause == causeCancel || cause == causeDeadline || cause == causeCancelCause || cause == causeTimeoutCause || cause == causeOwnError)
	k := 1 + t.Choose(6)
	code := uint32(1 + t.Choose(200))
	// host-entered loop: the host callback may re-enter the guest with a context DERIVED from the call's
	// context (its own cancel function); the cause then ends the derived context only
	swallow := shape == shHostEntered && t.Chance(1, 2)
	derived := shape == shHostEntered && (cause == causeCancel || cause == causeCancelCause) && !already && t.Chance(1, 2)
	sc := scenario{Shape: shapeNames[shape], Yield: yield, Pad: pad, Cause: causeNames[cause], K: k, Code: code, Derived: derived, Swallow: swallow}
	switch {
	case already:
		sc.Moment = "already-done-at-call"
	case yield:
		sc.Moment = fmt.Sprintf("at-host-callback-%d", k)
	default:
		sc.Moment = "second-goroutine-after-entry"
	}
	res.Sample = sc
	res.Shape = sim.ShapeOf(fmt.Sprint(sc))
	res.Logf("scenario %+v", sc)
	fmt.Fprintf(os.Stderr, "C07 scenario (engine %s): %+v\n", cfg.Engine, sc)
	// in a third of the scenarios the cycle also calls WASI sched_yield: code that uses the module's
	// system context while the module is closed under it
	guestWASI = t.Chance(1, 3) && !listen // (the listened runs belong to C20: the WASI finding is recorded under C07)
	defer func() { guestWASI = false }()
	guestFile = guestWASI && t.Chance(1, 2)
	defer func() { guestFile = false }()
	if guestWASI {
		res.Stat("probe.cycle_calls_wasi", 1)
	}
	if guestFile {
		res.Stat("probe.guest_holds_a_file_that_fails_to_close", 1)
	}
	bin, sites := buildGuest(shape, yield, pad)
	var binB []byte
	if shape == shCrossModuleLoop || shape == shCrossModuleNestedLoop {
		binB, sites = buildGuestB(shape, yield, pad)
	}

	bg := context.Background()
	var rc wazero.RuntimeConfig
	if cfg.Engine == "interpreter" {
		rc = wazero.NewRuntimeConfigInterpreter()
	} else {
		rc = wazero.NewRuntimeConfigCompiler()
	}
	rc = rc.WithCoreFeatures(api.CoreFeaturesV2 | experimental.CoreFeaturesTailCall)
	if t.Chance(1, 4) {
		// a compilation cache shared with ANOTHER runtime that does not have close-on-context-done and that
		// compiled first (the guest itself and a small unrelated module): what this runtime compiles must
		// carry its own setting
		cache := wazero.NewCompilationCache()
		defer cache.Close(bg)
		rc = rc.WithCompilationCache(cache)
		decoy := wazero.NewRuntimeWithConfig(bg, rc)
		if _, err := decoy.CompileModule(bg, bin); err != nil {
			panic(err)
		}
		other := &wasmb.Module{}
		other.AddFunc(nil, nil, nil, (&wasmb.Code{}).Loop(wasmb.BlockVoid).End().B, "l")
		if _, err := decoy.CompileModule(bg, other.Encode()); err != nil {
			panic(err)
		}
		defer decoy.Close(bg)
		res.Stat("probe.cache_shared_with_a_runtime_without_close_on_context_done", 1)
	}
	rc = rc.WithCloseOnContextDone(true)
	rt := wazero.NewRuntimeWithConfig(bg, rc)
	defer rt.Close(bg)
	if guestWASI {
		if _, err := wasi_snapshot_preview1.Instantiate(bg, rt); err != nil {
			panic(err)
		}
	}
	// cctx: the context of compilations (with the listener factory, if any)
	cctx := bg
	var br *bracket
	if listen {
		br = &bracket{}
		cctx = experimental.WithFunctionListenerFactory(bg, br)
	}

	var mod api.Module
	var calls, afterClosed int64
	var closedSeen atomic.Bool
	entered := make(chan struct{}, 1)
	var callCtx context.Context
	var cancel context.CancelFunc
	var cancelCause context.CancelCauseFunc
	var hostFailureAsync atomic.Value
	blockerNotified, callReturned := make(chan struct{}), make(chan struct{})
	var blockerTimedOut atomic.Bool
	snap := !listen && t.Chance(1, 4)
	priorCall := snap && shape != shHostEntered && t.Chance(1, 2)
	if snap {
		res.Stat("probe.snapshotter_enabled_on_the_call_context", 1)
	}
	if priorCall {
		res.Stat("probe.function_object_used_before_with_another_context", 1)
	}
	var priorPhase atomic.Bool
	abortedInst := cause == causeRuntimeClose && t.Chance(1, 2)
	if abortedInst {
		res.Stat("probe.unrelated_instantiation_stopped_by_its_deadline_before_the_runtime_close", 1)
	}
	fire := func() {
		switch cause {
		case causeCancel, causeOwnError:
			cancel()
		case causeCancelCause:
			cancelCause(errors.New("application-specific reason"))
		case causeDeadline, causeTimeoutCause:
			// the deadline is part of callCtx; nothing to do but wait
		case causeClose:
			go mod.CloseWithExitCode(bg, code)
		case causeRuntimeClose:
			if abortedInst {
				// first an UNRELATED instantiation on this runtime is stopped by its own deadline while its
				// start-section function runs (an instance that was never registered is closed)
				sm := &wasmb.Module{}
				st := sm.AddFunc(nil, nil, nil, (&wasmb.Code{}).Loop(wasmb.BlockVoid).Br(0).End().B, "")
				sm.Start = &st
				dctx, dcancel := context.WithTimeout(bg, 3*time.Millisecond)
				_, ierr := rt.InstantiateWithConfig(dctx, sm.Encode(), wazero.NewModuleConfig().WithName(""))
				dcancel()
				if ierr == nil {
					hostFailureAsync.Store("an instantiation whose start function spins returned without an error")
				}
			}
			go rt.Close(bg)
		case causeCancelUnderBlockedRuntimeClose:
			go rt.Close(bg)
			select {
			case <-blockerNotified: // Runtime.Close now sits in the blocker's notification
			case <-time.After(5 * time.Second):
				hostFailureAsync.Store("Runtime.Close did not reach the blocker module's close notification within 5 s")
			}
			cancel()
		}
	}
	waitClosed := func() bool {
		for i := 0; i < 200000; i++ {
			if mod.IsClosed() {
				return true
			}
			time.Sleep(50 * time.Microsecond)
		}
		return false
	}
	var hostFailure string
	var innerCode uint32
	var innerSeen, innerKnownNil bool
	hostFn := func(ctx context.Context, m api.Module, stack []uint64) {
		tag := uint32(stack[0])
		if tag == 9 {
			// host-entered loop: call back into the guest with the same context, or with a derived one
			// whose cancel function replaces the outer one as the scenario's cause
			if derived {
				if cause == causeCancelCause {
					ctx2, c2 := context.WithCancelCause(ctx)
					cancelCause = c2
					ctx = ctx2
				} else {
					ctx2, c2 := context.WithCancel(ctx)
					cancel = c2
					ctx = ctx2
				}
			}
			_, err := m.ExportedFunction("spin").Call(ctx)
			if err != nil {
				if swallow {
					// the host function handles the inner call's failure itself and returns normally: the
					// OUTER call is then a second observer of the same close and must report the same cause
					var ie *sys.ExitError
					if !errors.As(err, &ie) {
						if guestWASI && (cause == causeClose || cause == causeRuntimeClose) && strings.Contains(err.Error(), "nil pointer dereference") && strings.Contains(err.Error(), "wasi_snapshot_preview1.sched_yield") {
							innerKnownNil = true // the recorded known finding, met by the re-entrant call
						} else {
							hostFailure = fmt.Sprintf("the re-entrant call returned %v, expected an exit error", firstLine(err))
						}
					} else {
						innerCode, innerSeen = ie.ExitCode(), true
					}
					return
				}
				panic(err)
			}
			return
		}
		if tag == 0 {
			if priorPhase.Load() {
				panic(errPriorCall) // the earlier call on the same function object ends here
			}
			select {
			case entered <- struct{}{}:
			default:
			}
			return
		}
		n := atomic.AddInt64(&calls, 1)
		if closedSeen.Load() {
			atomic.AddInt64(&afterClosed, 1)
			return
		}
		if yield && !already && int(n) == k {
			fire()
			if !waitClosed() {
				hostFailure = "the module was not closed within 10 s after the cause fired"
			}
			closedSeen.Store(true)
		}
	}
	_, err := rt.NewHostModuleBuilder("env").NewFunctionBuilder().
		WithGoModuleFunction(api.GoModuleFunc(hostFn), []api.ValueType{api.ValueTypeI32}, nil).Export("h").Instantiate(cctx)
	if err != nil {
		panic(err)
	}
	if binB != nil {
		cmB, err := rt.CompileModule(cctx, binB)
		if err != nil {
			panic(err)
		}
		if _, err = rt.InstantiateModule(bg, cmB, wazero.NewModuleConfig().WithName("b")); err != nil {
			panic(err)
		}
	}
	if guestFile {
		guestFileOpened.Store(0)
		mod, err = rt.InstantiateWithConfig(cctx, bin, wazero.NewModuleConfig().WithFSConfig(
			wazero.NewFSConfig().WithFSMount(failCloseFS{fstest.MapFS{"f": &fstest.MapFile{Data: []byte("x")}}}, "/")))
	} else {
		mod, err = rt.Instantiate(cctx, bin)
	}
	if err != nil {
		panic(fmt.Sprintf("harness: guest does not instantiate: %v", err))
	}
	if cause == causeCancelUnderBlockedRuntimeClose {
		// instantiated last, so closed first by Runtime.Close
		nctx := experimental.WithCloseNotifier(bg, experimental.CloseNotifyFunc(func(context.Context, uint32) {
			close(blockerNotified)
			select {
			case <-callReturned:
			case <-time.After(3 * time.Second):
				blockerTimedOut.Store(true)
			}
		}))
		if _, err := rt.InstantiateWithConfig(nctx, (&wasmb.Module{}).Encode(), wazero.NewModuleConfig().WithName("blocker")); err != nil {
			panic(err)
		}
	}
	switch cause {
	case causeDeadline, causeTimeoutCause:
		d := time.Duration(1+t.Choose(4)) * time.Millisecond
		if yield && !already {
			d = time.Duration(2+t.Choose(6)) * time.Millisecond
		}
		if cause == causeTimeoutCause {
			callCtx, cancel = context.WithTimeoutCause(bg, d, errors.New("application-specific timeout reason"))
		} else {
			callCtx, cancel = context.WithTimeout(bg, d)
		}
		if already {
			<-callCtx.Done()
		}
	case causeCancelCause:
		callCtx, cancelCause = context.WithCancelCause(bg)
		cancel = func() { cancelCause(nil) }
		if already {
			cancelCause(errors.New("application-specific reason"))
		}
	case causeOwnError:
		own := &ownCtx{Context: bg, done: make(chan struct{})}
		var once sync.Once
		cancel = func() { once.Do(func() { close(own.done) }) }
		callCtx = own
		if t.Chance(1, 2) {
			// a standard context derived from it: its Err is the parent's error
			var c2 context.CancelFunc
			callCtx, c2 = context.WithCancel(own)
			defer c2()
			res.Stat("probe.standard_context_derived_from_own_context", 1)
		}
		if already {
			cancel()
			<-callCtx.Done()
		}
	default:
		callCtx, cancel = context.WithCancel(bg)
		if already {
			cancel()
		}
	}
	defer cancel()
	// experimental snapshot support switched on for the call (no snapshot is taken), and sometimes the SAME
	// api.Function object has been used before, for a call with another context that ended by itself: the
	// judged call must obey ITS context
	fn := mod.ExportedFunction("run")
	if snap {
		callCtx = experimental.WithSnapshotter(callCtx)
		if priorCall {
			priorPhase.Store(true)
			_, perr := fn.Call(experimental.WithSnapshotter(bg))
			priorPhase.Store(false)
			if !errors.Is(perr, errPriorCall) {
				panic(fmt.Sprintf("harness: the earlier call on the function object returned %v", perr))
			}
		}
	}
	if !yield && !already {
		go func() {
			<-entered
			if d := t0delay(k); d > 0 {
				time.Sleep(d)
			}
			fire()
		}()
	}
	_, callErr := fn.Call(callCtx)
	if guestFile && guestFileOpened.Load() > 0 {
		res.Stat("probe.call_stopped_while_the_guest_held_a_file_that_fails_to_close", 1)
	}
	close(callReturned)
	if blockerTimedOut.Load() {
		res.Fail("late-stop", "%+v: the call did not return within 3 s of its cancellation while Runtime.Close was inside another module's close notification (it returned %v only after that notification gave up waiting)", sc, firstLine(callErr))
		return
	}
	if v := hostFailureAsync.Load(); v != nil && hostFailure == "" {
		hostFailure = v.(string)
	}
	// reaching this point means the call returned (the supervisor's watchdog catches the other case)
	if innerKnownNil {
		res.Known = append(res.Known, "wasi-call-under-concurrent-close-nil-dereference")
	}
	res.Steps = calls
	res.Nontrivial = !already
	res.Stat("fault."+causeNames[cause], 1)
	res.Stat("probe.shape_"+shapeNames[shape], 1)
	if hostFailure != "" {
		res.Fail("not-closed", "%+v: %s", sc, hostFailure)
		return
	}
	var ee *sys.ExitError
	if !errors.As(callErr, &ee) {
		if guestWASI && (cause == causeClose || cause == causeRuntimeClose) && callErr != nil &&
			strings.Contains(callErr.Error(), "nil pointer dereference") && strings.Contains(callErr.Error(), "wasi_snapshot_preview1.sched_yield") {
			// recorded known finding: Close from another goroutine sets ModuleInstance.Sys to nil under the
			// running guest, whose next WASI call dereferences it; the call does end and the module is closed
			res.Known = append(res.Known, "wasi-call-under-concurrent-close-nil-dereference")
			if !mod.IsClosed() {
				res.Fail("not-closed", "%+v: call returned %v but the module is not closed", sc, firstLine(callErr))
			}
			res.Trace = res.Trace[:1]
			res.Logf("returned (exit error or the known nil dereference)")
			return
		}
		res.Fail("wrong-error", "%+v: call returned %v, expected an exit error", sc, callErr)
		return
	}
	want := code
	switch cause {
	case causeCancel, causeCancelCause, causeCancelUnderBlockedRuntimeClose, causeOwnError:
		want = sys.ExitCodeContextCanceled
	case causeDeadline, causeTimeoutCause:
		want = sys.ExitCodeDeadlineExceeded
	case causeRuntimeClose:
		want = 0
	}
	if cause == causeOwnError && ee.ExitCode() == sys.ExitCodeDeadlineExceeded {
		want = sys.ExitCodeDeadlineExceeded // no code is defined for an error of the embedder's own: either one
	}
	if ee.ExitCode() != want {
		res.Fail("wrong-exit-code", "%+v: exit code %#x, expected %#x", sc, ee.ExitCode(), want)
		return
	}
	if swallow && innerSeen && innerCode != want {
		res.Fail("wrong-exit-code", "%+v: the re-entrant call (whose error the host function swallowed) returned exit code %#x, expected %#x", sc, innerCode, want)
		return
	}
	if !mod.IsClosed() {
		res.Fail("not-closed", "%+v: call returned %v but the module is not closed", sc, callErr)
		return
	}
	if yield && !already {
		ac := atomic.LoadInt64(&afterClosed)
		if int(ac) > sites {
			res.Fail("late-stop", "%+v: %d host callbacks ran after the closed flag was visible; the cycle has %d host-call sites, so at most %d can run before the next check", sc, ac, sites, sites)
			return
		}
		res.Stat("probe.callbacks_after_closed", ac)
	}
	if br != nil {
		res.Stat("probe.listener_events", int64(br.events))
		if br.fault != "" {
			res.Fail("listener-nesting", "%+v: %s", sc, br.fault)
			return
		}
		if len(br.open) != 0 {
			res.Fail("listener-unbalanced", "%+v: the call returned %v and %d before-events never got an after- or abort-event (innermost %v)", sc, callErr, len(br.open), tail(br.open, 4))
			return
		}
	}
	res.Logf("returned %v after %d callbacks (%d after close)", callErr, calls, afterClosed)
	// the log must be deterministic: replace the counts (timing dependent for deadlines and pure spins)
	res.Trace = res.Trace[:1]
	if guestWASI && (cause == causeClose || cause == causeRuntimeClose) {
		// same line as on the known-finding path: which of the two happens is a matter of real timing
		res.Logf("returned (exit error or the known nil dereference)")
		return
	}
	res.Logf("returned exit code %#x", ee.ExitCode())
	return
}

func firstLine(err error) string {
	if err == nil {
		return "<nil>"
	}
	return strings.SplitN(err.Error(), "\n", 2)[0]
}

func t0delay(k int) time.Duration { return time.Duration(k*100) * time.Microsecond }
