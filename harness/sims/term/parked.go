package term

import (
	"context"
	"errors"
	"fmt"
	"time"

	"github.com/tetratelabs/wazero"
	"github.com/tetratelabs/wazero/api"
	"github.com/tetratelabs/wazero/experimental"
	"github.com/tetratelabs/wazero/sys"

	"verifharness/sim"
	"verifharness/tape"
	"verifharness/wasmb"
)

// Class parked: the guest is not looping but PARKED in memory.atomic.wait32/64 with an infinite timeout
// (threads feature): "whatever the guest is doing" includes waiting.  The call runs in its own goroutine;
// if it has not returned 2 s after the cause fired, that is the recorded known finding (the goroutine
// stays parked until the worker exits).
func runParked(t *tape.Tape, cfg sim.Config) (res sim.Result) {
	bg := context.Background()
	var rc wazero.RuntimeConfig
	if cfg.Engine == "interpreter" {
		rc = wazero.NewRuntimeConfigInterpreter()
	} else {
		rc = wazero.NewRuntimeConfigCompiler()
	}
	rt := wazero.NewRuntimeWithConfig(bg, rc.WithCloseOnContextDone(true).WithCoreFeatures(api.CoreFeaturesV2|experimental.CoreFeaturesThreads))
	wide := t.Chance(1, 2)
	cause := t.Choose(4)
	entered := make(chan struct{}, 1)
	_, err := rt.NewHostModuleBuilder("env").NewFunctionBuilder().WithFunc(func() {
		select {
		case entered <- struct{}{}:
		default:
		}
	}).Export("h").Instantiate(bg)
	if err != nil {
		panic(err)
	}
	m := &wasmb.Module{}
	h := m.ImportFunc("env", "h", nil, nil)
	m.Mem = &wasmb.Limits{Min: 1, Max: 1, HasMax: true, Shared: true}
	c := (&wasmb.Code{}).Call(h).I32Const(64)
	if wide {
		c.I64Const(0).I64Const(-1).Raw(0xFE, 0x02, 3, 0) // memory.atomic.wait64
	} else {
		c.I32Const(0).I64Const(-1).Raw(0xFE, 0x01, 2, 0) // memory.atomic.wait32
	}
	c.Drop()
	m.AddFunc(nil, nil, nil, c.B, "run")
	mod, err := rt.Instantiate(bg, m.Encode())
	if err != nil {
		panic(fmt.Sprintf("harness: %v", err))
	}
	ctx, cancel := context.WithCancel(bg)
	defer cancel()
	if cause == 1 {
		ctx, cancel = context.WithTimeout(bg, time.Duration(2+t.Choose(5))*time.Millisecond)
		defer cancel()
	}
	done := make(chan error, 1)
	go func() {
		_, err := mod.ExportedFunction("run").Call(ctx)
		done <- err
	}()
	<-entered
	time.Sleep(time.Duration(1+t.Choose(3)) * time.Millisecond) // let it park
	want := uint32(sys.ExitCodeContextCanceled)
	switch cause {
	case 0:
		cancel()
	case 1:
		want = sys.ExitCodeDeadlineExceeded
	case 2:
		want = 33
		go mod.CloseWithExitCode(bg, 33)
	case 3:
		want = 0
		go rt.Close(bg)
	}
	res.Sample = map[string]any{"wait64": wide, "cause": cause}
	res.Shape = sim.ShapeOf(fmt.Sprint(wide, cause))
	res.Logf("parked in memory.atomic.wait (64-bit: %v), cause %d", wide, cause)
	res.Nontrivial = true
	res.Stat("probe.guest_parked_in_atomic_wait", 1)
	select {
	case callErr := <-done:
		var ee *sys.ExitError
		if !errors.As(callErr, &ee) || ee.ExitCode() != want {
			res.Fail("wrong-error", "parked guest, cause %d: the call returned %v, expected an exit error with code %#x", cause, callErr, want)
		}
	case <-time.After(2 * time.Second):
		res.Known = append(res.Known, "guest-parked-in-atomic-wait-is-not-woken")
		if !mod.IsClosed() && cause != 3 {
			res.Fail("not-closed", "parked guest, cause %d: 2 s later the call has not returned AND the module is not even closed", cause)
		}
	}
	return
}
