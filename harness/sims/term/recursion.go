package term

import (
	"context"
	"errors"
	"fmt"
	"sync/atomic"
	"time"

	"github.com/tetratelabs/wazero"
	"github.com/tetratelabs/wazero/api"
	"github.com/tetratelabs/wazero/experimental"
	"github.com/tetratelabs/wazero/sys"

	"verifharness/sim"
	"verifharness/tape"
	"verifharness/wasmb"
)

// Class recursion: the guest neither loops nor tail-calls: f(n) = if n != 0 { h(); f(n-1); f(n-1) },
// called with n = 48: about 2^48 calls at a stack depth of at most 48, i.e. it runs "for ever" without
// ever exhausting the stack.  Every call passes through the host function h, so the simulator owns the
// moment of the cause (k-th callback) and can end an abandoned call (h panics once told to).
func runRecursion(t *tape.Tape, cfg sim.Config) (res sim.Result) {
	bg := context.Background()
	var rc wazero.RuntimeConfig
	if cfg.Engine == "interpreter" {
		rc = wazero.NewRuntimeConfigInterpreter()
	} else {
		rc = wazero.NewRuntimeConfigCompiler()
	}
	rt := wazero.NewRuntimeWithConfig(bg, rc.WithCloseOnContextDone(true))
	defer rt.Close(bg)
	cause := t.Choose(4)
	k := int64(1 + t.Choose(50))
	var mod api.Module
	var calls int64
	var abandon atomic.Bool
	ctx, cancel := context.WithCancel(bg)
	defer cancel()
	fired := make(chan struct{})
	_, err := rt.NewHostModuleBuilder("env").NewFunctionBuilder().WithFunc(func() {
		if abandon.Load() {
			panic("abandoned by the simulator")
		}
		if n := atomic.AddInt64(&calls, 1); n == k {
			switch cause {
			case 0, 1:
				cancel()
			case 2:
				go mod.CloseWithExitCode(bg, 33)
			case 3:
				go rt.Close(bg)
			}
			for i := 0; i < 100000 && !mod.IsClosed(); i++ {
				time.Sleep(20 * time.Microsecond)
			}
			close(fired)
		}
	}).Export("h").Instantiate(bg)
	if err != nil {
		panic(err)
	}
	m := &wasmb.Module{}
	h := m.ImportFunc("env", "h", nil, nil)
	i32 := []wasmb.ValType{wasmb.I32}
	// f = function index 1
	c := (&wasmb.Code{}).LocalGet(0).I32Eqz().If(wasmb.BlockVoid).Return().End().
		Call(h).
		LocalGet(0).I32Const(1).I32Sub().Call(1).
		LocalGet(0).I32Const(1).I32Sub().Call(1)
	m.AddFunc(i32, nil, nil, c.B, "f")
	mod, err = rt.Instantiate(bg, m.Encode())
	if err != nil {
		panic(fmt.Sprintf("harness: %v", err))
	}
	done := make(chan error, 1)
	go func() {
		_, err := mod.ExportedFunction("f").Call(ctx, 48)
		done <- err
	}()
	want := uint32(sys.ExitCodeContextCanceled)
	switch cause {
	case 2:
		want = 33
	case 3:
		want = 0
	}
	res.Sample = map[string]any{"cause": cause, "k": k}
	res.Shape = sim.ShapeOf(fmt.Sprint(cause, k))
	res.Logf("pure recursion (no loop, no tail call), cause %d at callback %d", cause, k)
	res.Nontrivial = true
	res.Stat("probe.guest_recursing_without_loops", 1)
	<-fired
	select {
	case callErr := <-done:
		var ee *sys.ExitError
		if !errors.As(callErr, &ee) || ee.ExitCode() != want {
			res.Fail("wrong-error", "recursing guest, cause %d: the call returned %v, expected an exit error with code %#x", cause, callErr, want)
		}
	case <-time.After(2 * time.Second):
		res.Known = append(res.Known, "recursion-without-loops-is-not-interrupted")
		if !mod.IsClosed() && cause != 3 {
			res.Fail("not-closed", "recursing guest, cause %d: 2 s later the call has not returned AND the module is not closed", cause)
		}
		abandon.Store(true)
		select {
		case <-done:
		case <-time.After(5 * time.Second):
			res.Fail("hang", "the abandoned recursing call did not end even through a panicking host function")
		}
	}
	return
}

// Class start-function: the guest spins inside its START-SECTION function, i.e. during InstantiateModule:
// there is no module handle yet, the instance is not registered.  Causes: the instantiation's context is
// cancelled / times out, or the runtime is closed from another goroutine.  InstantiateModule must return.
func runStartSpin(t *tape.Tape, cfg sim.Config) (res sim.Result) {
	bg := context.Background()
	var rc wazero.RuntimeConfig
	if cfg.Engine == "interpreter" {
		rc = wazero.NewRuntimeConfigInterpreter()
	} else {
		rc = wazero.NewRuntimeConfigCompiler()
	}
	rt := wazero.NewRuntimeWithConfig(bg, rc.WithCloseOnContextDone(true))
	defer rt.Close(bg)
	cause := t.Choose(3) // 0 cancel, 1 deadline, 2 runtime close
	k := int64(1 + t.Choose(50))
	var calls int64
	var abandon atomic.Bool
	ctx, cancel := context.WithCancel(bg)
	if cause == 1 {
		ctx, cancel = context.WithTimeout(bg, time.Duration(1+t.Choose(20))*time.Millisecond)
	}
	defer cancel()
	fired := make(chan struct{})
	closedCh := make(chan struct{})
	_, err := rt.NewHostModuleBuilder("env").NewFunctionBuilder().WithFunc(func() {
		if abandon.Load() {
			panic("abandoned by the simulator")
		}
		if n := atomic.AddInt64(&calls, 1); n == k {
			switch cause {
			case 0:
				cancel()
			case 1:
				<-ctx.Done()
			case 2:
				rt.Close(bg)
				close(closedCh)
			}
			close(fired)
		}
	}).Export("h").Instantiate(bg)
	if err != nil {
		panic(err)
	}
	m := &wasmb.Module{}
	h := m.ImportFunc("env", "h", nil, nil)
	st := m.AddFunc(nil, nil, nil, (&wasmb.Code{}).Loop(wasmb.BlockVoid).Call(h).Br(0).End().B, "")
	m.Start = &st
	m.Mem = &wasmb.Limits{Min: 1, Max: 1, HasMax: true}
	cm, err := rt.CompileModule(bg, m.Encode())
	if err != nil {
		panic(err)
	}
	// one or two instantiations of the module are inside their start function at the same time (the
	// instance-per-request pattern: the same name, usually none)
	ninst := 1 + t.Choose(2)
	name := tape.Pick(t, []string{"", "s"})
	// late: the second instantiation is past the runtime's own closed check but has not begun its start
	// function when the runtime is closed (it is held inside its memory allocation until then)
	late := ninst == 2 && cause == 2 && t.Chance(1, 2)
	all := make(chan error, ninst)
	for i := 0; i < ninst; i++ {
		ictx := ctx
		if late && i == 1 {
			ictx = experimental.WithMemoryAllocator(ctx, experimental.MemoryAllocatorFunc(func(cap, max uint64) experimental.LinearMemory {
				select {
				case <-closedCh:
				case <-time.After(5 * time.Second):
				}
				return &plainMem{}
			}))
		}
		go func() {
			_, err := rt.InstantiateModule(ictx, cm, wazero.NewModuleConfig().WithName(name))
			all <- err
		}()
	}
	done := make(chan error, 1)
	go func() {
		var first error
		for i := 0; i < ninst; i++ {
			if err := <-all; err == nil {
				first = nil
				done <- nil
				return
			} else if first == nil {
				first = err
			}
		}
		done <- first
	}()
	res.Sample = map[string]any{"cause": cause, "k": k, "instantiations": ninst}
	res.Shape = sim.ShapeOf(fmt.Sprint(cause, k, ninst))
	res.Logf("%d instantiation(s) spinning in the start-section function, cause %d at callback %d", ninst, cause, k)
	res.Nontrivial = true
	res.Stat("probe.guest_spinning_in_its_start_function", 1)
	select {
	case <-fired:
	case ierr := <-done:
		// every instantiation ended before the k-th callback: legitimate only for a deadline that passed
		// earlier (a slow machine); the outcome is judged all the same.  (When this goroutine was slow, both
		// channels are ready and select picked this one: then the cause HAS fired.)
		causeFired := false
		select {
		case <-fired:
			causeFired = true
		default:
		}
		if ierr == nil {
			res.Fail("wrong-error", "start function spinning, cause %d: InstantiateModule returned no error", cause)
		} else if cause != 1 && !causeFired {
			res.Fail("wrong-error", "start function spinning: InstantiateModule returned %v before the cause (%d) was fired", ierr, cause)
		}
		return
	}
	select {
	case ierr := <-done:
		if ierr == nil {
			res.Fail("wrong-error", "start function spinning, cause %d: InstantiateModule returned no error", cause)
		}
	case <-time.After(2 * time.Second):
		res.Fail("late-stop", "%d instantiation(s) named %q spinning in the start-section function, cause %d (0 cancel, 1 deadline, 2 Runtime.Close from the host callback): not every InstantiateModule has returned 2 s after the cause", ninst, name, cause)
		abandon.Store(true)
		select {
		case <-done:
		case <-time.After(5 * time.Second):
			res.Fail("hang", "the abandoned instantiation did not end even through a panicking host function")
		}
	}
	return
}

// plainMem: a trivial experimental.LinearMemory.
type plainMem struct{ b []byte }

func (m *plainMem) Reallocate(size uint64) []byte {
	nb := make([]byte, size)
	copy(nb, m.b)
	m.b = nb
	return nb
}
func (m *plainMem) Free() {}
