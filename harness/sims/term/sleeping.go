package term

import (
	"context"
	"errors"
	"fmt"
	"time"

	"github.com/tetratelabs/wazero"
	"github.com/tetratelabs/wazero/imports/wasi_snapshot_preview1"
	"github.com/tetratelabs/wazero/sys"

	"verifharness/sim"
	"verifharness/tape"
	"verifharness/wasmb"
)

// Class sleeping: the guest is neither looping nor parked in an atomic wait but SLEEPING in WASI
// poll_oneoff (one relative clock subscription: what sleep()/nanosleep of a WASI libc does), the module
// configured with a real sleep (ModuleConfig.WithSysNanosleep, as the command-line tool does).  The call
// runs in its own goroutine; if it has not returned 1 s after the cause fired although the sleep lasts
// 2.5 s, that is the recorded known finding (the call returns when the sleep is over).
func runSleeping(t *tape.Tape, cfg sim.Config) (res sim.Result) {
	bg := context.Background()
	var rc wazero.RuntimeConfig
	if cfg.Engine == "interpreter" {
		rc = wazero.NewRuntimeConfigInterpreter()
	} else {
		rc = wazero.NewRuntimeConfigCompiler()
	}
	rt := wazero.NewRuntimeWithConfig(bg, rc.WithCloseOnContextDone(true))
	defer rt.Close(bg)
	if _, err := wasi_snapshot_preview1.Instantiate(bg, rt); err != nil {
		panic(err)
	}
	cause := t.Choose(3)
	entered := make(chan struct{}, 1)
	_, err := rt.NewHostModuleBuilder("env").NewFunctionBuilder().WithFunc(func() {
		select {
		case entered <- struct{}{}:
		default:
		}
	}).Export("h").Instantiate(bg)
	if err != nil {
		panic(err)
	}
	const sleepNs = int64(2500 * time.Millisecond)
	m := &wasmb.Module{Mem: &wasmb.Limits{Min: 1}}
	h := m.ImportFunc("env", "h", nil, nil)
	i32 := wasmb.I32
	poll := m.ImportFunc("wasi_snapshot_preview1", "poll_oneoff", []wasmb.ValType{i32, i32, i32, i32}, []wasmb.ValType{i32})
	// subscription at 64: userdata 0, tag 0 (clock) at +8, clock id 1 (monotonic) at +16, timeout at +24,
	// precision 0, flags 0 (relative); events at 256; count at 512
	c := (&wasmb.Code{}).Call(h).
		I32Const(64+16).I32Const(1).I32Store(0).
		I32Const(64+24).I64Const(sleepNs).I64Store(0).
		I32Const(64).I32Const(256).I32Const(1).I32Const(512).Call(poll).Drop()
	// then a loop, so that the closed module is noticed once the sleep is over
	c.Loop(wasmb.BlockVoid).Call(h).Br(0).End()
	m.AddFunc(nil, nil, nil, c.B, "run")
	mod, err := rt.InstantiateWithConfig(bg, m.Encode(), wazero.NewModuleConfig().WithSysNanosleep().WithSysNanotime().WithStartFunctions())
	if err != nil {
		panic(fmt.Sprintf("harness: %v", err))
	}
	ctx, cancel := context.WithCancel(bg)
	defer cancel()
	if cause == 1 {
		ctx, cancel = context.WithTimeout(bg, time.Duration(20+t.Choose(50))*time.Millisecond)
		defer cancel()
	}
	done := make(chan error, 1)
	start := time.Now()
	go func() {
		_, err := mod.ExportedFunction("run").Call(ctx)
		done <- err
	}()
	<-entered
	time.Sleep(time.Duration(5+t.Choose(10)) * time.Millisecond) // let it fall asleep
	want := uint32(sys.ExitCodeContextCanceled)
	switch cause {
	case 0:
		cancel()
	case 1:
		want = sys.ExitCodeDeadlineExceeded
	case 2:
		want = 33
		go mod.CloseWithExitCode(bg, 33)
	}
	res.Sample = map[string]any{"cause": cause}
	res.Shape = sim.ShapeOf(fmt.Sprint(cause))
	res.Logf("sleeping in poll_oneoff (2.5 s, real sleep configured), cause %d", cause)
	res.Nontrivial = true
	res.Stat("probe.guest_sleeping_in_poll_oneoff", 1)
	judge := func(callErr error) {
		var ee *sys.ExitError
		if !errors.As(callErr, &ee) || ee.ExitCode() != want {
			res.Fail("wrong-error", "sleeping guest, cause %d: the call returned %v, expected an exit error with code %#x", cause, callErr, want)
		}
	}
	select {
	case callErr := <-done:
		judge(callErr)
	case <-time.After(1 * time.Second):
		res.Known = append(res.Known, "guest-sleeping-in-poll-oneoff-is-not-interrupted")
		if !mod.IsClosed() {
			res.Fail("not-closed", "sleeping guest, cause %d: 1 s later the call has not returned AND the module is not even closed", cause)
			return
		}
		// once the sleep is over the call must end, with the right error
		select {
		case callErr := <-done:
			judge(callErr)
		case <-time.After(time.Duration(sleepNs) - time.Since(start) + 3*time.Second):
			res.Fail("hang", "sleeping guest, cause %d: the call has not returned 3 s after its 2.5 s sleep ended", cause)
		}
	}
	return
}
