//go:build go1.25

package term

import (
	"context"
	"encoding/json"
	"errors"
	"fmt"
	"os"
	"os/exec"
	"strings"
	"sync/atomic"
	"testing"
	"testing/synctest"
	"time"

	"github.com/tetratelabs/wazero"
	"github.com/tetratelabs/wazero/api"
	"github.com/tetratelabs/wazero/experimental"
	"github.com/tetratelabs/wazero/sys"

	"verifharness/sim"
	"verifharness/tape"
)

// Class synctest-deadline: real context.WithTimeout deadlines of simulated
// minutes to hours inside a testing/synctest bubble (go1.26.8): every timer and
// every time.Sleep of the host callback reads the fake clock, so an hour-long
// deadline costs milliseconds, and the instant at which the deadline fires
// relative to the guest's host callbacks is exact and repeatable.

func init() {
	synctestAvailable = true
	sim.RegisterChildMode("c07st", childST)
	runSynctest = runSynctestImpl
}

type stScenario struct {
	Engine   string `json:"engine"`
	Shape    int    `json:"shape"`
	Pad      int    `json:"pad"`
	Deadline int64  `json:"deadline_ns"`
	Sleep    int64  `json:"sleep_ns"`
	Cause    int    `json:"cause"` // 0 deadline, 1 cancel after Deadline from a timer goroutine
}

type stResult struct {
	Err       string `json:"err"`
	ExitCode  uint32 `json:"exit_code"`
	IsExit    bool   `json:"is_exit"`
	Closed    bool   `json:"closed"`
	Calls     int64  `json:"calls"`
	After     int64  `json:"after_closed"`
	Sites     int    `json:"sites"`
	ElapsedNs int64  `json:"elapsed_ns"`
	WallMs    int64  `json:"wall_ms"`
	Panic     string `json:"panic,omitempty"`
}

func runSynctestImpl(t *tape.Tape, cfg sim.Config) (res sim.Result) {
	sc := stScenario{Engine: cfg.Engine, Shape: t.Choose(numShapes), Pad: tape.Pick(t, []int{0, 1, 7}),
		Deadline: int64(time.Duration(1+t.Choose(120)) * time.Minute), Sleep: int64(time.Duration(1+t.Choose(600)) * time.Second), Cause: t.Choose(2)}
	res.Sample = sc
	res.Shape = sim.ShapeOf(fmt.Sprint(sc))
	res.Logf("synctest scenario %+v shape=%s", sc, shapeNames[sc.Shape])
	js, _ := json.Marshal(sc)
	cmd := exec.Command(os.Args[0], "child", "c07st", string(js))
	out, err := cmd.CombinedOutput()
	var r stResult
	found := false
	for _, ln := range strings.Split(string(out), "\n") {
		if strings.HasPrefix(ln, "STRESULT ") {
			if json.Unmarshal([]byte(ln[9:]), &r) == nil {
				found = true
			}
		}
	}
	if !found {
		// the bubble deadlocked (durably blocked goroutines) or the child died: the call did not return
		res.Fail("hang", "%+v (%s): the call never returned inside the bubble: %v\n%s", sc, shapeNames[sc.Shape], err, tailStr(string(out), 1500))
		return
	}
	res.SimNs = r.ElapsedNs
	res.Steps = r.Calls
	res.Nontrivial = true
	res.Stat("fault.deadline_on_fake_clock", 1)
	res.Stat("probe.shape_"+shapeNames[sc.Shape], 1)
	if r.Panic != "" {
		res.Fail("wrong-error", "%+v: %s", sc, r.Panic)
		return
	}
	want := sys.ExitCodeDeadlineExceeded
	if sc.Cause == 1 {
		want = sys.ExitCodeContextCanceled
	}
	if !r.IsExit || r.ExitCode != want {
		res.Fail("wrong-exit-code", "%+v (%s): call returned %q (exit=%v code %#x), expected exit code %#x", sc, shapeNames[sc.Shape], r.Err, r.IsExit, r.ExitCode, want)
		return
	}
	if !r.Closed {
		res.Fail("not-closed", "%+v: module not closed after the deadline", sc)
		return
	}
	if int(r.After) > r.Sites {
		res.Fail("late-stop", "%+v (%s): %d host callbacks ran after the module was closed; the cycle has %d host-call sites", sc, shapeNames[sc.Shape], r.After, r.Sites)
		return
	}
	// simulated time: the call cannot return before the deadline, and must return within
	// (sites+1) further sleeps after it
	if r.ElapsedNs < sc.Deadline {
		res.Fail("early-stop", "%+v: the call returned after %v of simulated time, before the %v deadline", sc, time.Duration(r.ElapsedNs), time.Duration(sc.Deadline))
		return
	}
	if limit := sc.Deadline + int64(r.Sites+2)*sc.Sleep; r.ElapsedNs > limit {
		res.Fail("late-stop", "%+v: the call returned after %v of simulated time; deadline %v plus at most %d more callbacks of %v allows %v", sc, time.Duration(r.ElapsedNs), time.Duration(sc.Deadline), r.Sites+2, time.Duration(sc.Sleep), time.Duration(limit))
		return
	}
	// the simulated instant of the return is not part of the trace: when a callback's sleep ends at the
	// very instant of the deadline, which of the two goroutines runs first is the Go scheduler's choice
	res.Logf("returned exit code %#x", r.ExitCode)
	return
}

func tailStr(s string, n int) string {
	if len(s) > n {
		return s[len(s)-n:]
	}
	return s
}

func childST(args []string) {
	var sc stScenario
	if err := json.Unmarshal([]byte(args[0]), &sc); err != nil {
		fmt.Println("bad scenario", err)
		os.Exit(2)
	}
	os.Args = os.Args[:1]
	testing.Main(func(pat, str string) (bool, error) { return true, nil },
		[]testing.InternalTest{{Name: "bubble", F: func(t *testing.T) {
			synctest.Test(t, func(t *testing.T) { bubble(sc) })
		}}}, nil, nil)
}

func bubble(sc stScenario) {
	var r stResult
	defer func() {
		if p := recover(); p != nil {
			r.Panic = fmt.Sprint(p)
		}
		b, _ := json.Marshal(r)
		fmt.Println("STRESULT " + string(b))
	}()
	wall0 := time.Now() // fake
	realStart := nowReal()
	bin, sites := buildGuest(sc.Shape, true, sc.Pad)
	var binB []byte
	if sc.Shape == shCrossModuleLoop || sc.Shape == shCrossModuleNestedLoop {
		binB, sites = buildGuestB(sc.Shape, true, sc.Pad)
	}
	r.Sites = sites
	bg := context.Background()
	var rc wazero.RuntimeConfig
	if sc.Engine == "interpreter" {
		rc = wazero.NewRuntimeConfigInterpreter()
	} else {
		rc = wazero.NewRuntimeConfigCompiler()
	}
	rc = rc.WithCloseOnContextDone(true).WithCoreFeatures(api.CoreFeaturesV2 | experimental.CoreFeaturesTailCall)
	rt := wazero.NewRuntimeWithConfig(bg, rc)
	defer rt.Close(bg)
	var mod api.Module
	var calls, after int64
	hostFn := func(ctx context.Context, m api.Module, stack []uint64) {
		tag := uint32(stack[0])
		if tag == 9 {
			if _, err := m.ExportedFunction("spin").Call(ctx); err != nil {
				panic(err)
			}
			return
		}
		if tag == 0 {
			return
		}
		atomic.AddInt64(&calls, 1)
		if mod != nil && mod.IsClosed() {
			atomic.AddInt64(&after, 1)
			return
		}
		time.Sleep(time.Duration(sc.Sleep)) // simulated
	}
	if _, err := rt.NewHostModuleBuilder("env").NewFunctionBuilder().
		WithGoModuleFunction(api.GoModuleFunc(hostFn), []api.ValueType{api.ValueTypeI32}, nil).Export("h").Instantiate(bg); err != nil {
		panic(err)
	}
	var err error
	if binB != nil {
		cmB, err := rt.CompileModule(bg, binB)
		if err != nil {
			panic(err)
		}
		if _, err = rt.InstantiateModule(bg, cmB, wazero.NewModuleConfig().WithName("b")); err != nil {
			panic(err)
		}
	}
	mod, err = rt.Instantiate(bg, bin)
	if err != nil {
		panic(err)
	}
	var ctx context.Context
	var cancel context.CancelFunc
	if sc.Cause == 0 {
		ctx, cancel = context.WithTimeout(bg, time.Duration(sc.Deadline))
	} else {
		ctx, cancel = context.WithCancel(bg)
		tm := time.AfterFunc(time.Duration(sc.Deadline), cancel)
		defer tm.Stop()
	}
	defer cancel()
	_, callErr := mod.ExportedFunction("run").Call(ctx)
	r.ElapsedNs = int64(time.Since(wall0))
	r.WallMs = nowReal() - realStart
	r.Calls, r.After = calls, after
	r.Closed = mod.IsClosed()
	if callErr != nil {
		r.Err = strings.SplitN(callErr.Error(), "\n", 2)[0]
		var ee *sys.ExitError
		if errors.As(callErr, &ee) {
			r.IsExit, r.ExitCode = true, ee.ExitCode()
		}
	}
}

// nowReal: milliseconds of process CPU-independent real time are not available
// inside a bubble (time.Now is fake); report 0 and let the parent measure.
func nowReal() int64 { return 0 }
