package wasifs

import (
	"bytes"
	"context"
	"encoding/binary"
	"fmt"
	"os"
	"path/filepath"
	"sort"
	"strings"

	"github.com/tetratelabs/wazero"
	experimentalsys "github.com/tetratelabs/wazero/experimental/sys"
	"github.com/tetratelabs/wazero/experimental/sysfs"

	"verifharness/sim"
	"verifharness/tape"
	w "verifharness/wasiguest"
)

const (
	offRes   = 0x100
	offRes2  = 0x108
	offPath1 = 0x200
	offPath2 = 0x300
	offIov   = 0x400
	offStat  = 0x500
	offData  = 0x1000
	dataCap  = 0x20000
	canary   = 0xCD
)

// WASI flag values (from the WASI snapshot-01 specification).
const (
	oCreat     = 1
	oDirectory = 2
	oExcl      = 4
	oTrunc     = 8
	fdAppend   = 1
	fdDsync    = 2
	fdNonblock = 4
	fdRsync    = 8
	fdSync     = 16
	rightRead  = 1 << 1
	rightWrite = 1 << 6
	ftDir      = 3
	ftReg      = 4
)

type c16 struct{}

func init() { sim.Register(c16{}) }

func (c16) Property() string { return "C16" }

func (c16) Classes() []sim.Class {
	var cs []sim.Class
	for _, e := range []string{"interpreter", "compiler"} {
		cs = append(cs,
			sim.Class{Name: "history", Engine: e, Quick: 4000, Thorough: 150000},
			sim.Class{Name: "readdir", Engine: e, Quick: 1500, Thorough: 50000},
			sim.Class{Name: "faults", Engine: e, Quick: 2500, Thorough: 80000},
			sim.Class{Name: "descriptors", Engine: e, Quick: 300, Thorough: 10000},
			// names that are prefixes of each other, directory descriptors as bases of path calls, renames
			sim.Class{Name: "namespace", Engine: e, Quick: 1200, Thorough: 40000},
		)
	}
	return cs
}

func (c16) Describe() sim.Description {
	return sim.Description{
		Level: "exploration",
		Rule: "class namespace: names that are string prefixes of each other, every directory of the initial tree opened first and used as base of path calls, renames favoured; tape-generated histories of 5-40 WASI file-system calls issued by a guest (shim module on a real engine) against a fresh host directory; " +
			"every errno and output buffer is compared with a POSIX-style reference model (inodes, descriptors, offsets, readdir passes), the host tree is compared with the model tree after the history. " +
			"A run is non-trivial if at least 3 calls succeeded with an effect and at least one of: descriptor reuse after close/renumber, mixed positional/sequential I/O, a multi-call readdir pass, or a fired fault; " +
			"distinct = distinct sequences of (operation kind, errno) per class and engine",
		RealCode: []string{"imports/wasi_snapshot_preview1 (fs functions)", "internal/sys FSContext + DirentCache", "internal/descriptor table", "internal/sysfs DirFS/osFile on a real temp directory", "both engines (guest = WASI shim module)"},
		Stubs:    []string{"class faults only: fault-injecting experimental/sys.FS wrapper between WASI and DirFS"},
		Assumptions: []string{
			"host file system is a POSIX file system with Linux semantics for cases POSIX leaves open (documented in the model as result sets)",
			"readdir order, inode numbers and timestamps not set explicitly are not compared",
			"descriptors whose opening path was renamed/unlinked are not used for operations that wazero re-opens by path (fd_fdstat_set_flags, fd_readdir, path operations relative to them)",
		},
		FaultKinds: []string{"short_read", "torn_write (prefix written, error reported)", "eio", "eintr", "eagain", "eacces"},
	}
}

// env is the system under test for one run.
type env struct {
	g      *w.Guest
	root   string
	root2  string
	ctl    *faultCtl
	ctx    context.Context
	closed bool
}

func (e *env) close() {
	if e.g != nil {
		e.g.Mod.Close(e.ctx)
	}
	if e.root != "" {
		os.RemoveAll(e.root)
	}
	if e.root2 != "" {
		os.RemoveAll(e.root2)
	}
}

type runState struct {
	hugeDir   bool // class readdir: the big directory has more than 1000 entries
	t         *tape.Tape
	m         *model
	e         *env
	res       *sim.Result
	wcount    int
	lastErrno uint32
	shape     []string
	// non-triviality probes
	effects, reuse, mixedIO, rdMulti, faultsFired int
	lastFreed                                     map[int32]bool
	faulty                                        bool
	ro                                            bool // C17 mode: nothing may change
	dense                                         bool // names from densePool
	prefixFds                                     map[*fdesc]bool
	nsFocus                                       bool // class namespace: directory descriptors as bases, renames
}

var namePool = []string{"a", "b", "c", "d1", "d2", "longer-name-x", "ab", "d"} // "a"/"ab", "d"/"d1": names that are string prefixes of siblings

// densePool: every name is a string prefix of a sibling or has one (a third of the runs of C16)
var densePool = []string{"a", "ab", "d", "d1", "b"}

func (s *runState) pickName() string {
	if s.dense {
		return tape.Pick(s.t, densePool)
	}
	return tape.Pick(s.t, namePool)
}

// pickPath returns a relative path; mostly existing things.
func (s *runState) pickPath() string {
	p := s.pickPath0()
	if s.t.Chance(1, 8) && !strings.HasSuffix(p, "/") && p != "." {
		p += "/" // a trailing slash demands a directory, whatever the base descriptor is
	}
	return p
}

func (s *runState) pickPath0() string {
	t := s.t
	if big := s.m.root.kids["big"]; big != nil && big.dir && t.Chance(1, 4) {
		// an entry of the large directory that is being listed (class readdir), or a new name in it
		if ks := sortedKids(big); len(ks) > 0 && t.Chance(3, 4) {
			return "big/" + ks[t.Choose(len(ks))]
		}
		return fmt.Sprintf("big/new%d", t.Choose(5))
	}
	switch t.Weighted(6, 3, 2, 1, 1, 1) {
	case 0:
		return s.pickName()
	case 1:
		return s.pickName() + "/" + s.pickName()
	case 2:
		return s.pickName() + "/" + s.pickName() + "/" + s.pickName()
	case 3:
		return "."
	case 4:
		return s.pickName() + "/../" + s.pickName()
	default:
		return tape.Pick(t, []string{"../a", "/a", "d1/../../a", "a/", "d1/", "./b", "d1//a"})
	}
}

func (s *runState) pickFd(wantOpen bool) int32 {
	t := s.t
	var open []int32
	for fd := range s.m.fds {
		if fd >= 3 {
			open = append(open, fd)
		}
	}
	sort.Slice(open, func(i, j int) bool { return open[i] < open[j] })
	if len(open) > 0 && (wantOpen || !t.Chance(1, 8)) {
		// prefer non-preopen descriptors
		if len(open) > 1 && !t.Chance(1, 6) {
			return open[1+t.Choose(len(open)-1)]
		}
		return open[t.Choose(len(open))]
	}
	return int32(t.Choose(12))
}

func (s *runState) payload(n int) []byte {
	s.wcount++
	b := make([]byte, n)
	for i := range b {
		b[i] = byte(s.wcount*31 + i*7 + 1)
	}
	return b
}

func (s *runState) putPath(off uint32, p string) (uint32, uint32) {
	s.e.g.Write(off, []byte(p))
	return off, uint32(len(p))
}

func (s *runState) call(name string, args ...uint64) (uint32, bool) {
	errno, err := s.e.g.Call(s.e.ctx, name, args...)
	if err != nil {
		s.res.Fail("host-failure", "%s%v did not return an errno: %v", name, args, err)
		return 0, false
	}
	return errno, true
}

// check compares errno with the expectation.
func (s *runState) check(what string, got, want uint32, alts ...uint32) bool {
	s.shape = append(s.shape, fmt.Sprintf("%s:%d", strings.SplitN(what, "(", 2)[0], got))
	s.res.Logf("%s -> %s", what, w.ErrnoName(got))
	if got == want {
		return true
	}
	if want != 0 && got != 0 {
		for _, a := range alts {
			if got == a {
				return true
			}
		}
	}
	s.res.Fail("errno-mismatch", "%s: model expects %s%s, wazero returned %s", what, w.ErrnoName(want), altStr(alts), w.ErrnoName(got))
	return false
}

func altStr(alts []uint32) string {
	if len(alts) == 0 {
		return ""
	}
	var n []string
	for _, a := range alts {
		n = append(n, w.ErrnoName(a))
	}
	return " (or " + strings.Join(n, "/") + ")"
}

func buildTree(t *tape.Tape, m *model, dir *inode, hostDir string, depth int, s *runState) {
	n := t.Choose(4)
	for i := 0; i < n; i++ {
		name := s.pickName()
		if dir.kids[name] != nil {
			continue
		}
		if strings.HasPrefix(name, "d") && depth < 2 {
			d := m.newDir()
			dir.kids[name] = d
			os.Mkdir(filepath.Join(hostDir, name), 0o755)
			buildTree(t, m, d, filepath.Join(hostDir, name), depth+1, s)
		} else {
			f := m.newFile()
			f.data = s.payload(tape.Pick(t, []int{0, 1, 10, 100, 3000}))
			dir.kids[name] = f
			os.WriteFile(filepath.Join(hostDir, name), f.data, 0o644)
		}
	}
}

func (c16) Run(t *tape.Tape, cfg sim.Config) (res sim.Result) {
	s := &runState{t: t, m: newModel(), res: &res}
	e := &env{ctx: context.Background()}
	s.e = e
	defer e.close()
	var err error
	e.root, err = os.MkdirTemp(scratchBase(), "c16-")
	if err != nil {
		panic(err)
	}
	s.dense = t.Chance(1, 3) || cfg.Class == "namespace"
	s.nsFocus = cfg.Class == "namespace"
	buildTree(t, s.m, s.m.root, e.root, 0, s)
	if cfg.Class == "readdir" {
		// one directory with many entries of varying name lengths
		d := s.m.newDir()
		s.m.root.kids["big"] = d
		os.Mkdir(filepath.Join(e.root, "big"), 0o755)
		n := t.Choose(71)
		if t.Chance(1, 25) {
			// a directory larger than any plausible internal batch, read with buffers of up to 64 KiB
			n = 1030 + t.Choose(600)
			s.hugeDir = true
			res.Stat("probe.directory_with_more_than_1000_entries", 1)
		}
		for i := 0; i < n; i++ {
			name := fmt.Sprintf("e%02d%s", i, strings.Repeat("x", t.Choose(5)*t.Choose(9)))
			if t.Chance(1, 6) {
				d.kids[name] = s.m.newDir()
				os.Mkdir(filepath.Join(e.root, "big", name), 0o755)
			} else {
				f := s.m.newFile()
				d.kids[name] = f
				os.WriteFile(filepath.Join(e.root, "big", name), nil, 0o644)
			}
		}
	}
	fsc := wazero.NewFSConfig()
	if cfg.Class == "faults" {
		s.faulty = true
		e.ctl = &faultCtl{}
		fsc = fsc.(sysfs.FSConfig).WithSysFSMount(&faultFS{inner: sysfs.DirFS(e.root), ctl: e.ctl}, "/")
	} else {
		fsc = fsc.WithDirMount(e.root, "/")
	}
	e.g, err = RuntimeFor(cfg.Engine).NewGuest(wazero.NewModuleConfig().WithFSConfig(fsc))
	if err != nil {
		panic(fmt.Sprintf("harness: instantiate shim: %v", err))
	}
	nops := t.Range(5, 40)
	if cfg.Class == "descriptors" {
		// many descriptors open at once: the table's bitmask words (64 entries each) fill up,
		// then holes are punched and refilled: every allocation must be the lowest free number
		if s.m.root.kids["a"] == nil || s.m.root.kids["a"].dir {
			f := s.m.newFile()
			f.data = s.payload(10)
			if old := s.m.root.kids["a"]; old != nil {
				os.RemoveAll(filepath.Join(e.root, "a"))
			}
			s.m.root.kids["a"] = f
			os.WriteFile(filepath.Join(e.root, "a"), f.data, 0o644)
		}
		for n := t.Range(60, 140); n > 0 && res.Violation == nil; n-- {
			s.doPathOpen(3, 1, "a", 0, rightRead, 0)
			res.Steps++
		}
		nops = t.Range(20, 60)
	}
	if s.nsFocus {
		// every directory of the initial tree is opened first (two levels), as a base for later path calls
		for _, n1 := range sortedKids(s.m.root) {
			if k1 := s.m.root.kids[n1]; k1.dir && res.Violation == nil {
				s.doPathOpen(3, 1, n1, oDirectory, rightRead, 0)
				for _, n2 := range sortedKids(k1) {
					if k1.kids[n2].dir && res.Violation == nil && t.Chance(1, 2) {
						s.doPathOpen(3, 1, n1+"/"+n2, oDirectory, rightRead, 0)
					}
				}
			}
		}
		nops = t.Range(20, 60)
	}
	for i := 0; i < nops && res.Violation == nil; i++ {
		s.step(cfg.Class)
		res.Steps++
	}
	if res.Violation == nil {
		s.compareTree()
	}
	res.Shape = sim.ShapeOf(s.shape...)
	res.Nontrivial = s.effects >= 3 && (s.reuse > 0 || s.mixedIO > 0 || s.rdMulti > 0 || s.faultsFired > 0)
	res.Stat("probe.descriptor_reuse", int64(s.reuse))
	res.Stat("probe.mixed_positional_sequential_io", int64(s.mixedIO))
	res.Stat("probe.readdir_multi_call_pass", int64(s.rdMulti))
	res.Stat("calls", res.Steps)
	if len(res.Trace) > 0 {
		smp := res.Trace
		if len(smp) > 14 {
			smp = smp[:14]
		}
		res.Sample = smp
	}
	return
}

func (s *runState) step(class string) {
	t := s.t
	var k int
	switch class {
	case "descriptors":
		k = t.Weighted(8, 8, 1, 0, 0, 0, 0, 0, 3, 0, 0, 0, 1, 0, 0, 0, 0, 0, 0)
	case "readdir":
		k = t.Weighted(3, 1, 1, 1, 0, 0, 0, 0, 0, 1, 0, 0, 0, 0, 1, 1, 1, 1, 10)
	case "namespace":
		k = t.Weighted(8, 1, 1, 1, 0, 0, 0, 0, 1, 6, 0, 0, 0, 0, 4, 2, 2, 6, 2)
	default:
		k = t.Weighted(8, 4, 5, 5, 3, 3, 3, 2, 3, 3, 2, 2, 2, 1, 3, 2, 2, 3, 3)
	}
	if len(s.m.fds) <= 4 && k != 0 && t.Chance(1, 2) {
		k = 0 // few descriptors open: open something first
	}
	if s.faulty {
		s.e.ctl.arm(t)
	}
	switch k {
	case 0:
		s.opPathOpen(class)
	case 1:
		s.opClose()
	case 2:
		s.opRead(false)
	case 3:
		s.opWrite(false)
	case 4:
		s.opRead(true)
	case 5:
		s.opWrite(true)
	case 6:
		s.opSeek()
	case 7:
		s.opTell()
	case 8:
		s.opRenumber()
	case 9:
		s.opFilestatGet()
	case 10:
		s.opSetSize()
	case 11:
		s.opSetTimes()
	case 12:
		s.opFdstat()
	case 13:
		s.opSync()
	case 14:
		s.opMkdir()
	case 15:
		s.opRmdir()
	case 16:
		s.opUnlink()
	case 17:
		s.opRename()
	case 18:
		s.opReaddir(class)
	}
	if s.faulty {
		s.e.ctl.disarm()
	}
}

// ---- path resolution shared by path operations

type resolved struct {
	errno uint32
	alts  []uint32
	lk    lookup
	trail bool
	dirfd *fdesc
	skip  bool // not modelled: do not issue
}

func (s *runState) resolve(dirfd int32, p string) resolved {
	clean, trail, ok := cleanPath(p)
	if !ok && p != "" {
		return resolved{errno: w.EPERM, alts: []uint32{w.ENOTCAPABLE, w.EBADF, w.ENOTDIR}}
	}
	f := s.m.fds[dirfd]
	if f == nil {
		return resolved{errno: w.EBADF}
	}
	if f.stdio || !f.ino.dir {
		return resolved{errno: w.ENOTDIR}
	}
	if f.drift {
		return resolved{skip: true}
	}
	if s.prefixFds[f] {
		s.res.Stat("probe.path_resolved_relative_to_such_a_directory_after_the_rename", 1)
	}
	if p == "" {
		clean = "."
	}
	lk := walk(f.ino, f.opath, clean)
	if lk.errno != 0 {
		return resolved{errno: lk.errno, alts: []uint32{w.ENOENT, w.ENOTDIR}}
	}
	return resolved{lk: lk, trail: trail, dirfd: f}
}

func (s *runState) opPathOpen(class string) {
	t := s.t
	dirfd := int32(3)
	if t.Chance(1, 5) || (s.nsFocus && t.Chance(1, 2)) {
		dirfd = s.pickFd(true)
	}
	p := s.pickPath()
	if class == "readdir" && t.Chance(1, 2) {
		p = "big"
	}
	var oflags, fdflags uint32
	switch t.Weighted(5, 4, 2, 2, 2, 1) {
	case 1:
		oflags = oCreat
	case 2:
		oflags = oCreat | oExcl
	case 3:
		oflags = oTrunc
	case 4:
		oflags = oDirectory
	case 5:
		oflags = oCreat | oTrunc
	}
	if t.Chance(1, 12) || (s.nsFocus && t.Chance(1, 2)) {
		oflags |= oDirectory
	}
	if t.Chance(1, 4) {
		fdflags |= fdAppend
	}
	var rights uint64
	switch t.Weighted(3, 3, 2, 2) {
	case 0:
		rights = rightRead | rightWrite
	case 1:
		rights = rightRead
	case 2:
		rights = rightWrite
	case 3:
		rights = 0
	}
	if s.ro {
		// C17 explores the whole flag space
		oflags = uint32(t.Choose(16))
		fdflags = uint32(t.Choose(32))
		rights = uint64(t.Bits(8))<<0 | uint64(t.Choose(2))<<6 | uint64(t.Choose(2))<<1
	} else if oflags&oTrunc != 0 && rights == rightRead {
		rights = rightRead | rightWrite // O_RDONLY|O_TRUNC is unspecified by POSIX
	}
	s.doPathOpen(dirfd, 1, p, oflags, rights, fdflags)
}

func accessMode(oflags, fdflags uint32, rights uint64) (rd, wr bool) {
	r, wri := rights&rightRead != 0, rights&rightWrite != 0
	switch {
	case r && wri:
		return true, true
	case wri:
		return false, true
	case r:
		return true, false
	}
	if oflags&(oTrunc|oCreat) != 0 || fdflags&fdAppend != 0 {
		return true, true
	}
	return true, false
}

func (s *runState) doPathOpen(dirfd int32, dirflags uint32, p string, oflags uint32, rights uint64, fdflags uint32) {
	m := s.m
	what := fmt.Sprintf("path_open(dirfd=%d,%q,oflags=%#x,rights=%#x,fdflags=%#x)", dirfd, p, oflags, rights, fdflags)
	r := s.resolve(dirfd, p)
	if r.skip {
		return
	}
	rd, wr := accessMode(oflags, fdflags, rights)
	isDirFlag := oflags&oDirectory != 0
	want := uint32(0)
	var alts []uint32
	var apply func(fd int32)
	switch {
	case r.errno != 0:
		want, alts = r.errno, r.alts
		if p == "" {
			alts = append(alts, w.EINVAL)
		}
	case p == "":
		want = w.EINVAL
	case isDirFlag && oflags&oCreat != 0:
		want = w.EINVAL
	case r.lk.target == nil:
		if oflags&oCreat == 0 {
			want = w.ENOENT
		} else if r.trail {
			return // creating with a trailing slash: not modelled
		} else {
			apply = func(fd int32) {
				f := m.newFile()
				r.lk.parent.kids[r.lk.name] = f
				m.markDirChanged(r.lk.parent, r.lk.name)
				m.fds[fd] = &fdesc{ino: f, rd: rd, wr: wr, app: fdflags&fdAppend != 0, opath: r.lk.full}
			}
		}
	case r.lk.target.dir:
		switch {
		case oflags&oCreat != 0 && oflags&oExcl != 0:
			want, alts = w.EEXIST, []uint32{w.EISDIR}
		case wr || oflags&oTrunc != 0 || oflags&oCreat != 0:
			want = w.EISDIR
			alts = []uint32{w.EINVAL}
		default:
			tgt := r.lk.target
			full := r.lk.full
			apply = func(fd int32) {
				m.fds[fd] = &fdesc{ino: tgt, rd: true, opath: full, app: fdflags&fdAppend != 0}
			}
		}
	default: // regular file
		switch {
		case isDirFlag || r.trail:
			want = w.ENOTDIR
			if r.trail && oflags&oCreat != 0 {
				alts = []uint32{w.EISDIR} // Linux: O_CREAT with a trailing slash
			}
		case oflags&oCreat != 0 && oflags&oExcl != 0:
			want = w.EEXIST
		default:
			tgt := r.lk.target
			full := r.lk.full
			apply = func(fd int32) {
				if oflags&oTrunc != 0 {
					tgt.data = nil
					tgt.mtime = 0
				}
				m.fds[fd] = &fdesc{ino: tgt, rd: rd, wr: wr, app: fdflags&fdAppend != 0, opath: full}
			}
		}
	}
	if want != 0 && isDirFlag && oflags&oCreat != 0 {
		alts = append(alts, w.EINVAL) // several errors apply; order is not specified
	}
	if fdflags&(fdDsync|fdRsync|fdSync) != 0 {
		return // sync open flags: platform dependent, not modelled
	}
	po, pl := s.putPath(offPath1, p)
	s.e.g.PutU32(offRes, 0xFFFFFFFF)
	resPtr := uint64(offRes)
	if want == 0 && apply != nil && !s.faulty && s.t.Chance(1, 25) {
		// the result pointer lies outside the guest's memory: the open happens (a file may be created or
		// emptied), the descriptor cannot be reported, the call fails and leaves NO descriptor behind
		resPtr = 0xFFFFFFF0
		what += " [result pointer outside memory]"
		s.res.Stat("fault.path_open_result_pointer_outside_memory", 1)
		inner := apply
		want, alts, apply = w.EFAULT, nil, nil
		defer func() {
			if s.res.Violation == nil && s.lastErrno == w.EFAULT {
				inner(-7)
				delete(m.fds, -7)
			}
		}()
	}
	got, ok := s.call("path_open", uint64(uint32(dirfd)), uint64(dirflags), uint64(po), uint64(pl), uint64(oflags), rights, rights, uint64(fdflags), resPtr)
	if !ok {
		return
	}
	s.lastErrno = got
	if s.faultRelax(what, got, want) {
		s.resyncAfterFault(r, got, apply)
		return
	}
	if !s.check(what, got, want, alts...) {
		return
	}
	if got == 0 {
		fd := int32(s.e.g.U32(offRes))
		wantFd := m.lowestFree()
		if fd != wantFd {
			s.res.Fail("fd-allocation", "%s: returned descriptor %d, lowest free descriptor is %d", what, fd, wantFd)
			return
		}
		if s.lastFreed[fd] {
			s.reuse++
			delete(s.lastFreed, fd)
		}
		apply(fd)
		s.effects++
		s.res.Logf("  = fd %d", fd)
	}
}

func (s *runState) noteFreed(fd int32) {
	if s.lastFreed == nil {
		s.lastFreed = map[int32]bool{}
	}
	s.lastFreed[fd] = true
}

func (s *runState) opClose() {
	fd := s.pickFd(false)
	if fd < 3 {
		return
	}
	if fd == 3 && !s.t.Chance(1, 30) {
		return
	}
	what := fmt.Sprintf("fd_close(%d)", fd)
	want := uint32(0)
	if s.m.fds[fd] == nil {
		want = w.EBADF
	}
	got, ok := s.call("fd_close", uint64(uint32(fd)))
	if !ok {
		return
	}
	if s.faultRelax(what, got, want) {
		// close failed: wazero keeps the descriptor; probe it
		if got != 0 && s.m.fds[fd] != nil {
			s.probeOpen(fd)
		} else if got == 0 {
			delete(s.m.fds, fd)
		}
		return
	}
	if s.check(what, got, want) && got == 0 {
		delete(s.m.fds, fd)
		s.noteFreed(fd)
		s.effects++
	}
}

// probeOpen decides after a faulted close whether the descriptor is still open
// (both are acceptable) and aligns the model.
func (s *runState) probeOpen(fd int32) {
	got, ok := s.call("fd_fdstat_get", uint64(uint32(fd)), offStat)
	if ok && got == w.EBADF {
		delete(s.m.fds, fd)
	}
}

// iovSetup splits [offData, offData+total) into 1-3 iovecs (some zero length).
func (s *runState) iovSetup(total int) (uint32, uint32) {
	t := s.t
	n := 1 + t.Choose(3)
	var lens []int
	rem := total
	for i := 0; i < n; i++ {
		l := rem
		if i < n-1 {
			l = t.Choose(rem + 1)
			if t.Chance(1, 5) {
				l = 0
			}
		}
		lens = append(lens, l)
		rem -= l
	}
	off := uint32(offData)
	for i, l := range lens {
		s.e.g.PutU32(offIov+uint32(i)*8, off)
		s.e.g.PutU32(offIov+uint32(i)*8+4, uint32(l))
		off += uint32(l)
	}
	return offIov, uint32(n)
}

func (s *runState) opRead(positional bool) {
	t := s.t
	fd := s.pickFd(false)
	if fd < 3 {
		return
	}
	f := s.m.fds[fd]
	total := tape.Pick(t, []int{0, 1, 7, 64, 500, 4096, 10000})
	var poff int64
	if positional {
		sz := 0
		if f != nil && f.ino != nil {
			sz = len(f.ino.data)
		}
		poff = int64(t.Choose(sz + 8))
		if t.Chance(1, 20) {
			poff = -1 - int64(t.Choose(3))
		}
	}
	name := "fd_read"
	if positional {
		name = "fd_pread"
	}
	what := fmt.Sprintf("%s(fd=%d,len=%d", name, fd, total)
	if positional {
		what += fmt.Sprintf(",off=%d", poff)
	}
	what += ")"
	s.e.g.Fill(offData, uint32(total)+16, canary)
	iov, iovn := s.iovSetup(total)
	s.e.g.PutU32(offRes, 0xFFFFFFFF)
	want := uint32(0)
	var alts []uint32
	var exp []byte
	switch {
	case f == nil:
		want = w.EBADF
	case f.ino.dir:
		want, alts = w.EISDIR, []uint32{w.EBADF}
		if total == 0 {
			// zero-length read on a directory: nothing is attempted
			alts = append(alts, 0)
		}
	case !f.rd:
		want = w.EBADF
		if total == 0 {
			alts = append(alts, 0)
		}
	case positional && poff < 0:
		want, alts = w.EINVAL, []uint32{w.EIO}
		if total == 0 {
			alts = append(alts, 0)
		}
	default:
		off := f.off
		if positional {
			off = poff
		}
		if off < int64(len(f.ino.data)) {
			end := off + int64(total)
			if end > int64(len(f.ino.data)) {
				end = int64(len(f.ino.data))
			}
			exp = f.ino.data[off:end]
		}
	}
	if positional && poff < 0 && want != 0 && f != nil {
		alts = append(alts, w.EINVAL, w.EIO) // several errors apply
	}
	var got uint32
	var ok bool
	if positional {
		got, ok = s.call(name, uint64(uint32(fd)), uint64(iov), uint64(iovn), uint64(poff), offRes)
	} else {
		got, ok = s.call(name, uint64(uint32(fd)), uint64(iov), uint64(iovn), offRes)
	}
	if !ok {
		return
	}
	fired := s.faultFired()
	if fired != "" {
		s.shape = append(s.shape, name+":fault")
		s.res.Logf("%s -> %s [fault %s]", what, w.ErrnoName(got), fired)
		if want != 0 || got != 0 {
			// the call failed (injected error) or was going to fail anyway
			if want == 0 && got != 0 && f != nil && !positional {
				s.resyncOffset(fd, f)
			}
			return
		}
		// success under a short read: returned data must be a correct prefix
		n := s.e.g.U32(offRes)
		if int(n) > len(exp) {
			s.res.Fail("read-data", "%s under fault %s: nread=%d exceeds the %d bytes available", what, fired, n, len(exp))
			return
		}
		data := s.e.g.Read(offData, n)
		if !f.ino.fuzzy && !bytes.Equal(data, exp[:n]) {
			s.res.Fail("read-data", "%s under fault %s: returned bytes are not a prefix of the file content at the offset", what, fired)
			return
		}
		if !positional {
			f.off += int64(n)
			s.resyncOffset(fd, f)
		}
		return
	}
	if want != 0 && got == 0 && contains(alts, 0) {
		s.shape = append(s.shape, name+":0z")
		return
	}
	if !s.check(what, got, want, alts...) || got != 0 {
		return
	}
	n := s.e.g.U32(offRes)
	if int(n) != len(exp) {
		s.res.Fail("read-count", "%s: nread=%d, model expects %d (file size %d, offset %d)", what, n, len(exp), len(f.ino.data), map[bool]int64{true: poff, false: f.off}[positional])
		return
	}
	data := s.e.g.Read(offData, uint32(total)+16)
	if !f.ino.fuzzy && !bytes.Equal(data[:n], exp) {
		s.res.Fail("read-data", "%s: bytes read differ from the model's file content (first diff at %d)", what, firstDiff(data[:n], exp))
		return
	}
	for i := int(n); i < len(data); i++ {
		if data[i] != canary {
			s.res.Fail("read-overrun", "%s: guest memory beyond the %d bytes read was modified at +%d", what, n, i)
			return
		}
	}
	if !positional {
		f.off += int64(n)
		if f.lastPos {
			s.mixedIO++
		}
	} else {
		f.lastPos = true
	}
	if n > 0 {
		s.effects++
	}
}

func contains(xs []uint32, v uint32) bool {
	for _, x := range xs {
		if x == v {
			return true
		}
	}
	return false
}

func firstDiff(a, b []byte) int {
	for i := 0; i < len(a) && i < len(b); i++ {
		if a[i] != b[i] {
			return i
		}
	}
	return min(len(a), len(b))
}

func writeAt(ino *inode, off int64, b []byte) {
	if len(b) == 0 {
		return
	}
	ino.mtime = 0
	end := off + int64(len(b))
	if int64(len(ino.data)) < end {
		nd := make([]byte, end)
		copy(nd, ino.data)
		ino.data = nd
	}
	copy(ino.data[off:], b)
}

func (s *runState) opWrite(positional bool) {
	t := s.t
	fd := s.pickFd(false)
	if fd < 3 {
		return
	}
	f := s.m.fds[fd]
	total := tape.Pick(t, []int{0, 1, 5, 33, 700, 4096, 9000})
	var poff int64
	if positional {
		sz := 0
		if f != nil && f.ino != nil {
			sz = len(f.ino.data)
		}
		poff = int64(t.Choose(sz + 20))
		if t.Chance(1, 20) {
			poff = -1 - int64(t.Choose(3))
		}
		if f != nil && f.app {
			return // pwrite on an append descriptor: Linux and POSIX differ
		}
	}
	name := "fd_write"
	if positional {
		name = "fd_pwrite"
	}
	what := fmt.Sprintf("%s(fd=%d,len=%d", name, fd, total)
	if positional {
		what += fmt.Sprintf(",off=%d", poff)
	}
	what += ")"
	data := s.payload(total)
	s.e.g.Write(offData, data)
	iov, iovn := s.iovSetup(total)
	s.e.g.PutU32(offRes, 0xFFFFFFFF)
	want := uint32(0)
	var alts []uint32
	switch {
	case f == nil:
		want = w.EBADF
	case f.ino.dir || !f.wr:
		want, alts = w.EBADF, []uint32{w.EISDIR}
		if total == 0 {
			alts = append(alts, 0)
		}
	case positional && poff < 0:
		want, alts = w.EINVAL, []uint32{w.EIO}
		if total == 0 {
			alts = append(alts, 0)
		}
	}
	if positional && poff < 0 && want != 0 && f != nil {
		alts = append(alts, w.EINVAL, w.EIO) // several errors apply
	}
	var got uint32
	var ok bool
	if positional {
		got, ok = s.call(name, uint64(uint32(fd)), uint64(iov), uint64(iovn), uint64(poff), offRes)
	} else {
		got, ok = s.call(name, uint64(uint32(fd)), uint64(iov), uint64(iovn), offRes)
	}
	if !ok {
		return
	}
	if fired := s.faultFired(); fired != "" {
		s.shape = append(s.shape, name+":fault")
		s.res.Logf("%s -> %s [fault %s]", what, w.ErrnoName(got), fired)
		if want != 0 {
			return
		}
		// what was written is uncertain: re-synchronise content and offset,
		// but what is there must consist of old content and payload bytes only
		s.resyncContent(fd, f, data, poff, positional, got)
		return
	}
	if want != 0 && got == 0 && contains(alts, 0) {
		s.shape = append(s.shape, name+":0z")
		return
	}
	if !s.check(what, got, want, alts...) || got != 0 {
		return
	}
	n := s.e.g.U32(offRes)
	if int(n) != total {
		s.res.Fail("write-count", "%s: nwritten=%d, expected %d", what, n, total)
		return
	}
	if positional {
		writeAt(f.ino, poff, data)
		f.lastPos = true
	} else {
		if f.app && total > 0 {
			f.off = int64(len(f.ino.data))
		}
		writeAt(f.ino, f.off, data)
		f.off += int64(total)
		if f.lastPos {
			s.mixedIO++
		}
	}
	if total > 0 {
		s.effects++
	}
}

func (s *runState) opSeek() {
	t := s.t
	fd := s.pickFd(false)
	if fd < 3 {
		return
	}
	f := s.m.fds[fd]
	whence := uint32(t.Weighted(4, 3, 3, 1))
	var off int64
	switch t.Weighted(4, 3, 2, 1) {
	case 0:
		off = int64(t.Choose(50))
	case 1:
		off = -int64(t.Choose(50))
	case 2:
		off = int64(t.Choose(20000))
	case 3:
		off = -int64(t.Choose(20000))
	}
	what := fmt.Sprintf("fd_seek(fd=%d,off=%d,whence=%d)", fd, off, whence)
	want := uint32(0)
	var alts []uint32
	var newOff int64
	switch {
	case f == nil:
		want = w.EBADF
	case f.ino.dir:
		want = w.EISDIR
		alts = []uint32{w.EINVAL, w.EBADF}
	case whence > 2:
		want = w.EINVAL
	default:
		switch whence {
		case 0:
			newOff = off
		case 1:
			newOff = f.off + off
		case 2:
			newOff = int64(len(f.ino.data)) + off
		}
		if newOff < 0 {
			want = w.EINVAL
		}
	}
	s.e.g.PutU64(offRes, 0xDEADBEEFDEADBEEF)
	got, ok := s.call("fd_seek", uint64(uint32(fd)), uint64(off), uint64(whence), offRes)
	if !ok {
		return
	}
	if s.faultRelax(what, got, want) {
		if f != nil && !f.ino.dir {
			s.resyncOffset(fd, f)
		}
		return
	}
	if !s.check(what, got, want, alts...) || got != 0 {
		return
	}
	if v := int64(s.e.g.U64(offRes)); v != newOff {
		s.res.Fail("seek-offset", "%s: new offset %d, model expects %d", what, v, newOff)
		return
	}
	f.off = newOff
	f.lastPos = false
}

func (s *runState) opTell() {
	fd := s.pickFd(false)
	if fd < 3 {
		return
	}
	f := s.m.fds[fd]
	what := fmt.Sprintf("fd_tell(fd=%d)", fd)
	want := uint32(0)
	var alts []uint32
	switch {
	case f == nil:
		want = w.EBADF
	case f.ino.dir:
		want, alts = w.EISDIR, []uint32{w.EINVAL, w.EBADF}
	}
	s.e.g.PutU64(offRes, 0xDEADBEEFDEADBEEF)
	got, ok := s.call("fd_tell", uint64(uint32(fd)), offRes)
	if !ok {
		return
	}
	if s.faultRelax(what, got, want) {
		return
	}
	if !s.check(what, got, want, alts...) || got != 0 {
		return
	}
	exp := f.off
	if f.app && f.wr {
		// after an append write the offset is the end of file; before any
		// write it is wherever it was left
	}
	if v := int64(s.e.g.U64(offRes)); v != exp {
		s.res.Fail("tell-offset", "%s: offset %d, model expects %d", what, v, exp)
	}
}

func (s *runState) opRenumber() {
	t := s.t
	from := s.pickFd(false)
	var to int32
	huge := false
	switch t.Weighted(12, 12, 8, 4, 4, 1) {
	case 5:
		// a target far beyond anything open: the table may grow that far or the call may be refused, but
		// a refused renumber leaves the source descriptor as it was
		to = int32(1<<20) + int32(t.Choose(3))*int32(1<<19)
		huge = true
	case 0:
		to = s.pickFd(true) // onto open
	case 1:
		to = from // onto itself
	case 2:
		to = int32(4 + t.Choose(12)) // maybe free
		if t.Chance(1, 3) {
			// descriptor-table word boundaries (the table keeps a bitmask per 64 entries)
			to = tape.Pick(t, []int32{62, 63, 64, 65, 127, 128, 129})
		}
	case 3:
		to = int32(t.Choose(4)) // stdio / preopen
	case 4:
		to = -1 - int32(t.Choose(2))
	}
	what := fmt.Sprintf("fd_renumber(%d -> %d)", from, to)
	m := s.m
	ff := m.fds[from]
	want := uint32(0)
	var alts []uint32
	switch {
	case ff == nil:
		want = w.EBADF
	case to < 0:
		want = w.EBADF
	case ff.preopen:
		want, alts = w.ENOTSUP, []uint32{w.EBADF}
	case m.fds[to] != nil && m.fds[to].preopen:
		want, alts = w.ENOTSUP, []uint32{w.EBADF}
	}
	got, ok := s.call("fd_renumber", uint64(uint32(from)), uint64(uint32(to)))
	if !ok {
		return
	}
	if huge && want == 0 && got != 0 && !s.faulty {
		// refused (a limit on descriptor numbers is fine): all or nothing
		if e, ok := s.call("fd_fdstat_get", uint64(uint32(from)), offStat); ok && e != 0 {
			s.res.Fail("fd-lost", "%s was refused with %s, and descriptor %d is gone afterwards (fd_fdstat_get: %s): a refused renumber must leave its source alone", what, w.ErrnoName(got), from, w.ErrnoName(e))
		}
		s.shape = append(s.shape, "fd_renumber:huge-refused")
		return
	}
	if s.faultRelax(what, got, want) {
		if got == 0 && want == 0 && from != to {
			delete(m.fds, from)
			m.fds[to] = ff
		}
		return
	}
	if !s.check(what, got, want, alts...) || got != 0 {
		return
	}
	if from != to {
		delete(m.fds, from)
		m.fds[to] = ff
		s.noteFreed(from)
	}
	s.effects++
	s.reuse++
}

func (s *runState) readStat(off uint32) (ftype uint8, size uint64, mtim uint64) {
	b := s.e.g.Read(off, 64)
	return b[16], binary.LittleEndian.Uint64(b[32:]), binary.LittleEndian.Uint64(b[48:])
}

func (s *runState) checkStat(what string, ino *inode) {
	ft, size, mtim := s.readStat(offStat)
	wantFt := uint8(ftReg)
	if ino.dir {
		wantFt = ftDir
	}
	if ft != wantFt {
		s.res.Fail("stat-type", "%s: filetype %d, model expects %d", what, ft, wantFt)
		return
	}
	if !ino.dir && size != uint64(len(ino.data)) {
		s.res.Fail("stat-size", "%s: size %d, model expects %d", what, size, len(ino.data))
		return
	}
	if ino.mtime != 0 && mtim != uint64(ino.mtime) {
		s.res.Fail("stat-mtime", "%s: mtim %d, model expects the explicitly set %d", what, mtim, ino.mtime)
	}
}

func (s *runState) opFilestatGet() {
	t := s.t
	if t.Chance(1, 2) {
		// path_filestat_get
		p := s.pickPath()
		dirfd := int32(3)
		if t.Chance(1, 3) || (s.nsFocus && t.Chance(1, 2)) {
			dirfd = s.pickFd(true)
		}
		what := fmt.Sprintf("path_filestat_get(dirfd=%d,%q)", dirfd, p)
		r := s.resolve(dirfd, p)
		if r.skip {
			return
		}
		want := r.errno
		alts := r.alts
		if want == 0 && r.lk.target == nil {
			want = w.ENOENT
		}
		if want == 0 && r.trail && !r.lk.target.dir {
			want = w.ENOTDIR
		}
		po, pl := s.putPath(offPath1, p)
		got, ok := s.call("path_filestat_get", uint64(uint32(dirfd)), 1, uint64(po), uint64(pl), offStat)
		if !ok || s.faultRelax(what, got, want) {
			return
		}
		if s.check(what, got, want, alts...) && got == 0 {
			s.checkStat(what, r.lk.target)
		}
		return
	}
	fd := s.pickFd(false)
	if fd < 3 {
		return
	}
	f := s.m.fds[fd]
	what := fmt.Sprintf("fd_filestat_get(fd=%d)", fd)
	want := uint32(0)
	if f == nil {
		want = w.EBADF
	}
	got, ok := s.call("fd_filestat_get", uint64(uint32(fd)), offStat)
	if !ok || s.faultRelax(what, got, want) {
		return
	}
	if s.check(what, got, want) && got == 0 {
		s.checkStat(what, f.ino)
	}
}

func (s *runState) opSetSize() {
	t := s.t
	fd := s.pickFd(false)
	if fd < 3 {
		return
	}
	f := s.m.fds[fd]
	size := int64(tape.Pick(t, []int{0, 1, 10, 100, 5000, 12000}))
	if t.Chance(1, 15) {
		size = -1
	}
	what := fmt.Sprintf("fd_filestat_set_size(fd=%d,size=%d)", fd, size)
	want := uint32(0)
	var alts []uint32
	switch {
	case f == nil:
		want = w.EBADF
	case f.ino.dir:
		want, alts = w.EISDIR, []uint32{w.EINVAL, w.EBADF}
	case size < 0:
		want = w.EINVAL
	case !f.wr:
		want, alts = w.EINVAL, []uint32{w.EBADF}
	}
	got, ok := s.call("fd_filestat_set_size", uint64(uint32(fd)), uint64(size))
	if !ok {
		return
	}
	if s.faultRelax(what, got, want) {
		if want == 0 {
			s.resyncContent(fd, f, nil, 0, true, got)
		}
		return
	}
	if !s.check(what, got, want, alts...) || got != 0 {
		return
	}
	f.ino.mtime = 0
	if int64(len(f.ino.data)) > size {
		f.ino.data = f.ino.data[:size]
	} else {
		nd := make([]byte, size)
		copy(nd, f.ino.data)
		f.ino.data = nd
	}
	s.effects++
}

func (s *runState) opSetTimes() {
	t := s.t
	fd := s.pickFd(false)
	if fd < 3 {
		return
	}
	f := s.m.fds[fd]
	s.wcount++
	mtim := int64(1_600_000_000_000_000_000) + int64(s.wcount)*1_000_000_007
	atim := mtim - 5_000_000_000
	flags := uint32(1 | 4) // ATIM | MTIM
	if t.Chance(1, 10) {
		flags = 1 | 2 // ATIM and ATIM_NOW: invalid
	}
	what := fmt.Sprintf("fd_filestat_set_times(fd=%d,mtim=%d,flags=%d)", fd, mtim, flags)
	want := uint32(0)
	switch {
	case f == nil:
		want = w.EBADF
	case flags == 3:
		want = w.EINVAL
	}
	got, ok := s.call("fd_filestat_set_times", uint64(uint32(fd)), uint64(atim), uint64(mtim), uint64(flags))
	if !ok {
		return
	}
	if s.faultRelax(what, got, want) {
		if f != nil {
			f.ino.mtime = 0
		}
		return
	}
	if s.check(what, got, want) && got == 0 {
		f.ino.mtime = mtim
		s.effects++
	}
}

func (s *runState) opFdstat() {
	t := s.t
	fd := s.pickFd(false)
	if fd < 3 {
		return
	}
	f := s.m.fds[fd]
	if t.Chance(1, 2) && !s.faulty {
		// set flags
		drifted := f != nil && f.drift
		if drifted && f.ino.dir {
			return
		}
		var flags uint32
		switch t.Weighted(4, 4, 1) {
		case 0:
			flags = fdAppend
		case 1:
			flags = 0
		case 2:
			flags = fdDsync
		}
		what := fmt.Sprintf("fd_fdstat_set_flags(fd=%d,flags=%#x)", fd, flags)
		want := uint32(0)
		switch {
		case flags&(fdDsync|fdRsync|fdSync) != 0:
			want = w.EINVAL
		case f == nil:
			want = w.EBADF
		}
		got, ok := s.call("fd_fdstat_set_flags", uint64(uint32(fd)), uint64(flags))
		if !ok {
			return
		}
		if drifted && want == 0 && got != 0 {
			// wazero changes descriptor flags by re-opening the path, which is gone: the call may fail (a
			// documented limitation), and a call that fails changes nothing: fd_fdstat_get keeps reporting
			// the flags the descriptor really has
			s.shape = append(s.shape, "fd_fdstat_set_flags:refused-on-unlinked")
			s.res.Stat("probe.set_flags_refused_on_a_descriptor_whose_path_is_gone", 1)
			return
		}
		if want == 0 && f.ino.dir && (got == w.EISDIR || got == w.EINVAL) {
			// descriptor flags of a directory: refusing is acceptable, nothing changes
			s.shape = append(s.shape, "fd_fdstat_set_flags:dir")
			return
		}
		if s.check(what, got, want) && got == 0 && !f.ino.dir {
			f.app = flags&fdAppend != 0
			s.effects++
		}
		return
	}
	what := fmt.Sprintf("fd_fdstat_get(fd=%d)", fd)
	want := uint32(0)
	if f == nil {
		want = w.EBADF
	}
	got, ok := s.call("fd_fdstat_get", uint64(uint32(fd)), offStat)
	if !ok || s.faultRelax(what, got, want) {
		return
	}
	if !s.check(what, got, want) || got != 0 {
		return
	}
	b := s.e.g.Read(offStat, 24)
	ft := b[0]
	fl := binary.LittleEndian.Uint16(b[2:])
	wantFt := uint8(ftReg)
	if f.ino.dir {
		wantFt = ftDir
	}
	if ft != wantFt {
		s.res.Fail("fdstat-type", "%s: filetype %d, model expects %d", what, ft, wantFt)
		return
	}
	if (fl&fdAppend != 0) != f.app {
		s.res.Fail("fdstat-flags", "%s: append flag %v, model expects %v", what, fl&fdAppend != 0, f.app)
	}
}

func (s *runState) opSync() {
	fd := s.pickFd(false)
	if fd < 3 {
		return
	}
	f := s.m.fds[fd]
	name := "fd_sync"
	if s.t.Chance(1, 2) {
		name = "fd_datasync"
	}
	what := fmt.Sprintf("%s(fd=%d)", name, fd)
	want := uint32(0)
	if f == nil {
		want = w.EBADF
	}
	got, ok := s.call(name, uint64(uint32(fd)))
	if !ok || s.faultRelax(what, got, want) {
		return
	}
	s.check(what, got, want)
}

func (s *runState) opMkdir() {
	p := s.pickPath()
	dirfd := int32(3)
	if s.t.Chance(1, 6) || (s.nsFocus && s.t.Chance(1, 2)) {
		dirfd = s.pickFd(true)
	}
	what := fmt.Sprintf("path_create_directory(dirfd=%d,%q)", dirfd, p)
	r := s.resolve(dirfd, p)
	if r.skip || (r.trail && r.errno == 0) {
		return
	}
	want, alts := r.errno, r.alts
	if want == 0 && r.lk.target != nil {
		want = w.EEXIST
	}
	po, pl := s.putPath(offPath1, p)
	got, ok := s.call("path_create_directory", uint64(uint32(dirfd)), uint64(po), uint64(pl))
	if !ok {
		return
	}
	if s.faultRelax(what, got, want) {
		if want == 0 && got == 0 {
			r.lk.parent.kids[r.lk.name] = s.m.newDir()
			s.m.markDirChanged(r.lk.parent, r.lk.name)
		}
		return
	}
	if s.check(what, got, want, alts...) && got == 0 {
		r.lk.parent.kids[r.lk.name] = s.m.newDir()
		s.m.markDirChanged(r.lk.parent, r.lk.name)
		s.effects++
	}
}

func (s *runState) opRmdir() {
	p := s.pickPath()
	what := fmt.Sprintf("path_remove_directory(%q)", p)
	r := s.resolve(3, p)
	if r.skip || (r.trail && r.errno == 0) {
		return
	}
	if r.errno == 0 && r.lk.parent == nil {
		return // removing the mount root itself: outside the model
	}
	want, alts := r.errno, r.alts
	switch {
	case want != 0:
	case r.lk.target == nil:
		want = w.ENOENT
	case r.lk.parent == nil:
		want, alts = w.EINVAL, []uint32{w.EBUSY, w.ENOTEMPTY, w.EACCES, w.EPERM}
	case !r.lk.target.dir:
		want = w.ENOTDIR
	case len(r.lk.target.kids) > 0:
		want = w.ENOTEMPTY
	}
	po, pl := s.putPath(offPath1, p)
	got, ok := s.call("path_remove_directory", 3, uint64(po), uint64(pl))
	if !ok {
		return
	}
	apply := func() {
		s.m.markDrift(r.lk.target)
		delete(r.lk.parent.kids, r.lk.name)
		s.m.markDirChanged(r.lk.parent, r.lk.name)
		for _, f := range s.m.fds {
			if f.ino == r.lk.target {
				f.drift = true
			}
		}
	}
	if s.faultRelax(what, got, want) {
		if want == 0 && got == 0 {
			apply()
		}
		return
	}
	if s.check(what, got, want, alts...) && got == 0 {
		apply()
		s.effects++
	}
}

func (s *runState) opUnlink() {
	p := s.pickPath()
	what := fmt.Sprintf("path_unlink_file(%q)", p)
	r := s.resolve(3, p)
	if r.skip {
		return
	}
	want, alts := r.errno, r.alts
	switch {
	case want != 0:
	case r.lk.target == nil:
		want = w.ENOENT
	case r.lk.target.dir:
		want, alts = w.EISDIR, []uint32{w.EPERM}
	case r.trail:
		want = w.ENOTDIR
	}
	po, pl := s.putPath(offPath1, p)
	got, ok := s.call("path_unlink_file", 3, uint64(po), uint64(pl))
	if !ok {
		return
	}
	apply := func() {
		s.m.markDrift(r.lk.target)
		r.lk.target.nlink = 0
		delete(r.lk.parent.kids, r.lk.name)
		s.m.markDirChanged(r.lk.parent, r.lk.name)
	}
	if s.faultRelax(what, got, want) {
		if want == 0 && got == 0 {
			apply()
		}
		return
	}
	if s.check(what, got, want, alts...) && got == 0 {
		apply()
		s.effects++
	}
}

func (s *runState) opRename() {
	p1, p2 := s.pickPath(), s.pickPath()
	what := fmt.Sprintf("path_rename(%q -> %q)", p1, p2)
	r1 := s.resolve(3, p1)
	r2 := s.resolve(3, p2)
	if r1.skip || r2.skip || r1.trail || r2.trail {
		return
	}
	if (r1.errno == 0 && r1.lk.parent == nil) || (r2.errno == 0 && r2.lk.parent == nil) {
		return // renaming the mount root itself: outside the model
	}
	want := uint32(0)
	var alts []uint32
	src, dst := r1.lk.target, r2.lk.target
	switch {
	case r1.errno != 0:
		want, alts = r1.errno, append(r1.alts, r2.errno)
	case src == nil:
		want = w.ENOENT
		if r2.errno != 0 {
			alts = append(alts, r2.errno)
			alts = append(alts, r2.alts...)
		}
	case r2.errno != 0:
		want, alts = r2.errno, r2.alts
	case r1.lk.parent == nil || r2.lk.parent == nil: // "." involved
		want, alts = w.EINVAL, []uint32{w.EBUSY, w.ENOTEMPTY, w.EEXIST, w.EISDIR, w.ENOTDIR, w.EACCES, w.EPERM}
	case src == dst:
		// same file: no-op success
	case src.dir && (dst == src || isBelowOrSelf(src, r2.lk.parent)):
		want = w.EINVAL
	case dst != nil && src.dir && !dst.dir:
		want = w.ENOTDIR
	case dst != nil && !src.dir && dst.dir:
		want, alts = w.EISDIR, []uint32{w.EEXIST, w.ENOTEMPTY}
	case dst != nil && dst.dir && len(dst.kids) > 0:
		want, alts = w.ENOTEMPTY, []uint32{w.EEXIST}
	}
	po1, pl1 := s.putPath(offPath1, p1)
	po2, pl2 := s.putPath(offPath2, p2)
	got, ok := s.call("path_rename", 3, uint64(po1), uint64(pl1), 3, uint64(po2), uint64(pl2))
	if !ok {
		return
	}
	apply := func() {
		if src == dst {
			return
		}
		s.m.markDrift(src)
		// rare condition: a directory descriptor that is NOT affected by this rename was opened under a
		// name the renamed path is a string prefix of ("ab" while "a" is renamed)
		for _, f := range s.m.fds {
			if f.ino != nil && f.ino.dir && !f.preopen && !f.drift && f.ino != src && strings.HasPrefix(strings.TrimPrefix(f.opath, "/"), strings.TrimPrefix(r1.lk.full, "/")) {
				if s.prefixFds == nil {
					s.prefixFds = map[*fdesc]bool{}
				}
				s.prefixFds[f] = true
				s.res.Stat("probe.rename_of_a_name_that_is_a_string_prefix_of_an_open_directorys_name", 1)
			}
		}
		if dst != nil {
			s.m.markDrift(dst)
			dst.nlink = 0
			for _, f := range s.m.fds {
				if f.ino == dst {
					f.drift = true
				}
			}
		}
		delete(r1.lk.parent.kids, r1.lk.name)
		r2.lk.parent.kids[r2.lk.name] = src
		s.m.markDirChanged(r1.lk.parent, r1.lk.name)
		s.m.markDirChanged(r2.lk.parent, r2.lk.name)
	}
	if s.faultRelax(what, got, want) {
		if want == 0 && got == 0 {
			apply()
		}
		return
	}
	if c1, _, ok1 := cleanPath(p1); want != 0 && got == 0 && ok1 && c1 == pathClean(p2) {
		// renaming a name onto itself (missing, or the mount root): nothing to do, nothing changes
		s.shape = append(s.shape, "path_rename:self-missing")
		return
	}
	if s.check(what, got, want, alts...) && got == 0 {
		apply()
		s.effects++
	}
}

func pathClean(p string) string { c, _, _ := cleanPath(p); return c }

func isBelowOrSelf(dir, x *inode) bool { return dir == x || isBelow(dir, x) }

// compareTree compares the host directory with the model tree.
func (s *runState) compareTree() {
	var cmp func(host string, d *inode, rel string)
	cmp = func(host string, d *inode, rel string) {
		ents, err := os.ReadDir(host)
		if err != nil {
			s.res.Fail("tree-mismatch", "host directory %q unreadable: %v", rel, err)
			return
		}
		seen := map[string]bool{}
		for _, e := range ents {
			seen[e.Name()] = true
			k := d.kids[e.Name()]
			if k == nil {
				s.res.Fail("tree-mismatch", "host has %q which the model does not", filepath.Join(rel, e.Name()))
				return
			}
			if k.dir != e.IsDir() {
				s.res.Fail("tree-mismatch", "%q: host isDir=%v model isDir=%v", filepath.Join(rel, e.Name()), e.IsDir(), k.dir)
				return
			}
			if k.dir {
				cmp(filepath.Join(host, e.Name()), k, filepath.Join(rel, e.Name()))
			} else {
				b, _ := os.ReadFile(filepath.Join(host, e.Name()))
				if !bytes.Equal(b, k.data) {
					s.res.Fail("tree-mismatch", "%q: host content (%d bytes) differs from model content (%d bytes), first diff at %d", filepath.Join(rel, e.Name()), len(b), len(k.data), firstDiff(b, k.data))
					return
				}
			}
			if s.res.Violation != nil {
				return
			}
		}
		for name := range d.kids {
			if !seen[name] {
				s.res.Fail("tree-mismatch", "model has %q which the host lacks", filepath.Join(rel, name))
				return
			}
		}
	}
	cmp(s.e.root, s.m.root, "")
}

var _ = experimentalsys.EIO
