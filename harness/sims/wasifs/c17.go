package wasifs

import (
	"bytes"
	"context"
	"crypto/sha256"
	"fmt"
	"io/fs"
	"os"
	"path/filepath"
	"sort"
	"strings"
	"syscall"
	"testing/fstest"
	"time"

	"github.com/tetratelabs/wazero"

	"verifharness/sim"
	"verifharness/tape"
	w "verifharness/wasiguest"
)

type c17 struct{}

func init() { sim.Register(c17{}) }

func (c17) Property() string { return "C17" }

func (c17) Classes() []sim.Class {
	var cs []sim.Class
	for _, e := range []string{"interpreter", "compiler"} {
		cs = append(cs,
			sim.Class{Name: "readonly-dir", Engine: e, Quick: 2500, Thorough: 80000},
			sim.Class{Name: "gofs-dirfs", Engine: e, Quick: 1200, Thorough: 40000},
			sim.Class{Name: "gofs-mapfs", Engine: e, Quick: 600, Thorough: 20000},
		)
	}
	// the read-only mount as the command-line tool offers it (cmd/wazero built from the tree under check)
	cs = append(cs, sim.Class{Name: "cli-mount", Engine: "compiler", Quick: 24, Thorough: 600, NeedsCLI: true, RunTimeoutSec: 120})
	for _, e := range []string{"interpreter", "compiler"} {
		cs = append(cs, sim.Class{Name: "multi-mount", Engine: e, Quick: 300, Thorough: 12000, RunTimeoutSec: 120})
	}
	return cs
}

func (c17) Describe() sim.Description {
	return sim.Description{
		Level: "exploration",
		Rule: "class multi-mount: several mounts derived in tape-chosen ways (writeable scratch mounts, the protected directory first writeable, mounts replaced or given a nil file system, finally the protected directory read-only), attempts through every pre-open descriptor; class cli-mount: the built command-line tool with every read-only spelling of -mount; otherwise: tape-generated histories of 5-30 WASI calls (every mutating call, path_open over the full cross product of oflags x fdflags x read/write rights, plus reads) against a pre-populated tree mounted read-only " +
			"(WithReadOnlyDirMount, WithFSMount(os.DirFS), WithFSMount(fstest.MapFS)); after EVERY call a recursive snapshot of the host directory (names, types, modes, sizes, SHA-256 of content, mtime, ctime, nlink) must equal the initial one, " +
			"and canonical read-only opens, reads, readdir and stat must keep returning the model's content. Non-trivial: at least 3 mutating attempts and one successful read; distinct = distinct sequences of (call, errno)",
		RealCode: []string{"fsconfig.go mounts", "internal/sysfs ReadFS/AdaptFS/DirFS/osFile", "imports/wasi_snapshot_preview1 fs functions incl. openFlags translation", "both engines (guest = WASI shim module)", "real host directory"},
		Stubs:    []string{"none"},
		Assumptions: []string{
			"atime is excluded from the snapshot (reads may update it)",
			"the errno of a refused mutation is not judged (any non-zero value); success of a mutating call is judged only through the snapshot",
		},
		FaultKinds: []string{"none (the adversary is the guest's flag/argument choice)"},
	}
}

type snapEntry struct {
	rel   string
	mode  fs.FileMode
	size  int64
	sum   [32]byte
	mtime int64
	ctime int64
	nlink uint64
}

func snapshotDir(root string) ([]snapEntry, error) {
	var out []snapEntry
	err := filepath.Walk(root, func(p string, info os.FileInfo, err error) error {
		if err != nil {
			return err
		}
		rel, _ := filepath.Rel(root, p)
		e := snapEntry{rel: rel, mode: info.Mode(), mtime: info.ModTime().UnixNano()}
		if st, ok := info.Sys().(*syscall.Stat_t); ok {
			e.ctime = st.Ctim.Sec*1e9 + st.Ctim.Nsec
			e.nlink = uint64(st.Nlink)
		}
		if info.Mode().IsRegular() {
			b, err := os.ReadFile(p)
			if err != nil {
				return err
			}
			e.size = int64(len(b))
			e.sum = sha256.Sum256(b)
		} else if info.Mode()&fs.ModeSymlink != 0 {
			l, _ := os.Readlink(p)
			e.sum = sha256.Sum256([]byte(l))
		}
		out = append(out, e)
		return nil
	})
	sort.Slice(out, func(i, j int) bool { return out[i].rel < out[j].rel })
	return out, err
}

func diffSnap(a, b []snapEntry) string {
	am := map[string]snapEntry{}
	for _, e := range a {
		am[e.rel] = e
	}
	bm := map[string]snapEntry{}
	for _, e := range b {
		bm[e.rel] = e
	}
	for _, e := range a {
		n, ok := bm[e.rel]
		if !ok {
			return fmt.Sprintf("%q disappeared", e.rel)
		}
		switch {
		case n.mode != e.mode:
			return fmt.Sprintf("%q mode %v -> %v", e.rel, e.mode, n.mode)
		case n.size != e.size:
			return fmt.Sprintf("%q size %d -> %d", e.rel, e.size, n.size)
		case n.sum != e.sum:
			return fmt.Sprintf("%q content changed", e.rel)
		case n.mtime != e.mtime:
			return fmt.Sprintf("%q mtime %d -> %d", e.rel, e.mtime, n.mtime)
		case n.nlink != e.nlink:
			return fmt.Sprintf("%q link count %d -> %d", e.rel, e.nlink, n.nlink)
		case n.ctime != e.ctime:
			return fmt.Sprintf("%q ctime changed (metadata modified)", e.rel)
		}
	}
	for _, e := range b {
		if _, ok := am[e.rel]; !ok {
			return fmt.Sprintf("%q appeared", e.rel)
		}
	}
	return ""
}

type roState struct {
	*runState
	class    string
	snap0    []snapEntry
	mapfs    fstest.MapFS
	mapSnap  map[string]string
	attempts int
	readsOK  int
	combos   map[string]bool
	// fds opened successfully: fd -> (inode, canonical read-only open)
	open  map[int32]*roFd
	links []string
}

type roFd struct {
	ino   *inode
	canon bool
	off   int64
	known bool // offset known
}

func (c17) Run(t *tape.Tape, cfg sim.Config) (res sim.Result) {
	if cfg.Class == "multi-mount" {
		return runMultiMount(t, cfg)
	}
	if cfg.Class == "cli-mount" {
		return runCLIMount(t, cfg)
	}
	base := &runState{t: t, m: newModel(), res: &res, ro: true}
	s := &roState{runState: base, class: cfg.Class, combos: map[string]bool{}, open: map[int32]*roFd{}}
	e := &env{ctx: context.Background()}
	s.e = e
	defer e.close()
	var err error
	e.root, err = os.MkdirTemp(scratchBase(), "c17-")
	if err != nil {
		panic(err)
	}
	// guaranteed content plus a random tree
	m := s.m
	mk := func(dir *inode, host, name string, data []byte) {
		f := m.newFile()
		f.data = data
		dir.kids[name] = f
		os.WriteFile(filepath.Join(host, name), data, 0o644)
	}
	mk(m.root, e.root, "a", base.payload(100))
	d1 := m.newDir()
	m.root.kids["d1"] = d1
	os.Mkdir(filepath.Join(e.root, "d1"), 0o755)
	mk(d1, filepath.Join(e.root, "d1"), "b", base.payload(3000))
	buildTree(t, m, m.root, e.root, 0, base)
	// symbolic links inside the mount (host only; the model has no inode for them, so no liveness
	// expectation attaches to them): dangling, to a file, to a directory
	if cfg.Class != "gofs-mapfs" {
		os.Symlink("no-such-target", filepath.Join(e.root, "ln-dangling"))
		os.Symlink("a", filepath.Join(e.root, "ln-file"))
		os.Symlink("d1", filepath.Join(e.root, "ln-dir"))
		s.links = []string{"ln-dangling", "ln-file", "ln-dir", "ln-dir/new", "ln-dir/b", "d1/../ln-dangling"}
	}
	// give everything an old, fixed mtime so that "now" stamps are visible
	old := time.Unix(1_500_000_000, 0)
	filepath.Walk(e.root, func(p string, _ os.FileInfo, _ error) error { os.Chtimes(p, old, old); return nil })
	fsc := wazero.NewFSConfig()
	switch cfg.Class {
	case "readonly-dir":
		if t.Chance(1, 3) {
			// the directory was first mounted writeable at the root, then the mount is REPLACED by a read-only
			// one: every spelling of the root names the same guest path (documented normalisation)
			roots := []string{"/", "", ".", "./"}
			fsc = fsc.WithDirMount(e.root, tape.Pick(t, roots)).WithReadOnlyDirMount(e.root, tape.Pick(t, roots))
			res.Stat("probe.read_only_mount_replaces_a_writeable_one", 1)
		} else {
			fsc = fsc.WithReadOnlyDirMount(e.root, "/")
		}
	case "gofs-dirfs":
		fsc = fsc.WithFSMount(os.DirFS(e.root), "/")
	case "gofs-mapfs":
		s.mapfs = fstest.MapFS{}
		var add func(d *inode, p string)
		add = func(d *inode, p string) {
			for name, k := range d.kids {
				full := name
				if p != "" {
					full = p + "/" + name
				}
				if k.dir {
					s.mapfs[full] = &fstest.MapFile{Mode: fs.ModeDir | 0o755, ModTime: old}
					add(k, full)
				} else {
					s.mapfs[full] = &fstest.MapFile{Data: append([]byte(nil), k.data...), Mode: 0o644, ModTime: old}
				}
			}
		}
		add(m.root, "")
		s.mapSnap = s.snapMap()
		fsc = fsc.WithFSMount(s.mapfs, "/")
	}
	if t.Chance(1, 3) {
		// the embedder derives a second configuration from the read-only one, mounting the same directory
		// writeable at the same guest path (for another guest); the read-only one is the one used here
		_ = fsc.WithDirMount(e.root, "/")
		res.Stat("probe.writeable_sibling_config_derived", 1)
	}
	s.snap0, err = snapshotDir(e.root)
	if err != nil {
		panic(err)
	}
	e.g, err = RuntimeFor(cfg.Engine).NewGuest(wazero.NewModuleConfig().WithFSConfig(fsc))
	if err != nil {
		panic(fmt.Sprintf("harness: instantiate shim: %v", err))
	}
	// a sidecar: ANOTHER guest instance in the same process with a writeable mount of a scratch directory
	// next to the read-only tree.  Host descriptor numbers are process-wide: its calls (read a directory,
	// then set that directory's times) are interleaved with the read-only guest's opens; nothing it does
	// may land on the read-only tree.
	var sidecar *w.Guest
	if t.Chance(1, 3) {
		scratch, err := os.MkdirTemp(scratchBase(), "c17w-")
		if err != nil {
			panic(err)
		}
		defer os.RemoveAll(scratch)
		os.Mkdir(filepath.Join(scratch, "sub"), 0o755)
		os.WriteFile(filepath.Join(scratch, "sub", "x"), []byte("x"), 0o644)
		sidecar, err = RuntimeFor(cfg.Engine).NewGuest(wazero.NewModuleConfig().WithFSConfig(wazero.NewFSConfig().WithDirMount(scratch, "/")))
		if err != nil {
			panic(err)
		}
		defer sidecar.Mod.Close(context.Background())
		res.Stat("probe.sidecar_instance_with_writeable_mount", 1)
	}
	sidecarDir := uint32(0)
	nops := t.Range(5, 30)
	for i := 0; i < nops && res.Violation == nil; i++ {
		if sidecar != nil && t.Chance(1, 3) {
			ctx := context.Background()
			if sidecarDir == 0 {
				sidecar.Write(0x200, []byte("sub"))
				if e, err := sidecar.Call(ctx, "path_open", 3, 0, 0x200, 3, 2 /*O_DIRECTORY*/, 0x3fffffff, 0x3fffffff, 0, 0x300); err == nil && e == 0 {
					sidecarDir = sidecar.U32(0x300)
				}
			}
			fd := uint64(3)
			if sidecarDir != 0 && t.Chance(1, 2) {
				fd = uint64(sidecarDir)
			}
			if t.Chance(1, 2) {
				sidecar.Call(ctx, "fd_readdir", fd, 0x1000, 512, 0, 0x300)
				s.shape = append(s.shape, "sidecar:readdir")
			} else {
				sidecar.Call(ctx, "fd_filestat_set_times", fd, uint64(6000000000+i), uint64(6000000000+i), 5)
				s.shape = append(s.shape, "sidecar:set_times")
			}
		}
		what := s.step()
		res.Steps++
		if res.Violation != nil {
			break
		}
		// invariant after every step
		now, err := snapshotDir(e.root)
		if err != nil {
			res.Fail("readonly-modified", "after %s the host directory cannot be walked: %v", what, err)
			break
		}
		if d := diffSnap(s.snap0, now); d != "" {
			res.Fail("readonly-modified", "after %s the read-only mounted directory changed: %s", what, d)
			break
		}
		if s.mapfs != nil {
			if cur := s.snapMap(); !equalMap(cur, s.mapSnap) {
				res.Fail("readonly-modified", "after %s the fs.FS backing map changed", what)
				break
			}
		}
	}
	res.Shape = sim.ShapeOf(s.shape...)
	res.Nontrivial = s.attempts >= 3 && s.readsOK >= 1
	res.Stat("probe.mutating_attempts", int64(s.attempts))
	res.Stat("probe.successful_reads", int64(s.readsOK))
	res.Stat("probe.open_flag_combinations_tried", int64(len(s.combos)))
	res.Stat("calls", res.Steps)
	smp := res.Trace
	if len(smp) > 14 {
		smp = smp[:14]
	}
	res.Sample = smp
	return
}

func (s *roState) snapMap() map[string]string {
	o := map[string]string{}
	for k, v := range s.mapfs {
		o[k] = fmt.Sprintf("%v|%x|%d", v.Mode, sha256.Sum256(v.Data), v.ModTime.UnixNano())
	}
	return o
}

func equalMap(a, b map[string]string) bool {
	if len(a) != len(b) {
		return false
	}
	for k, v := range a {
		if b[k] != v {
			return false
		}
	}
	return true
}

func (s *roState) note(what string, got uint32) {
	s.shape = append(s.shape, fmt.Sprintf("%s:%d", strings.SplitN(what, "(", 2)[0], got))
	s.res.Logf("%s -> %s", what, w.ErrnoName(got))
}

func (s *roState) anyFd() int32 {
	var fds []int32
	for fd := range s.open {
		fds = append(fds, fd)
	}
	sort.Slice(fds, func(i, j int) bool { return fds[i] < fds[j] })
	if len(fds) > 0 && !s.t.Chance(1, 6) {
		return fds[s.t.Choose(len(fds))]
	}
	return int32(3 + s.t.Choose(5))
}

func (s *roState) existingPath() (string, *inode) {
	type pe struct {
		p string
		i *inode
	}
	var all []pe
	var rec func(d *inode, p string)
	rec = func(d *inode, p string) {
		for _, name := range sortedKids(d) {
			k := d.kids[name]
			full := name
			if p != "" {
				full = p + "/" + name
			}
			all = append(all, pe{full, k})
			if k.dir {
				rec(k, full)
			}
		}
	}
	rec(s.m.root, "")
	x := all[s.t.Choose(len(all))]
	return x.p, x.i
}

func (s *roState) step() string {
	t := s.t
	g := s.e.g
	k := t.Weighted(10, 4, 3, 2, 2, 2, 2, 2, 2, 2, 2, 2, 4, 3, 2, 2, 1, 1)
	switch k {
	case 0: // path_open, full flag space
		var p string
		var ino *inode
		if len(s.links) > 0 && t.Chance(1, 6) {
			p = tape.Pick(t, s.links)
		} else if t.Chance(3, 4) {
			p, ino = s.existingPath()
		} else {
			p = s.pickPath()
			if r := s.resolve(3, p); r.errno == 0 {
				ino = r.lk.target
			}
		}
		oflags := uint32(t.Choose(16))
		fdflags := uint32(t.Choose(32))
		if t.Chance(1, 2) {
			fdflags &= fdAppend | fdNonblock
		}
		var rights uint64
		switch t.Weighted(3, 2, 2, 1, 1) {
		case 0:
			rights = rightRead
		case 1:
			rights = rightRead | rightWrite
		case 2:
			rights = rightWrite
		case 3:
			rights = 0
		case 4:
			rights = uint64(t.Bits(29))
		}
		dirflags := uint32(t.Choose(2))
		what := fmt.Sprintf("path_open(%q,dirflags=%d,oflags=%#x,rights=%#x,fdflags=%#x)", p, dirflags, oflags, rights, fdflags)
		s.combos[fmt.Sprintf("%d/%d/%d", oflags, fdflags, rights&(rightRead|rightWrite))] = true
		if oflags&(oCreat|oTrunc) != 0 || rights&rightWrite != 0 || fdflags&fdAppend != 0 {
			s.attempts++
		}
		po, pl := s.putPath(offPath1, p)
		g.PutU32(offRes, 0xFFFFFFFF)
		got, ok := s.call("path_open", 3, uint64(dirflags), uint64(po), uint64(pl), uint64(oflags), rights, rights, uint64(fdflags), offRes)
		if !ok {
			return what
		}
		s.note(what, got)
		canon := ino != nil && oflags&^oDirectory == 0 && fdflags == 0 && rights&rightWrite == 0 && (oflags&oDirectory == 0 || ino.dir) && !strings.HasSuffix(p, "/") && validRel(p)
		if got != 0 && canon {
			s.res.Fail("readonly-read-broken", "%s: a plain read-only open of an existing path failed with %s", what, w.ErrnoName(got))
			return what
		}
		if got == 0 {
			fd := int32(g.U32(offRes))
			if ino == nil {
				// opened something the model says is absent: it must not exist on the host either
				return what
			}
			s.open[fd] = &roFd{ino: ino, canon: canon, known: true}
		}
		return what
	case 1: // fd_write / fd_pwrite
		fd := s.anyFd()
		data := s.payload(tape.Pick(t, []int{1, 10, 500}))
		g.Write(offData, data)
		g.PutU32(offIov, offData)
		g.PutU32(offIov+4, uint32(len(data)))
		s.attempts++
		var got uint32
		var ok bool
		var what string
		if t.Chance(1, 2) {
			what = fmt.Sprintf("fd_write(fd=%d,len=%d)", fd, len(data))
			got, ok = s.call("fd_write", uint64(uint32(fd)), offIov, 1, offRes)
		} else {
			what = fmt.Sprintf("fd_pwrite(fd=%d,len=%d,off=0)", fd, len(data))
			got, ok = s.call("fd_pwrite", uint64(uint32(fd)), offIov, 1, 0, offRes)
		}
		if ok {
			s.note(what, got)
			if f := s.open[fd]; f != nil {
				f.known = false
			}
		}
		return what
	case 2: // set_size
		fd := s.anyFd()
		size := uint64(tape.Pick(t, []int{0, 1, 50, 100000}))
		what := fmt.Sprintf("fd_filestat_set_size(fd=%d,%d)", fd, size)
		s.attempts++
		if got, ok := s.call("fd_filestat_set_size", uint64(uint32(fd)), size); ok {
			s.note(what, got)
		}
		return what
	case 3: // fd set_times
		fd := s.anyFd()
		flags := uint64(tape.Pick(t, []int{5, 10, 4, 8, 1, 2}))
		what := fmt.Sprintf("fd_filestat_set_times(fd=%d,flags=%d)", fd, flags)
		s.attempts++
		if got, ok := s.call("fd_filestat_set_times", uint64(uint32(fd)), 1_600_000_000_000_000_000, 1_600_000_001_000_000_000, flags); ok {
			s.note(what, got)
		}
		return what
	case 4: // path set_times
		p, _ := s.existingPath()
		if len(s.links) > 0 && t.Chance(1, 5) {
			p = tape.Pick(t, s.links)
		}
		flags := uint64(tape.Pick(t, []int{5, 10, 4, 8}))
		lookup := uint64(t.Choose(2))
		what := fmt.Sprintf("path_filestat_set_times(%q,lookup=%d,flags=%d)", p, lookup, flags)
		s.attempts++
		po, pl := s.putPath(offPath1, p)
		if got, ok := s.call("path_filestat_set_times", 3, lookup, uint64(po), uint64(pl), 1_600_000_000_000_000_000, 1_600_000_001_000_000_000, flags); ok {
			s.note(what, got)
		}
		return what
	case 5: // allocate
		fd := s.anyFd()
		what := fmt.Sprintf("fd_allocate(fd=%d)", fd)
		s.attempts++
		if got, ok := s.call("fd_allocate", uint64(uint32(fd)), 0, uint64(1+t.Choose(100000))); ok {
			s.note(what, got)
		}
		return what
	case 6: // mkdir
		p := s.pickPath()
		what := fmt.Sprintf("path_create_directory(%q)", p)
		s.attempts++
		po, pl := s.putPath(offPath1, p)
		if got, ok := s.call("path_create_directory", 3, uint64(po), uint64(pl)); ok {
			s.note(what, got)
		}
		return what
	case 7: // rmdir
		p, _ := s.existingPath()
		what := fmt.Sprintf("path_remove_directory(%q)", p)
		s.attempts++
		po, pl := s.putPath(offPath1, p)
		if got, ok := s.call("path_remove_directory", 3, uint64(po), uint64(pl)); ok {
			s.note(what, got)
		}
		return what
	case 8: // unlink
		p, _ := s.existingPath()
		if len(s.links) > 0 && t.Chance(1, 5) {
			p = tape.Pick(t, s.links)
		}
		what := fmt.Sprintf("path_unlink_file(%q)", p)
		s.attempts++
		po, pl := s.putPath(offPath1, p)
		if got, ok := s.call("path_unlink_file", 3, uint64(po), uint64(pl)); ok {
			s.note(what, got)
		}
		return what
	case 9: // rename
		p1, _ := s.existingPath()
		p2 := s.pickPath()
		if t.Chance(1, 3) {
			p2, _ = s.existingPath()
		}
		what := fmt.Sprintf("path_rename(%q -> %q)", p1, p2)
		s.attempts++
		po1, pl1 := s.putPath(offPath1, p1)
		po2, pl2 := s.putPath(offPath2, p2)
		if got, ok := s.call("path_rename", 3, uint64(po1), uint64(pl1), 3, uint64(po2), uint64(pl2)); ok {
			s.note(what, got)
		}
		return what
	case 10: // link
		p1, _ := s.existingPath()
		p2 := s.pickPath()
		what := fmt.Sprintf("path_link(%q -> %q)", p1, p2)
		s.attempts++
		po1, pl1 := s.putPath(offPath1, p1)
		po2, pl2 := s.putPath(offPath2, p2)
		if got, ok := s.call("path_link", 3, 0, uint64(po1), uint64(pl1), 3, uint64(po2), uint64(pl2)); ok {
			s.note(what, got)
		}
		return what
	case 11: // symlink
		p1, _ := s.existingPath()
		p2 := s.pickPath()
		what := fmt.Sprintf("path_symlink(%q at %q)", p1, p2)
		s.attempts++
		po1, pl1 := s.putPath(offPath1, p1)
		po2, pl2 := s.putPath(offPath2, p2)
		if got, ok := s.call("path_symlink", uint64(po1), uint64(pl1), 3, uint64(po2), uint64(pl2)); ok {
			s.note(what, got)
		}
		return what
	case 12: // fd_read / fd_pread
		fd := s.anyFd()
		f := s.open[fd]
		total := tape.Pick(t, []int{1, 64, 5000})
		g.Fill(offData, uint32(total), canary)
		g.PutU32(offIov, offData)
		g.PutU32(offIov+4, uint32(total))
		pos := t.Chance(1, 2)
		var poff int64
		if pos && f != nil && !f.ino.dir {
			poff = int64(t.Choose(len(f.ino.data) + 2))
			if s.class == "gofs-mapfs" && poff > int64(len(f.ino.data)) {
				// testing/fstest's ReadAt refuses offsets beyond the end (ErrInvalid) where POSIX
				// returns 0 bytes: a property of that fs.FS, not of wazero
				poff = int64(len(f.ino.data))
			}
		}
		var got uint32
		var ok bool
		var what string
		if pos {
			what = fmt.Sprintf("fd_pread(fd=%d,len=%d,off=%d)", fd, total, poff)
			got, ok = s.call("fd_pread", uint64(uint32(fd)), offIov, 1, uint64(poff), offRes)
		} else {
			what = fmt.Sprintf("fd_read(fd=%d,len=%d)", fd, total)
			got, ok = s.call("fd_read", uint64(uint32(fd)), offIov, 1, offRes)
		}
		if !ok {
			return what
		}
		s.note(what, got)
		if f == nil || f.ino.dir {
			return what
		}
		if got != 0 {
			if f.canon {
				s.res.Fail("readonly-read-broken", "%s on a descriptor from a plain read-only open failed with %s", what, w.ErrnoName(got))
			}
			return what
		}
		n := g.U32(offRes)
		off := poff
		if !pos {
			if !f.known {
				return what
			}
			off = f.off
		}
		var exp []byte
		if off < int64(len(f.ino.data)) {
			end := min(off+int64(total), int64(len(f.ino.data)))
			exp = f.ino.data[off:end]
		}
		data := g.Read(offData, n)
		if int(n) != len(exp) || !bytes.Equal(data, exp) {
			s.res.Fail("readonly-read-wrong", "%s returned %d bytes that differ from the file content at offset %d (expected %d bytes)", what, n, off, len(exp))
			return what
		}
		if !pos {
			f.off += int64(n)
		}
		s.readsOK++
		return what
	case 13: // path_filestat_get
		p, ino := s.existingPath()
		what := fmt.Sprintf("path_filestat_get(%q)", p)
		po, pl := s.putPath(offPath1, p)
		got, ok := s.call("path_filestat_get", 3, 1, uint64(po), uint64(pl), offStat)
		if !ok {
			return what
		}
		s.note(what, got)
		if got != 0 {
			s.res.Fail("readonly-read-broken", "%s failed with %s", what, w.ErrnoName(got))
			return what
		}
		ft, size, _ := s.readStat(offStat)
		wantFt := uint8(ftReg)
		if ino.dir {
			wantFt = ftDir
		}
		if ft != wantFt || (!ino.dir && size != uint64(len(ino.data))) {
			s.res.Fail("readonly-read-wrong", "%s: type %d size %d, expected type %d size %d", what, ft, size, wantFt, len(ino.data))
			return what
		}
		s.readsOK++
		return what
	case 14: // readdir, whole directory in one large buffer
		fd := s.anyFd()
		f := s.open[fd]
		what := fmt.Sprintf("fd_readdir(fd=%d,buf_len=4096,cookie=0)", fd)
		got, ok := s.call("fd_readdir", uint64(uint32(fd)), offData, 4096, 0, offRes)
		if !ok {
			return what
		}
		s.note(what, got)
		if f == nil || !f.ino.dir {
			return what
		}
		if got != 0 {
			if f.canon {
				s.res.Fail("readonly-read-broken", "%s on a read-only opened directory failed with %s", what, w.ErrnoName(got))
			}
			return what
		}
		names := parseDirents(g.Read(offData, g.U32(offRes)))
		want := append([]string{".", ".."}, sortedKids(f.ino)...)
		if f.ino == s.m.root && len(s.links) > 0 {
			want = append(want, "ln-dangling", "ln-file", "ln-dir")
		}
		sort.Strings(names)
		sort.Strings(want)
		if strings.Join(names, "\x00") != strings.Join(want, "\x00") {
			s.res.Fail("readonly-read-wrong", "%s listed %q, expected %q", what, names, want)
			return what
		}
		s.readsOK++
		return what
	case 15: // close
		fd := s.anyFd()
		if fd == 3 {
			return "skip"
		}
		what := fmt.Sprintf("fd_close(%d)", fd)
		if got, ok := s.call("fd_close", uint64(uint32(fd))); ok {
			s.note(what, got)
			if got == 0 {
				delete(s.open, fd)
			}
		}
		return what
	case 16: // set flags append
		fd := s.anyFd()
		what := fmt.Sprintf("fd_fdstat_set_flags(fd=%d,append)", fd)
		s.attempts++
		if got, ok := s.call("fd_fdstat_set_flags", uint64(uint32(fd)), fdAppend); ok {
			s.note(what, got)
			if f := s.open[fd]; f != nil {
				f.canon = false
				f.known = false
			}
		}
		return what
	default: // sync
		fd := s.anyFd()
		what := fmt.Sprintf("fd_sync(fd=%d)", fd)
		if got, ok := s.call("fd_sync", uint64(uint32(fd))); ok {
			s.note(what, got)
		}
		return what
	}
}

func validRel(p string) bool {
	_, _, ok := cleanPath(p)
	return ok
}

func parseDirents(b []byte) []string {
	var names []string
	for pos := 0; pos+24 <= len(b); {
		nl := int(uint32(b[pos+16]) | uint32(b[pos+17])<<8 | uint32(b[pos+18])<<16 | uint32(b[pos+19])<<24)
		if pos+24+nl > len(b) {
			break
		}
		names = append(names, string(b[pos+24:pos+24+nl]))
		pos += 24 + nl
	}
	return names
}
