package wasifs

import (
	"fmt"
	"os"
	"os/exec"
	"path/filepath"
	"time"

	"verifharness/sim"
	"verifharness/tape"
	"verifharness/wasmb"
)

// Class cli-mount (C17): the read-only mount as the command-line tool offers it: `wazero run
// -mount=<dir>[:<guest path>]:ro guest.wasm`, in every documented spelling.  The guest is a tape-generated
// WASI command that tries to change the directory behind the pre-open in a dozen ways and then exits; the
// host directory must be bit-identical afterwards (the same snapshot invariant as the library classes).

type cliOp struct {
	kind int
	name string
	fd   int32 // base descriptor; 0 = 3
	fd2  int32 // kind 7: the descriptor the new link is made under
}

// cliGuest: one exported function op<i> per operation (on the operation's base descriptor, results
// ignored); _start performs them all, then proc_exit(0).
func cliGuest(ops []cliOp) []byte {
	m := &wasmb.Module{}
	i32, i64 := wasmb.I32, wasmb.I64
	w := func(n ...wasmb.ValType) []wasmb.ValType { return n }
	mkdir := m.ImportFunc("wasi_snapshot_preview1", "path_create_directory", w(i32, i32, i32), w(i32))
	open := m.ImportFunc("wasi_snapshot_preview1", "path_open", w(i32, i32, i32, i32, i32, i64, i64, i32, i32), w(i32))
	unlink := m.ImportFunc("wasi_snapshot_preview1", "path_unlink_file", w(i32, i32, i32), w(i32))
	rmdir := m.ImportFunc("wasi_snapshot_preview1", "path_remove_directory", w(i32, i32, i32), w(i32))
	rename := m.ImportFunc("wasi_snapshot_preview1", "path_rename", w(i32, i32, i32, i32, i32, i32), w(i32))
	settimes := m.ImportFunc("wasi_snapshot_preview1", "path_filestat_set_times", w(i32, i32, i32, i32, i64, i64, i32), w(i32))
	write := m.ImportFunc("wasi_snapshot_preview1", "fd_write", w(i32, i32, i32, i32), w(i32))
	link := m.ImportFunc("wasi_snapshot_preview1", "path_link", w(i32, i32, i32, i32, i32, i32, i32), w(i32))
	exit := m.ImportFunc("wasi_snapshot_preview1", "proc_exit", w(i32), nil)
	m.Mem = &wasmb.Limits{Min: 1}
	m.Exports = append(m.Exports, wasmb.Export{Name: "memory", Kind: wasmb.KindMemory, Idx: 0})
	c := &wasmb.Code{}
	off := int32(0x400)
	var datas []wasmb.Data
	str := func(s string) (int32, int32) {
		o := off
		datas = append(datas, wasmb.Data{Offset: wasmb.ConstI32(o), Bytes: []byte(s)})
		off += int32(len(s)) + 8
		return o, int32(len(s))
	}
	// iovec at 0x100 -> "x" at 0x110
	datas = append(datas, wasmb.Data{Offset: wasmb.ConstI32(0x100), Bytes: []byte{0x10, 0x01, 0, 0, 1, 0, 0, 0}}, wasmb.Data{Offset: wasmb.ConstI32(0x110), Bytes: []byte("x")})
	var opFns []uint32
	for i, op := range ops {
		c := &wasmb.Code{}
		fd := op.fd
		if fd == 0 {
			fd = 3
		}
		p, l := str(op.name)
		switch op.kind {
		case 0:
			c.I32Const(fd).I32Const(p).I32Const(l).Call(mkdir).Drop()
		case 1: // create / truncate and write
			c.I32Const(fd).I32Const(0).I32Const(p).I32Const(l).I32Const(1 | 8).I64Const(0x3fffffff).I64Const(0x3fffffff).I32Const(0).I32Const(0x200).Call(open).Drop()
			c.I32Const(0x200).I32Load(0).I32Const(0x100).I32Const(1).I32Const(0x208).Call(write).Drop()
		case 2:
			c.I32Const(fd).I32Const(p).I32Const(l).Call(unlink).Drop()
		case 3:
			c.I32Const(fd).I32Const(p).I32Const(l).Call(rmdir).Drop()
		case 4:
			q, ql := str(op.name + ".moved")
			c.I32Const(fd).I32Const(p).I32Const(l).I32Const(fd).I32Const(q).I32Const(ql).Call(rename).Drop()
		case 5:
			c.I32Const(fd).I32Const(0).I32Const(p).I32Const(l).I64Const(7000000000).I64Const(7000000000).I32Const(5).Call(settimes).Drop()
		case 7: // hard link name (under fd) to "lnk" under fd2, then open the link for writing and write
			q, ql := str("lnk")
			c.I32Const(fd).I32Const(0).I32Const(p).I32Const(l).I32Const(op.fd2).I32Const(q).I32Const(ql).Call(link).Drop()
			c.I32Const(op.fd2).I32Const(0).I32Const(q).I32Const(ql).I32Const(0).I64Const(0x3fffffff).I64Const(0x3fffffff).I32Const(0).I32Const(0x200).Call(open).Drop()
			c.I32Const(0x200).I32Load(0).I32Const(0x100).I32Const(1).I32Const(0x208).Call(write).Drop()
		case 6: // open for writing without O_CREAT / O_TRUNC, then write
			c.I32Const(fd).I32Const(0).I32Const(p).I32Const(l).I32Const(0).I64Const(0x3fffffff).I64Const(0x3fffffff).I32Const(0).I32Const(0x200).Call(open).Drop()
			c.I32Const(0x200).I32Load(0).I32Const(0x100).I32Const(1).I32Const(0x208).Call(write).Drop()
		}
		opFns = append(opFns, m.AddFunc(nil, nil, nil, c.B, fmt.Sprintf("op%d", i)))
	}
	for _, f := range opFns {
		c.Call(f)
	}
	c.I32Const(0).Call(exit)
	m.AddFunc(nil, nil, nil, c.B, "_start")
	m.Datas = datas
	return m.Encode()
}

func runCLIMount(t *tape.Tape, cfg sim.Config) (res sim.Result) {
	cli := os.Getenv("VERIF_WAZERO_CLI")
	if cli == "" {
		panic("harness: VERIF_WAZERO_CLI not set (the driver builds cmd/wazero for this class)")
	}
	root, err := os.MkdirTemp(scratchBase(), "c17cli-")
	if err != nil {
		panic(err)
	}
	defer os.RemoveAll(root)
	dir := filepath.Join(root, "data")
	os.MkdirAll(filepath.Join(dir, "d1"), 0o755)
	os.WriteFile(filepath.Join(dir, "a"), []byte("content-a"), 0o644)
	os.WriteFile(filepath.Join(dir, "d1", "b"), []byte("content-b"), 0o644)
	old := time.Unix(1_500_000_000, 0)
	filepath.Walk(dir, func(p string, _ os.FileInfo, _ error) error { os.Chtimes(p, old, old); return nil })
	snap0, err := snapshotDir(dir)
	if err != nil {
		panic(err)
	}
	names := []string{"a", "d1", "d1/b", "new", "d1/new", "."}
	var ops []cliOp
	for n := t.Range(3, 10); n > 0; n-- {
		ops = append(ops, cliOp{kind: t.Choose(7), name: tape.Pick(t, names)})
	}
	guest := filepath.Join(root, "guest.wasm")
	os.WriteFile(guest, cliGuest(ops), 0o644)
	// every documented spelling of a read-only mount: -mount=<path>[:<wasm path>][:ro]
	spell := t.Choose(4)
	mount := []string{dir + ":/:ro", dir + ":ro", dir + ":/data:ro", dir + "::ro"}[spell]
	cmd := exec.Command(cli, "run", "-mount="+mount, guest)
	cmd.Dir = root
	out, runErr := cmd.CombinedOutput()
	res.Logf("wazero run -mount=<dir>%s guest.wasm with %d mutating attempts", mount[len(dir):], len(ops))
	res.Steps = int64(len(ops))
	res.Nontrivial = true
	res.Shape = sim.ShapeOf(fmt.Sprint(spell, ops))
	res.Sample = map[string]any{"mount": "<dir>" + mount[len(dir):], "ops": fmt.Sprint(ops)}
	if runErr != nil {
		if _, ok := runErr.(*exec.ExitError); !ok {
			panic(fmt.Sprintf("harness: cannot run the command-line tool: %v", runErr))
		}
		// a non-zero exit (e.g. a mount spelling the tool refuses) changes nothing either
	}
	now, err := snapshotDir(dir)
	if err != nil {
		res.Fail("readonly-modified", "after `wazero run -mount=<dir>%s` the host directory cannot be walked: %v", mount[len(dir):], err)
		return
	}
	if d := diffSnap(snap0, now); d != "" {
		res.Fail("readonly-modified", "after `wazero run -mount=<dir>%s guest.wasm` (guest ops %v) the directory mounted read-only changed: %s\n%s", mount[len(dir):], ops, d, out)
	}
	return
}
