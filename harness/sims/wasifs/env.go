package wasifs

import (
	"context"
	"fmt"
	"os"
	"sync"

	"github.com/tetratelabs/wazero"
	"github.com/tetratelabs/wazero/api"
	"github.com/tetratelabs/wazero/imports/wasi_snapshot_preview1"

	"verifharness/wasiguest"
)

// engineRT is one wazero runtime per engine per worker process, with the shim
// compiled once.  Each run instantiates the shim anew (fresh descriptor table,
// fresh mounts).
type engineRT struct {
	rt    wazero.Runtime
	shim  wazero.CompiledModule
	named wazero.CompiledModule // the same shim carrying the module name "named-shim" in its name section
}

var (
	rtMu  sync.Mutex
	rtMap = map[string]*engineRT{}
)

func RuntimeFor(engine string) *engineRT {
	rtMu.Lock()
	defer rtMu.Unlock()
	if e := rtMap[engine]; e != nil {
		return e
	}
	ctx := context.Background()
	var cfg wazero.RuntimeConfig
	if engine == "interpreter" {
		cfg = wazero.NewRuntimeConfigInterpreter()
	} else {
		cfg = wazero.NewRuntimeConfigCompiler()
	}
	rt := wazero.NewRuntimeWithConfig(ctx, cfg)
	if _, err := wasi_snapshot_preview1.Instantiate(ctx, rt); err != nil {
		panic(fmt.Sprintf("harness: instantiate wasi: %v", err))
	}
	cm, err := rt.CompileModule(ctx, wasiguest.Binary())
	if err != nil {
		panic(fmt.Sprintf("harness: compile shim: %v", err))
	}
	cn, err := rt.CompileModule(ctx, wasiguest.BinaryNamed("named-shim"))
	if err != nil {
		panic(fmt.Sprintf("harness: compile named shim: %v", err))
	}
	e := &engineRT{rt: rt, shim: cm, named: cn}
	rtMap[engine] = e
	return e
}

// NewGuest instantiates the shim with the given module config.
func (e *engineRT) NewGuest(mc wazero.ModuleConfig) (*wasiguest.Guest, error) {
	mod, err := e.rt.InstantiateModule(context.Background(), e.shim, mc.WithName(""))
	if err != nil {
		return nil, err
	}
	return wasiguest.New(mod), nil
}

// InstantiateRaw instantiates the shim with exactly the given configuration
// (the module name is left as configured).
func (e *engineRT) InstantiateRaw(ctx context.Context, mc wazero.ModuleConfig) (api.Module, error) {
	return e.rt.InstantiateModule(ctx, e.shim, mc)
}

// InstantiateRawNamed is InstantiateRaw with the binary that carries a module name.
func (e *engineRT) InstantiateRawNamed(ctx context.Context, mc wazero.ModuleConfig) (api.Module, error) {
	return e.rt.InstantiateModule(ctx, e.named, mc)
}

func scratchBase() string {
	if d := os.Getenv("VERIF_SCRATCH"); d != "" {
		return d
	}
	return os.TempDir()
}
