package wasifs

import (
	"io/fs"
	"os"
	"path/filepath"

	experimentalsys "github.com/tetratelabs/wazero/experimental/sys"
	"github.com/tetratelabs/wazero/sys"

	"verifharness/tape"
	w "verifharness/wasiguest"
)

// faultCtl is the simulator's handle on the fault-injecting FS wrapper.  At
// most one fault is armed per WASI call; it fires on the skip-th eligible
// inner operation of that call.
type faultCtl struct {
	armed   string // "", short, eio, eintr, eagain, eacces
	skip    int
	frac    int // short: numerator/8 of the length
	fired   string
	firedOp string
	counts  map[string]int64
}

func (c *faultCtl) arm(t *tape.Tape) {
	c.fired, c.firedOp, c.armed = "", "", ""
	if !t.Chance(1, 5) {
		return
	}
	c.armed = tape.Pick(t, []string{"short", "eio", "short", "eintr", "eagain", "eacces"})
	c.skip = t.Choose(3)
	c.frac = 1 + t.Choose(7)
}

func (c *faultCtl) disarm() { c.armed = "" }

// hit is called by the wrapper before each inner operation.  It returns the
// errno to inject (non-zero), or a shortened length (short >= 0), or neither.
func (c *faultCtl) hit(op string, length int) (errno experimentalsys.Errno, short int) {
	short = -1
	if c == nil || c.armed == "" {
		return
	}
	if c.armed == "short" {
		if length < 2 {
			return
		}
		switch op {
		case "Read", "Pread", "Write", "Pwrite":
		default:
			return
		}
	}
	if c.skip > 0 {
		c.skip--
		return
	}
	kind := c.armed
	c.armed = ""
	c.fired, c.firedOp = kind, op
	if c.counts == nil {
		c.counts = map[string]int64{}
	}
	c.counts[kind]++
	switch kind {
	case "short":
		n := length * c.frac / 8
		if n < 1 {
			n = 1
		}
		if n >= length {
			n = length - 1
		}
		return 0, n
	case "eio":
		return experimentalsys.EIO, -1
	case "eintr":
		return experimentalsys.EINTR, -1
	case "eagain":
		return experimentalsys.EAGAIN, -1
	default:
		return experimentalsys.EACCES, -1
	}
}

type faultFS struct {
	experimentalsys.UnimplementedFS
	inner experimentalsys.FS
	ctl   *faultCtl
}

func (f *faultFS) OpenFile(path string, flag experimentalsys.Oflag, perm fs.FileMode) (experimentalsys.File, experimentalsys.Errno) {
	// The lazy open of the mount root (".") is not a fault target: wazero
	// treats a failure there as unexpected and panics, which no property in
	// scope speaks about (noted in DESIGN.md).
	if path != "." {
		if e, _ := f.ctl.hit("OpenFile", 0); e != 0 {
			return nil, e
		}
	}
	in, errno := f.inner.OpenFile(path, flag, perm)
	if errno != 0 {
		return nil, errno
	}
	return &faultFile{inner: in, ctl: f.ctl}, 0
}
func (f *faultFS) Lstat(path string) (sys.Stat_t, experimentalsys.Errno) {
	if e, _ := f.ctl.hit("Lstat", 0); e != 0 {
		return sys.Stat_t{}, e
	}
	return f.inner.Lstat(path)
}
func (f *faultFS) Stat(path string) (sys.Stat_t, experimentalsys.Errno) {
	if e, _ := f.ctl.hit("FS.Stat", 0); e != 0 {
		return sys.Stat_t{}, e
	}
	return f.inner.Stat(path)
}
func (f *faultFS) Mkdir(path string, perm fs.FileMode) experimentalsys.Errno {
	if e, _ := f.ctl.hit("Mkdir", 0); e != 0 {
		return e
	}
	return f.inner.Mkdir(path, perm)
}
func (f *faultFS) Rename(from, to string) experimentalsys.Errno {
	if e, _ := f.ctl.hit("Rename", 0); e != 0 {
		return e
	}
	return f.inner.Rename(from, to)
}
func (f *faultFS) Rmdir(path string) experimentalsys.Errno {
	if e, _ := f.ctl.hit("Rmdir", 0); e != 0 {
		return e
	}
	return f.inner.Rmdir(path)
}
func (f *faultFS) Unlink(path string) experimentalsys.Errno {
	if e, _ := f.ctl.hit("Unlink", 0); e != 0 {
		return e
	}
	return f.inner.Unlink(path)
}
func (f *faultFS) Utimens(path string, atim, mtim int64) experimentalsys.Errno {
	if e, _ := f.ctl.hit("FS.Utimens", 0); e != 0 {
		return e
	}
	return f.inner.Utimens(path, atim, mtim)
}
func (f *faultFS) Link(o, n string) experimentalsys.Errno            { return f.inner.Link(o, n) }
func (f *faultFS) Symlink(o, n string) experimentalsys.Errno         { return f.inner.Symlink(o, n) }
func (f *faultFS) Readlink(p string) (string, experimentalsys.Errno) { return f.inner.Readlink(p) }
func (f *faultFS) Chmod(p string, m fs.FileMode) experimentalsys.Errno {
	return f.inner.Chmod(p, m)
}

type faultFile struct {
	experimentalsys.UnimplementedFile
	inner experimentalsys.File
	ctl   *faultCtl
}

func (f *faultFile) Dev() (uint64, experimentalsys.Errno)    { return f.inner.Dev() }
func (f *faultFile) Ino() (sys.Inode, experimentalsys.Errno) { return f.inner.Ino() }
func (f *faultFile) IsDir() (bool, experimentalsys.Errno)    { return f.inner.IsDir() }
func (f *faultFile) IsAppend() bool                          { return f.inner.IsAppend() }
func (f *faultFile) SetAppend(e bool) experimentalsys.Errno  { return f.inner.SetAppend(e) }
func (f *faultFile) Stat() (sys.Stat_t, experimentalsys.Errno) {
	if e, _ := f.ctl.hit("Stat", 0); e != 0 {
		return sys.Stat_t{}, e
	}
	return f.inner.Stat()
}
func (f *faultFile) Read(buf []byte) (int, experimentalsys.Errno) {
	e, short := f.ctl.hit("Read", len(buf))
	if e != 0 {
		return 0, e
	}
	if short >= 0 {
		buf = buf[:short]
	}
	return f.inner.Read(buf)
}
func (f *faultFile) Pread(buf []byte, off int64) (int, experimentalsys.Errno) {
	e, short := f.ctl.hit("Pread", len(buf))
	if e != 0 {
		return 0, e
	}
	if short >= 0 {
		buf = buf[:short]
	}
	return f.inner.Pread(buf, off)
}
func (f *faultFile) Seek(offset int64, whence int) (int64, experimentalsys.Errno) {
	if e, _ := f.ctl.hit("Seek", 0); e != 0 {
		return 0, e
	}
	return f.inner.Seek(offset, whence)
}
func (f *faultFile) Readdir(n int) ([]experimentalsys.Dirent, experimentalsys.Errno) {
	if e, _ := f.ctl.hit("Readdir", 0); e != 0 {
		return nil, e
	}
	return f.inner.Readdir(n)
}
func (f *faultFile) Write(buf []byte) (int, experimentalsys.Errno) {
	e, short := f.ctl.hit("Write", len(buf))
	if e != 0 {
		return 0, e
	}
	if short >= 0 {
		// torn write: a prefix reaches the file and the call reports an error
		// (the File contract follows io.Writer: n < len(buf) implies an error)
		n, errno := f.inner.Write(buf[:short])
		if errno == 0 {
			errno = experimentalsys.EIO
		}
		return n, errno
	}
	return f.inner.Write(buf)
}
func (f *faultFile) Pwrite(buf []byte, off int64) (int, experimentalsys.Errno) {
	e, short := f.ctl.hit("Pwrite", len(buf))
	if e != 0 {
		return 0, e
	}
	if short >= 0 {
		n, errno := f.inner.Pwrite(buf[:short], off)
		if errno == 0 {
			errno = experimentalsys.EIO
		}
		return n, errno
	}
	return f.inner.Pwrite(buf, off)
}
func (f *faultFile) Truncate(size int64) experimentalsys.Errno {
	if e, _ := f.ctl.hit("Truncate", 0); e != 0 {
		return e
	}
	return f.inner.Truncate(size)
}
func (f *faultFile) Sync() experimentalsys.Errno {
	if e, _ := f.ctl.hit("Sync", 0); e != 0 {
		return e
	}
	return f.inner.Sync()
}
func (f *faultFile) Datasync() experimentalsys.Errno {
	if e, _ := f.ctl.hit("Datasync", 0); e != 0 {
		return e
	}
	return f.inner.Datasync()
}
func (f *faultFile) Utimens(atim, mtim int64) experimentalsys.Errno {
	if e, _ := f.ctl.hit("Utimens", 0); e != 0 {
		return e
	}
	return f.inner.Utimens(atim, mtim)
}
func (f *faultFile) Close() experimentalsys.Errno {
	if e, _ := f.ctl.hit("Close", 0); e != 0 {
		return e
	}
	return f.inner.Close()
}

// ---- oracle side

func (s *runState) faultFired() string {
	if !s.faulty || s.e.ctl.fired == "" {
		return ""
	}
	k := s.e.ctl.fired + "@" + s.e.ctl.firedOp
	s.res.Stat("fault."+s.e.ctl.fired, 1)
	s.faultsFired++
	s.e.ctl.fired = ""
	s.e.ctl.armed = ""
	return k
}

// faultRelax reports whether a fault fired during the call just made; if so
// the strict comparison is replaced by the caller's relaxed handling.  A fault
// never excuses a success where the model expects an error for reasons that
// precede any I/O (bad descriptor).
func (s *runState) faultRelax(what string, got, want uint32) bool {
	k := s.faultFired()
	if k == "" {
		return false
	}
	s.shape = append(s.shape, "fault")
	s.res.Logf("%s -> %s [fault %s]", what, w.ErrnoName(got), k)
	if want == w.EBADF && got == 0 {
		s.res.Fail("errno-mismatch", "%s under fault %s: succeeded on a descriptor the model says is not open", what, k)
	}
	return true
}

func (s *runState) hostPathOf(ino *inode) string {
	var find func(d *inode, p string) string
	find = func(d *inode, p string) string {
		for name, k := range d.kids {
			if k == ino {
				return filepath.Join(p, name)
			}
			if k.dir {
				if r := find(k, filepath.Join(p, name)); r != "" {
					return r
				}
			}
		}
		return ""
	}
	return find(s.m.root, s.e.root)
}

// resyncOffset re-reads the descriptor's offset through a fault-free fd_tell.
func (s *runState) resyncOffset(fd int32, f *fdesc) {
	s.e.ctl.disarm()
	got, err := s.e.g.Call(s.e.ctx, "fd_tell", uint64(uint32(fd)), offRes2)
	if err == nil && got == 0 {
		f.off = int64(s.e.g.U64(offRes2))
	}
	s.res.Stat("resync.offset", 1)
}

// resyncContent re-reads the file content after a faulted write/truncate and
// checks that it contains nothing but old content, payload bytes at their
// positions, and zero fill.
func (s *runState) resyncContent(fd int32, f *fdesc, payload []byte, poff int64, positional bool, got uint32) {
	s.e.ctl.disarm()
	f.ino.mtime = 0
	s.res.Stat("resync.content", 1)
	var cur []byte
	if hp := s.hostPathOf(f.ino); hp != "" {
		b, err := os.ReadFile(hp)
		if err != nil {
			s.res.Fail("tree-mismatch", "after a faulted write %q is unreadable on the host: %v", hp, err)
			return
		}
		cur = b
	} else {
		// unlinked file: read back through WASI
		e1, err := s.e.g.Call(s.e.ctx, "fd_filestat_get", uint64(uint32(fd)), offStat)
		if err != nil || e1 != 0 {
			return
		}
		_, size, _ := s.readStat(offStat)
		if size > dataCap {
			size = dataCap
		}
		s.e.g.PutU32(offIov, offData)
		s.e.g.PutU32(offIov+4, uint32(size))
		e2, err := s.e.g.Call(s.e.ctx, "fd_pread", uint64(uint32(fd)), offIov, 1, 0, offRes2)
		if err != nil || e2 != 0 {
			// not readable through this descriptor: keep the size only
			f.ino.data = make([]byte, size)
			f.ino.fuzzy = true
			s.res.Stat("resync.fuzzy", 1)
			if !positional {
				s.resyncOffset(fd, f)
			}
			return
		}
		cur = s.e.g.Read(offData, s.e.g.U32(offRes2))
	}
	if payload != nil {
		start := poff
		if !positional {
			start = f.off
			if f.app {
				start = int64(len(f.ino.data))
			}
		}
		for i, b := range cur {
			var old byte
			hasOld := i < len(f.ino.data)
			if hasOld {
				old = f.ino.data[i]
			}
			rel := int64(i) - start
			okb := (hasOld && b == old) || (!hasOld && b == 0) || (rel >= 0 && rel < int64(len(payload)) && b == payload[rel])
			if !okb {
				s.res.Fail("write-corruption", "after a faulted write (errno %s) byte %d of the file is %#x: neither the old content, nor the payload byte for that position, nor zero fill", w.ErrnoName(got), i, b)
				return
			}
		}
		if got == 0 {
			// the call reported success with nwritten bytes: exactly the
			// first nwritten payload bytes must be in place
			n := int64(s.e.g.U32(offRes))
			if n > int64(len(payload)) {
				s.res.Fail("write-count", "faulted write reported nwritten=%d > %d", n, len(payload))
				return
			}
			for i := int64(0); i < n; i++ {
				if start+i >= int64(len(cur)) || cur[start+i] != payload[i] {
					s.res.Fail("write-corruption", "write reported nwritten=%d under a short write, but byte %d of the written range does not hold payload byte %d", n, i, i)
					return
				}
			}
		}
	}
	f.ino.data = append([]byte(nil), cur...)
	if !positional {
		s.resyncOffset(fd, f)
	}
}

// resyncAfterFault aligns the model after a faulted path_open.
func (s *runState) resyncAfterFault(r resolved, got uint32, apply func(fd int32)) {
	s.e.ctl.disarm()
	if got == 0 {
		if apply == nil {
			s.res.Fail("errno-mismatch", "path_open succeeded under a fault although the model expects an error")
			return
		}
		fd := int32(s.e.g.U32(offRes))
		if fd != s.m.lowestFree() {
			s.res.Fail("fd-allocation", "path_open under fault returned descriptor %d, lowest free is %d", fd, s.m.lowestFree())
			return
		}
		apply(fd)
		return
	}
	if r.errno != 0 || r.lk.parent == nil {
		return
	}
	hp := filepath.Join(s.e.root, r.lk.full)
	st, err := os.Lstat(hp)
	if err != nil {
		return
	}
	s.res.Stat("resync.path", 1)
	if r.lk.target == nil && st.Mode().IsRegular() {
		f := s.m.newFile()
		b, _ := os.ReadFile(hp)
		f.data = b
		r.lk.parent.kids[r.lk.name] = f
		s.m.markDirChanged(r.lk.parent, r.lk.name)
	} else if r.lk.target != nil && !r.lk.target.dir {
		b, _ := os.ReadFile(hp)
		r.lk.target.data = b
	}
}
