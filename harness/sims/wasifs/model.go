// Package wasifs holds the WASI history simulators for C16 (POSIX-style
// reference model) and C17 (read-only mounts).
package wasifs

import (
	"path"
	"sort"
	"strings"

	w "verifharness/wasiguest"
)

// inode of the reference model.
type inode struct {
	id    int
	dir   bool
	data  []byte
	kids  map[string]*inode
	mtime int64 // explicitly set mtime in ns, 0 = never set explicitly
	nlink int   // directory entries pointing here (files); 0 = unlinked
	fuzzy bool  // content unknown after a faulted write to an unlinked, unreadable file (size still tracked)
}

type fdesc struct {
	ino     *inode
	off     int64
	app     bool
	rd, wr  bool
	preopen bool
	stdio   bool
	// opath is the guest path the descriptor was opened with; drift is set
	// when that path no longer names ino (rename/unlink): wazero re-opens by
	// path for some operations, which the model does not follow.
	opath string
	drift bool
	// readdir pass state
	rdSeen     []string
	rdDirty    bool
	rdUniverse map[string]bool
	// rdTouched: names created, removed or renamed in the directory since the pass began; rdTouchedAll:
	// a change whose names were not recorded
	rdTouched    map[string]bool
	rdTouchedAll bool
	rdInitial    map[string]bool // names in the directory when the pass began
	rdLastLo   uint64 // cookies in [rdLastLo, rdLastHi] are guaranteed acceptable
	rdLastHi   uint64
	rdStarted  bool
	rdCalls    int
	lastPos    bool // last data operation was positional (probe for mixed I/O)
}

type model struct {
	root   *inode
	fds    map[int32]*fdesc
	nextID int
	// preopens beyond fd 3 (second mount) get their own root
	root2 *inode
}

func newModel() *model {
	m := &model{fds: map[int32]*fdesc{}}
	m.root = m.newDir()
	for i := int32(0); i < 3; i++ {
		m.fds[i] = &fdesc{stdio: true, preopen: true}
	}
	m.fds[3] = &fdesc{ino: m.root, preopen: true, rd: true}
	return m
}

func (m *model) newDir() *inode {
	m.nextID++
	return &inode{id: m.nextID, dir: true, kids: map[string]*inode{}, nlink: 1}
}

func (m *model) newFile() *inode {
	m.nextID++
	return &inode{id: m.nextID, nlink: 1}
}

func (m *model) lowestFree() int32 {
	for i := int32(0); ; i++ {
		if _, ok := m.fds[i]; !ok {
			return i
		}
	}
}

// cleanPath mirrors the *documented* path handling: the path is cleaned
// lexically; anything that is not a valid relative path below the directory
// (absolute, or escaping with "..") is refused.
func cleanPath(p string) (clean string, trailing bool, ok bool) {
	trailing = strings.HasSuffix(p, "/")
	c := path.Clean(p)
	if c == ".." || strings.HasPrefix(c, "../") || strings.HasPrefix(c, "/") || p == "" {
		return c, trailing, false
	}
	return c, trailing, true
}

type lookup struct {
	errno  uint32
	parent *inode
	name   string
	target *inode // nil if missing
	full   string // path from the mount root
}

// walk resolves a cleaned relative path from dir.
func walk(dir *inode, base string, clean string) lookup {
	if clean == "." {
		return lookup{target: dir, full: base, name: "."}
	}
	comps := strings.Split(clean, "/")
	cur := dir
	full := base
	for i, c := range comps {
		if !cur.dir {
			return lookup{errno: w.ENOTDIR}
		}
		next := cur.kids[c]
		if full == "" {
			full = c
		} else {
			full = full + "/" + c
		}
		if i == len(comps)-1 {
			return lookup{parent: cur, name: c, target: next, full: full}
		}
		if next == nil {
			return lookup{errno: w.ENOENT}
		}
		cur = next
	}
	return lookup{errno: w.ENOENT}
}

// markDirChanged notes a modification of directory d for readdir passes.
func (m *model) markDirChanged(d *inode, names ...string) {
	d.mtime = 0
	for _, f := range m.fds {
		if f.ino == d && f.rdStarted {
			f.rdDirty = true
			if len(names) == 0 {
				f.rdTouchedAll = true
			}
			for _, n := range names {
				f.rdUniverse[n] = true
				if f.rdTouched == nil {
					f.rdTouched = map[string]bool{}
				}
				f.rdTouched[n] = true
			}
		}
	}
}

// markDrift flags descriptors whose opening path went away.
func (m *model) markDrift(ino *inode) {
	for _, f := range m.fds {
		if f.ino == nil || f.preopen {
			continue
		}
		if f.ino == ino || (ino.dir && isBelow(ino, f.ino)) {
			f.drift = true
		}
	}
}

func isBelow(dir, x *inode) bool {
	for _, k := range dir.kids {
		if k == x {
			return true
		}
		if k.dir && isBelow(k, x) {
			return true
		}
	}
	return false
}

func sortedKids(d *inode) []string {
	var n []string
	for k := range d.kids {
		n = append(n, k)
	}
	sort.Strings(n)
	return n
}
