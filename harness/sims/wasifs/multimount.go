package wasifs

import (
	"context"
	"fmt"
	"os"
	"path/filepath"
	"time"

	"github.com/tetratelabs/wazero"
	"github.com/tetratelabs/wazero/imports/wasi_snapshot_preview1"

	"verifharness/sim"
	"verifharness/tape"
)

// Class multi-mount (C17): a configuration with SEVERAL mounts, built by a tape-chosen derivation: writeable
// scratch directories at /a, /tmp, /z, the protected directory first mounted WRITEABLE at /data (sometimes),
// mounts replaced or (with a nil file system) withdrawn, and finally the protected directory mounted
// read-only at /data.  Whatever the derivation: the guest tries to change things through EVERY pre-open
// descriptor; the protected directory must be bit-identical afterwards.
func runMultiMount(t *tape.Tape, cfg sim.Config) (res sim.Result) {
	ctx := context.Background()
	root, err := os.MkdirTemp(scratchBase(), "c17mm-")
	if err != nil {
		panic(err)
	}
	defer os.RemoveAll(root)
	dir := filepath.Join(root, "data")
	os.MkdirAll(filepath.Join(dir, "d1"), 0o755)
	os.WriteFile(filepath.Join(dir, "a"), []byte("content-a"), 0o644)
	os.WriteFile(filepath.Join(dir, "d1", "b"), []byte("content-b"), 0o644)
	old := time.Unix(1_500_000_000, 0)
	filepath.Walk(dir, func(p string, _ os.FileInfo, _ error) error { os.Chtimes(p, old, old); return nil })
	snap0, err := snapshotDir(dir)
	if err != nil {
		panic(err)
	}
	scratch := func(n string) string {
		d := filepath.Join(root, n)
		os.MkdirAll(filepath.Join(d, "d1"), 0o755)
		os.WriteFile(filepath.Join(d, "a"), []byte("scratch"), 0o644)
		return d
	}
	var fsc wazero.FSConfig
	var steps []string
	// an intermediate configuration is sometimes USED (an empty module is instantiated with it and closed)
	// before the derivation goes on: what a configuration worked out at its first use must not reach the
	// configurations derived from it afterwards
	urt := wazero.NewRuntimeWithConfig(ctx, wazero.NewRuntimeConfigInterpreter())
	defer urt.Close(ctx)
	use := func() {
		if !t.Chance(1, 3) {
			return
		}
		if mod, err := urt.InstantiateWithConfig(ctx, []byte{0, 'a', 's', 'm', 1, 0, 0, 0}, wazero.NewModuleConfig().WithName("").WithFSConfig(fsc)); err == nil {
			mod.Close(ctx)
		}
		steps = append(steps, "(used)")
		res.Stat("probe.intermediate_configuration_used_before_deriving_on", 1)
	}
	derive := func() (err error) {
		defer func() {
			if r := recover(); r != nil {
				err = fmt.Errorf("panic while deriving the configuration: %v", r)
			}
		}()
		fsc = wazero.NewFSConfig()
		// the other mounts, before and after the protected one
		guestPaths := []string{"/a", "/tmp", "/z", "/y"}
		nBefore := t.Choose(3)
		for i := 0; i < nBefore; i++ {
			fsc = fsc.WithDirMount(scratch(fmt.Sprintf("s%d", i)), guestPaths[i])
			steps = append(steps, "dir "+guestPaths[i])
		}
		firstWriteable := t.Chance(1, 2)
		if firstWriteable {
			fsc = fsc.WithDirMount(dir, "/data")
			steps = append(steps, "dir(PROTECTED, writeable) /data")
			use()
		}
		nAfter := t.Choose(3)
		for i := nBefore; i < nBefore+nAfter && i < len(guestPaths); i++ {
			fsc = fsc.WithDirMount(scratch(fmt.Sprintf("s%d", i)), guestPaths[i])
			steps = append(steps, "dir "+guestPaths[i])
		}
		// a mount is replaced by another directory, or given a nil file system (withdrawn / unusable)
		if n := nBefore + nAfter; n > 0 && t.Chance(1, 2) {
			gp := guestPaths[t.Choose(min(n, len(guestPaths)))]
			if t.Chance(1, 2) {
				fsc = fsc.WithFSMount(nil, gp)
				steps = append(steps, "nil "+gp)
				res.Stat("probe.mount_given_a_nil_file_system", 1)
			} else {
				fsc = fsc.WithDirMount(scratch("again"), gp)
				steps = append(steps, "dir(again) "+gp)
			}
		}
		use()
		fsc = fsc.WithReadOnlyDirMount(dir, tape.Pick(t, []string{"/data", "/data/", "data"}))
		steps = append(steps, "readonly(PROTECTED) /data")
		if t.Chance(1, 3) {
			fsc = fsc.WithDirMount(scratch("late"), "/late")
			steps = append(steps, "dir /late")
		}
		return nil
	}
	if err := derive(); err != nil {
		// a derivation the library refuses (by panicking) mounts nothing: judged like any other run, below
		res.Logf("%v", err)
		fsc = wazero.NewFSConfig()
	}
	names := []string{"a", "d1", "d1/b", "new", "d1/new", "."}
	var ops []cliOp
	for fd := int32(3); fd < 10; fd++ {
		for n := t.Range(1, 3); n > 0; n-- {
			ops = append(ops, cliOp{kind: t.Choose(7), name: tape.Pick(t, names), fd: fd})
		}
		// a hard link from under this pre-open to under another one, then a write through the new name
		if t.Chance(1, 2) {
			ops = append(ops, cliOp{kind: 7, name: tape.Pick(t, []string{"a", "d1/b"}), fd: fd, fd2: 3 + int32(t.Choose(6))})
		}
	}
	var rc wazero.RuntimeConfig
	if cfg.Engine == "interpreter" {
		rc = wazero.NewRuntimeConfigInterpreter()
	} else {
		rc = wazero.NewRuntimeConfigCompiler()
	}
	rt := wazero.NewRuntimeWithConfig(ctx, rc)
	defer rt.Close(ctx)
	wasi_snapshot_preview1.MustInstantiate(ctx, rt)
	res.Logf("mounts: %v", steps)
	res.Shape = sim.ShapeOf(steps...)
	res.Nontrivial = len(steps) >= 3
	res.Sample = map[string]any{"mounts": steps}
	err = func() (err error) {
		defer func() {
			if r := recover(); r != nil {
				err = fmt.Errorf("panic: %v", r)
			}
		}()
		cm, err := rt.CompileModule(ctx, cliGuest(ops))
		if err != nil {
			panic(err)
		}
		inst, err := rt.InstantiateModule(ctx, cm, wazero.NewModuleConfig().WithFSConfig(fsc).WithStartFunctions())
		if err != nil {
			return err
		}
		for i := range ops {
			func() {
				defer func() { recover() }() // a mount with a nil file system may panic when touched: not judged
				inst.ExportedFunction(fmt.Sprintf("op%d", i)).Call(ctx)
			}()
			res.Steps++
		}
		return nil
	}()
	if err != nil {
		// a configuration the runtime refuses changes nothing either
		res.Logf("instantiation refused: %v", err)
	}
	now, err := snapshotDir(dir)
	if err != nil {
		res.Fail("readonly-modified", "mounts %v: the protected directory cannot be walked afterwards: %v", steps, err)
		return
	}
	if d := diffSnap(snap0, now); d != "" {
		res.Fail("readonly-modified", "mounts %v: after the guest's attempts through every pre-open descriptor the directory mounted read-only changed: %s", steps, d)
	}
	return
}
