package wasifs

import (
	"encoding/binary"
	"fmt"
	"sort"

	"verifharness/tape"
	w "verifharness/wasiguest"
)

// opReaddir issues one fd_readdir call and checks it against the pass state of
// the descriptor.
//
// Oracle (from the property): following cookies returned so far with any
// buffer sizes yields ".", ".." and every entry exactly once; an entry that
// does not fit is reported truncated (bufused == buf_len), never skipped.
// Cookies that are guaranteed to be accepted: 0 (rewind), and any cookie from
// the position of the previous call up to the last d_next it returned.  Other
// cookies (stale, too large) may be refused with ENOENT, or answered
// consistently.
func (s *runState) opReaddir(class string) {
	t := s.t
	fd := s.pickFd(true)
	if class == "readdir" || t.Chance(1, 2) {
		// prefer a directory descriptor
		for cand := int32(3); cand < 20; cand++ {
			if f := s.m.fds[cand]; f != nil && f.ino != nil && f.ino.dir && !f.preopen && !f.drift && t.Chance(2, 3) {
				fd = cand
				break
			}
		}
	}
	f := s.m.fds[fd]
	if f != nil && f.drift {
		return
	}
	bufLen := uint32(tape.Pick(t, []int{24, 25, 30, 47, 48, 49, 64, 100, 128, 256, 1000, 4096, 23, 8}))
	if f != nil && f.rdDirty && t.Chance(1, 2) {
		// the directory changed during this pass: buffers that make the host read one or two entries at a time
		bufLen = uint32(tape.Pick(t, []int{24, 25, 30, 47, 48, 49, 60}))
	}
	if s.hugeDir && t.Chance(1, 2) {
		bufLen = uint32(tape.Pick(t, []int{16384, 32768, 49152, 65536}))
	}
	var cookie uint64
	if f != nil && f.rdStarted {
		switch t.Weighted(8, 2, 2, 1, 1) {
		case 0:
			cookie = f.rdLastHi // continue after the last returned entry
		case 1:
			cookie = 0
		case 2:
			if f.rdLastHi > f.rdLastLo {
				cookie = f.rdLastLo + uint64(t.Choose(int(f.rdLastHi-f.rdLastLo)+1))
			} else {
				cookie = f.rdLastLo
			}
		case 3:
			cookie = uint64(t.Choose(int(f.rdLastLo) + 1)) // possibly stale
		case 4:
			cookie = f.rdLastHi + 1 + uint64(t.Choose(100)) // too large
		}
	} else if t.Chance(1, 8) {
		cookie = 1 + uint64(t.Choose(5))
	}
	what := fmt.Sprintf("fd_readdir(fd=%d,buf_len=%d,cookie=%d)", fd, bufLen, cookie)
	want := uint32(0)
	var alts []uint32
	guaranteed := false
	switch {
	case bufLen < 24:
		want = w.EINVAL
	case f == nil:
		want = w.EBADF
	case f.stdio || !f.ino.dir:
		want, alts = w.EBADF, []uint32{w.ENOTDIR}
	default:
		guaranteed = cookie == 0 || (f.rdStarted && cookie >= f.rdLastLo && cookie <= f.rdLastHi)
	}
	s.e.g.Fill(offData, bufLen+16, canary)
	s.e.g.PutU32(offRes, 0xFFFFFFFF)
	got, ok := s.call("fd_readdir", uint64(uint32(fd)), offData, uint64(bufLen), cookie, offRes)
	if !ok {
		return
	}
	if s.faultRelax(what, got, want) {
		if f != nil && f.ino != nil && f.ino.dir {
			// pass state is uncertain: only a rewind is guaranteed from here
			f.rdStarted = false
		}
		return
	}
	if want != 0 {
		s.check(what, got, want, alts...)
		return
	}
	if !guaranteed && got == w.ENOENT {
		s.shape = append(s.shape, "fd_readdir:stale-refused")
		s.res.Logf("%s -> ENOENT (cookie not guaranteed)", what)
		return
	}
	if !s.check(what, got, 0) {
		return
	}
	if cookie == 0 {
		f.rdStarted = true
		f.rdSeen = nil
		f.rdDirty = false
		f.rdUniverse = map[string]bool{}
		f.rdTouched, f.rdTouchedAll, f.rdInitial = nil, false, map[string]bool{}
		for n := range f.ino.kids {
			f.rdUniverse[n] = true
			f.rdInitial[n] = true
		}
	} else if !f.rdStarted {
		// answered a non-zero cookie on a fresh descriptor: nothing to compare with
		return
	}
	bufused := s.e.g.U32(offRes)
	if bufused > bufLen {
		s.res.Fail("readdir-bufused", "%s: bufused=%d exceeds buf_len", what, bufused)
		return
	}
	buf := s.e.g.Read(offData, bufLen+16)
	for i := int(bufused); i < len(buf); i++ {
		if buf[i] != canary {
			s.res.Fail("readdir-overrun", "%s: memory beyond bufused=%d modified at +%d", what, bufused, i)
			return
		}
	}
	// parse
	pos := uint32(0)
	idx := cookie
	nFull := 0
	truncated := false
	total := uint64(2 + len(f.ino.kids))
	for pos < bufused {
		if pos+24 > bufused {
			truncated = true
			break
		}
		dnext := binary.LittleEndian.Uint64(buf[pos:])
		namlen := binary.LittleEndian.Uint32(buf[pos+16:])
		dtype := buf[pos+20]
		if dnext != idx+1 {
			s.res.Fail("readdir-cookie", "%s: entry %d has d_next=%d, expected %d", what, nFull, dnext, idx+1)
			return
		}
		if pos+24+namlen > bufused {
			truncated = true
			// the header of a truncated entry must still be that of the next entry
			break
		}
		name := string(buf[pos+24 : pos+24+namlen])
		// consistency with this pass
		if int(idx) < len(f.rdSeen) && f.rdSeen[idx] != "" && f.rdSeen[idx] != name {
			s.res.Fail("readdir-inconsistent", "%s: position %d was %q earlier in this pass and is %q now", what, idx, f.rdSeen[idx], name)
			return
		}
		for uint64(len(f.rdSeen)) <= idx {
			f.rdSeen = append(f.rdSeen, "")
		}
		f.rdSeen[idx] = name
		switch idx {
		case 0:
			if name != "." || dtype != ftDir {
				s.res.Fail("readdir-dots", "%s: first entry is %q type %d, expected \".\"", what, name, dtype)
				return
			}
		case 1:
			if name != ".." || dtype != ftDir {
				s.res.Fail("readdir-dots", "%s: second entry is %q type %d, expected \"..\"", what, name, dtype)
				return
			}
		default:
			if !f.rdUniverse[name] {
				s.res.Fail("readdir-phantom", "%s: entry %q is not in the directory", what, name)
				return
			}
			if k := f.ino.kids[name]; k != nil && !f.rdDirty {
				wt := uint8(ftReg)
				if k.dir {
					wt = ftDir
				}
				if dtype != wt {
					s.res.Fail("readdir-type", "%s: entry %q has d_type %d, model expects %d", what, name, dtype, wt)
					return
				}
			}
		}
		pos += 24 + namlen
		idx++
		nFull++
	}
	if truncated && bufused != bufLen {
		s.res.Fail("readdir-truncation", "%s: last entry is cut but bufused=%d != buf_len=%d", what, bufused, bufLen)
		return
	}
	// duplicates within the pass
	dup := map[string]uint64{}
	for i, n := range f.rdSeen {
		if n == "" {
			continue
		}
		if j, ok := dup[n]; ok {
			s.res.Fail("readdir-duplicate", "%s: %q listed at positions %d and %d of one pass", what, n, j, i)
			return
		}
		dup[n] = uint64(i)
	}
	if !f.rdDirty {
		if idx > total {
			s.res.Fail("readdir-phantom", "%s: listing reaches position %d but the directory has %d entries incl. dots", what, idx, total)
			return
		}
		if idx < total && cookie <= total {
			// more entries remain: the buffer must be reported full
			if bufused != bufLen {
				s.res.Fail("readdir-skipped", "%s: returned entries up to position %d of %d with bufused=%d < buf_len=%d: the next entry was neither returned nor reported truncated", what, idx, total, bufused, bufLen)
				return
			}
		}
		if idx == total && !truncated {
			// end reached: the pass must have seen everything exactly once if contiguous from 0
			complete := uint64(len(f.rdSeen)) == total
			for _, n := range f.rdSeen {
				if n == "" {
					complete = false
				}
			}
			if complete {
				for n := range f.ino.kids {
					if _, ok := dup[n]; !ok {
						s.res.Fail("readdir-missing", "%s: pass complete but %q was never listed", what, n)
						return
					}
				}
				s.res.Stat("probe.readdir_pass_complete", 1)
				if len(f.rdSeen) > 2 && f.rdCalls > 0 {
					s.rdMulti++
				}
			}
		}
	}
	if f.rdDirty && !f.rdTouchedAll && !truncated && bufused < bufLen && cookie <= uint64(len(f.rdSeen)) {
		// the directory changed while it was being read, and this call reached its end.  What happens to
		// the entries that were created, removed or renamed meanwhile is open; every entry that was there
		// when the pass began and was NOT touched must have been listed (once) if the pass was contiguous
		contiguous := true
		for _, n := range f.rdSeen {
			if n == "" {
				contiguous = false
			}
		}
		if contiguous {
			for n := range f.rdInitial {
				if f.rdTouched[n] || f.ino.kids[n] == nil {
					continue
				}
				if _, ok := dup[n]; !ok {
					s.res.Fail("readdir-missing", "%s: the end of the directory was reached; other entries (%v) were created, removed or renamed during the pass, but %q existed before the pass began, was not touched, still exists, and was never listed", what, keysOf(f.rdTouched), n)
					return
				}
			}
			s.res.Stat("probe.readdir_pass_complete_although_the_directory_changed", 1)
		}
	}
	if cookie == 0 {
		f.rdCalls = 0
	} else {
		f.rdCalls++
	}
	f.rdLastLo = cookie
	f.rdLastHi = cookie + uint64(nFull)
	if nFull > 0 {
		s.effects++
	}
	s.res.Logf("  = %d entries, bufused=%d truncated=%v", nFull, bufused, truncated)
}

func keysOf(m map[string]bool) []string {
	var ks []string
	for k := range m {
		ks = append(ks, k)
	}
	sort.Strings(ks)
	return ks
}
