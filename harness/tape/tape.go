// Package tape is the single source of randomness of every simulator: a
// recorded list of bounded choices.  In generation mode values come from a PCG
// seeded from (seed, run) and are recorded; in replay mode the recorded values
// are read back (modulo the bound), zeros once the tape is exhausted.  A run is
// therefore a pure function of (tape, code).  By construction of every
// generator the value 0 is the "simplest" choice (no fault, stay on the current
// task, first operation), which makes tape shrinking meaningful.
package tape

import (
	"math/rand/v2"
	"os"
)

type Tape struct {
	rec    []uint32
	pos    int
	rng    *rand.Rand
	replay bool
	// Over counts draws made beyond the recorded tape in replay mode.
	Over int
	// Log, when set, receives every drawn value (4 bytes little endian,
	// unbuffered) so that the tape of a run that kills the process survives.
	Log *os.File
}

// New returns a generating tape for (seed, run).
func New(seed uint64, run uint64) *Tape {
	return &Tape{rng: rand.New(rand.NewPCG(seed, run*0x9E3779B97F4A7C15+0x1234567))}
}

// Replay returns a tape that reads back rec.
func Replay(rec []uint32) *Tape {
	return &Tape{rec: append([]uint32(nil), rec...), replay: true}
}

// Record returns the values drawn so far (generation) or consumed so far (replay).
func (t *Tape) Record() []uint32 {
	if t.replay {
		n := t.pos
		if n > len(t.rec) {
			n = len(t.rec)
		}
		return append([]uint32(nil), t.rec[:n]...)
	}
	return append([]uint32(nil), t.rec...)
}

func (t *Tape) Pos() int { return t.pos }

// Choose returns a value in [0,n).  n<=1 returns 0 without drawing.
func (t *Tape) Choose(n int) int {
	if n <= 1 {
		return 0
	}
	if t.replay {
		var v uint32
		if t.pos < len(t.rec) {
			v = t.rec[t.pos]
		} else {
			t.Over++
		}
		t.pos++
		return int(v % uint32(n))
	}
	v := uint32(t.rng.IntN(n))
	t.rec = append(t.rec, v)
	t.pos++
	if t.Log != nil {
		t.Log.Write([]byte{byte(v), byte(v >> 8), byte(v >> 16), byte(v >> 24)})
	}
	return int(v)
}

// Chance is true with probability num/den; the zero draw is always false.
func (t *Tape) Chance(num, den int) bool {
	if num <= 0 {
		return false
	}
	if num >= den {
		// still deterministic, no draw needed
		return true
	}
	return t.Choose(den) >= den-num
}

// Range returns a value in [lo,hi] inclusive; zero draw gives lo.
func (t *Tape) Range(lo, hi int) int {
	if hi <= lo {
		return lo
	}
	return lo + t.Choose(hi-lo+1)
}

// Weighted picks an index with the given weights; the zero draw picks the
// first index with non-zero weight, so put the simplest alternative first.
func (t *Tape) Weighted(w ...int) int {
	tot := 0
	for _, x := range w {
		if x > 0 {
			tot += x
		}
	}
	if tot == 0 {
		return 0
	}
	v := t.Choose(tot)
	for i, x := range w {
		if x <= 0 {
			continue
		}
		if v < x {
			return i
		}
		v -= x
	}
	return len(w) - 1
}

// Bits returns k random bits (k<=31).
func (t *Tape) Bits(k int) uint32 {
	if k <= 0 {
		return 0
	}
	return uint32(t.Choose(1 << uint(k)))
}

// U64 returns a 64-bit value biased to interesting values; zero draw gives 0.
func (t *Tape) U64() uint64 {
	switch t.Choose(8) {
	case 0:
		return 0
	case 1:
		return uint64(t.Choose(16))
	case 2:
		return uint64(t.Choose(1 << 16))
	case 3:
		return uint64(0xFFFFFFFF) - uint64(t.Choose(4))
	case 4:
		return uint64(0x7FFFFFFF) + uint64(t.Choose(3))
	case 5:
		return ^uint64(0) - uint64(t.Choose(4))
	case 6:
		return uint64(t.Choose(1<<31))<<32 | uint64(t.Choose(1<<31))
	default:
		return uint64(t.Choose(1 << 30))
	}
}

// Pick returns one element of xs.
func Pick[T any](t *Tape, xs []T) T { return xs[t.Choose(len(xs))] }

// Shrink minimises rec while fails(rec) stays true.  fails must be
// deterministic.  budget bounds the number of candidate executions.
func Shrink(rec []uint32, fails func([]uint32) bool, budget int) []uint32 {
	cur := append([]uint32(nil), rec...)
	try := func(c []uint32) bool {
		if budget <= 0 {
			return false
		}
		budget--
		return fails(c)
	}
	// drop trailing values first (cheap)
	for improved := true; improved && budget > 0; {
		improved = false
		// truncate from the end by halves
		for n := len(cur) / 2; n >= 1; n /= 2 {
			for len(cur) >= n {
				c := cur[:len(cur)-n]
				if try(c) {
					cur = append([]uint32(nil), c...)
					improved = true
				} else {
					break
				}
			}
		}
		// delete blocks
		for bs := len(cur) / 2; bs >= 1; bs /= 2 {
			for i := 0; i+bs <= len(cur); {
				c := append(append([]uint32(nil), cur[:i]...), cur[i+bs:]...)
				if try(c) {
					cur = c
					improved = true
				} else {
					i += bs
				}
				if budget <= 0 {
					break
				}
			}
		}
		// zero blocks
		for bs := len(cur) / 2; bs >= 1; bs /= 2 {
			for i := 0; i+bs <= len(cur); i += bs {
				allz := true
				for _, v := range cur[i : i+bs] {
					if v != 0 {
						allz = false
						break
					}
				}
				if allz {
					continue
				}
				c := append([]uint32(nil), cur...)
				for j := i; j < i+bs; j++ {
					c[j] = 0
				}
				if try(c) {
					cur = c
					improved = true
				}
				if budget <= 0 {
					break
				}
			}
		}
		// lower single values
		for i := 0; i < len(cur) && budget > 0; i++ {
			for cur[i] > 0 && budget > 0 {
				c := append([]uint32(nil), cur...)
				nv := cur[i] / 2
				c[i] = nv
				if try(c) {
					cur = c
					improved = true
					continue
				}
				c[i] = cur[i] - 1
				if c[i] != nv && try(c) {
					cur = c
					improved = true
					continue
				}
				break
			}
		}
	}
	// strip trailing zeros: replay yields zeros past the end anyway
	for len(cur) > 0 && cur[len(cur)-1] == 0 {
		cur = cur[:len(cur)-1]
	}
	return cur
}
