#!/bin/bash
# usage: try.sh <sim> <class> <engine> <n> [seed]  -- developer helper: run n runs in-process, print violations
export GOFLAGS=-mod=mod GOPROXY=off GOSUMDB=off GOTOOLCHAIN=local
cd /verif/harness && go build -o /tmp/vworker ./cmd/vworker || exit 2
/tmp/vworker run -sim $1 -class $2 -engine $3 -from 0 -to $4 -seed ${5:-1} 2>&1 | grep -v '"t":"res"\|"t":"start"' | python3 -c "
import sys,json
for l in sys.stdin:
    if not l.startswith('@@ '): print(l.rstrip()); continue
    j=json.loads(l[3:])
    if j['t']=='violation':
        print('VIOLATION run',j['run'],j['class'],'::',j['detail'])
        for t in j.get('trace',[])[-12:]: print('    ',t)
    elif j['t']=='nondet': print('NONDET',j)
    else: print(j['t'])
"
