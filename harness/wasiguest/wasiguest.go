// Package wasiguest builds the WASI shim guest: a module that imports every
// wasi_snapshot_preview1 function and exports a same-signature wrapper, so the
// harness can issue WASI calls "as a guest" through a real engine and read
// the results from guest memory.
package wasiguest

import (
	"context"
	"encoding/binary"
	"fmt"

	"github.com/tetratelabs/wazero/api"

	"verifharness/wasmb"
)

type sig struct {
	name   string
	params string // 'i' i32, 'I' i64
	noRes  bool
}

var sigs = []sig{
	{"args_get", "ii", false}, {"args_sizes_get", "ii", false},
	{"environ_get", "ii", false}, {"environ_sizes_get", "ii", false},
	{"clock_res_get", "ii", false}, {"clock_time_get", "iIi", false},
	{"fd_advise", "iIIi", false}, {"fd_allocate", "iII", false},
	{"fd_close", "i", false}, {"fd_datasync", "i", false},
	{"fd_fdstat_get", "ii", false}, {"fd_fdstat_set_flags", "ii", false}, {"fd_fdstat_set_rights", "iII", false},
	{"fd_filestat_get", "ii", false}, {"fd_filestat_set_size", "iI", false}, {"fd_filestat_set_times", "iIIi", false},
	{"fd_pread", "iiiIi", false}, {"fd_prestat_get", "ii", false}, {"fd_prestat_dir_name", "iii", false},
	{"fd_pwrite", "iiiIi", false}, {"fd_read", "iiii", false}, {"fd_readdir", "iiiIi", false},
	{"fd_renumber", "ii", false}, {"fd_seek", "iIii", false}, {"fd_sync", "i", false}, {"fd_tell", "ii", false},
	{"fd_write", "iiii", false},
	{"path_create_directory", "iii", false}, {"path_filestat_get", "iiiii", false},
	{"path_filestat_set_times", "iiiiIIi", false}, {"path_link", "iiiiiii", false},
	{"path_open", "iiiiiIIii", false}, {"path_readlink", "iiiiii", false},
	{"path_remove_directory", "iii", false}, {"path_rename", "iiiiii", false},
	{"path_symlink", "iiiii", false}, {"path_unlink_file", "iii", false},
	{"poll_oneoff", "iiii", false}, {"proc_exit", "i", true}, {"proc_raise", "i", false},
	{"sched_yield", "", false}, {"random_get", "ii", false},
	{"sock_accept", "iii", false}, {"sock_recv", "iiiiii", false}, {"sock_send", "iiiii", false},
	{"sock_shutdown", "ii", false},
}

// Names lists the WASI functions wrapped by the shim.
func Names() []string {
	var n []string
	for _, s := range sigs {
		n = append(n, s.name)
	}
	return n
}

// NumParams returns the parameter kinds of a function ('i' or 'I').
func Params(name string) string {
	for _, s := range sigs {
		if s.name == name {
			return s.params
		}
	}
	return ""
}

const MemPages = 4

// StartMarker is the address of the start-function marker bytes.
const StartMarker = 0x80

// Binary returns the shim module.
func Binary() []byte { return BinaryNamed("") }

// BinaryNamed returns the shim with the given module name in its name section.
func BinaryNamed(moduleName string) []byte {
	m := &wasmb.Module{}
	if moduleName != "" {
		m.Name, m.NameSection = moduleName, true
	}
	type fn struct {
		idx uint32
		s   sig
		p   []wasmb.ValType
		r   []wasmb.ValType
	}
	var fns []fn
	for _, s := range sigs {
		var p []wasmb.ValType
		for _, c := range s.params {
			if c == 'I' {
				p = append(p, wasmb.I64)
			} else {
				p = append(p, wasmb.I32)
			}
		}
		var r []wasmb.ValType
		if !s.noRes {
			r = []wasmb.ValType{wasmb.I32}
		}
		idx := m.ImportFunc("wasi_snapshot_preview1", s.name, p, r)
		fns = append(fns, fn{idx, s, p, r})
	}
	// dirty(n): recursion with all-ones i64 locals kept live across the call: leaves the native stack
	// below the caller full of values whose upper halves are set, where the engine then places the
	// arguments of the host call (an i32 argument only defines the lower half of its slot).  The
	// function index is known before it is added: imports come first, then dirty, then the wrappers.
	dirtyIdx := uint32(len(fns))
	{
		const nl = 12
		locals := make([]wasmb.ValType, nl)
		c := &wasmb.Code{}
		c.LocalGet(0).I32Eqz().If(wasmb.BlockVoid).I32Const(0).Return().End()
		for i := range locals {
			locals[i] = wasmb.I64
			c.I64Const(-1).LocalGet(0).I64ExtendI32U().I64Sub().LocalSet(uint32(1 + i))
		}
		c.LocalGet(0).I32Const(1).I32Sub().Call(dirtyIdx)
		for i := range locals {
			c.LocalGet(uint32(1 + i)).I32WrapI64().I32Xor()
		}
		if got := m.AddFunc([]wasmb.ValType{wasmb.I32}, []wasmb.ValType{wasmb.I32}, locals, c.B, ""); got != dirtyIdx {
			panic("wasiguest: function index layout")
		}
	}
	for _, f := range fns {
		c := &wasmb.Code{}
		c.I32Const(6).Call(dirtyIdx).Drop()
		for i := range f.p {
			c.LocalGet(uint32(i))
		}
		c.Call(f.idx)
		m.AddFunc(f.p, f.r, nil, c.B, f.s.name)
	}
	// start-function markers (C19): s1..s3 store 1 at StartMarker+i
	for i := 0; i < 3; i++ {
		c := &wasmb.Code{}
		c.I32Const(int32(StartMarker + i)).I32Const(1).I32Store8(0)
		exp := fmt.Sprintf("s%d", i+1)
		if moduleName != "" && i == 0 {
			exp = "" // the named variant does not export s1: a configured start function may be absent
		}
		m.AddFunc(nil, nil, nil, c.B, exp)
	}
	m.Mem = &wasmb.Limits{Min: MemPages, Max: MemPages, HasMax: true}
	m.Exports = append(m.Exports, wasmb.Export{Name: "memory", Kind: wasmb.KindMemory, Idx: 0})
	return m.Encode()
}

// Guest wraps an instantiated shim.
type Guest struct {
	Mod api.Module
	Mem api.Memory
	fns map[string]api.Function
}

func New(mod api.Module) *Guest {
	g := &Guest{Mod: mod, Mem: mod.Memory(), fns: map[string]api.Function{}}
	for _, s := range sigs {
		g.fns[s.name] = mod.ExportedFunction(s.name)
	}
	return g
}

// Call invokes a WASI function through the guest and returns the errno.
func (g *Guest) Call(ctx context.Context, name string, args ...uint64) (uint32, error) {
	f := g.fns[name]
	if f == nil {
		return 0, fmt.Errorf("no such wasi function %s", name)
	}
	res, err := f.Call(ctx, args...)
	if err != nil {
		return 0, err
	}
	if len(res) == 0 {
		return 0, nil
	}
	return uint32(res[0]), nil
}

func (g *Guest) Write(off uint32, b []byte) {
	if !g.Mem.Write(off, b) {
		panic("wasiguest: write out of range")
	}
}

func (g *Guest) Read(off, n uint32) []byte {
	b, ok := g.Mem.Read(off, n)
	if !ok {
		panic("wasiguest: read out of range")
	}
	return append([]byte(nil), b...)
}

func (g *Guest) U32(off uint32) uint32 { return binary.LittleEndian.Uint32(g.Read(off, 4)) }
func (g *Guest) U64(off uint32) uint64 { return binary.LittleEndian.Uint64(g.Read(off, 8)) }
func (g *Guest) PutU32(off uint32, v uint32) {
	var b [4]byte
	binary.LittleEndian.PutUint32(b[:], v)
	g.Write(off, b[:])
}
func (g *Guest) PutU64(off uint32, v uint64) {
	var b [8]byte
	binary.LittleEndian.PutUint64(b[:], v)
	g.Write(off, b[:])
}

// Fill writes a canary pattern over [off, off+n).
func (g *Guest) Fill(off, n uint32, v byte) {
	b := make([]byte, n)
	for i := range b {
		b[i] = v
	}
	g.Write(off, b)
}

// WASI errno values used by the models.
const (
	ESUCCESS     = 0
	E2BIG        = 1
	EACCES       = 2
	EAGAIN       = 6
	EBADF        = 8
	EBUSY        = 10
	EEXIST       = 20
	EFAULT       = 21
	EINTR        = 27
	EINVAL       = 28
	EIO          = 29
	EISDIR       = 31
	ELOOP        = 32
	ENAMETOOLONG = 37
	ENOENT       = 44
	ENOSPC       = 51
	ENOSYS       = 52
	ENOTDIR      = 54
	ENOTEMPTY    = 55
	ENOTSUP      = 58
	EPERM        = 63
	EROFS        = 69
	ESPIPE       = 70
	ENOTCAPABLE  = 76
	EXDEV        = 75
)

var errnoNames = map[uint32]string{0: "ESUCCESS", 1: "E2BIG", 2: "EACCES", 6: "EAGAIN", 8: "EBADF", 10: "EBUSY", 20: "EEXIST", 21: "EFAULT", 27: "EINTR", 28: "EINVAL",
	29: "EIO", 31: "EISDIR", 32: "ELOOP", 37: "ENAMETOOLONG", 44: "ENOENT", 51: "ENOSPC", 52: "ENOSYS", 54: "ENOTDIR", 55: "ENOTEMPTY", 58: "ENOTSUP", 63: "EPERM",
	69: "EROFS", 70: "ESPIPE", 75: "EXDEV", 76: "ENOTCAPABLE"}

func ErrnoName(e uint32) string {
	if n, ok := errnoNames[e]; ok {
		return n
	}
	return fmt.Sprintf("errno(%d)", e)
}
