// Package wasmb is a small WebAssembly binary builder, independent of wazero's
// own encoders, used to build the instrument guests of the simulators.
package wasmb

import "math"

type ValType byte

const (
	I32       ValType = 0x7f
	I64       ValType = 0x7e
	F32       ValType = 0x7d
	F64       ValType = 0x7c
	V128      ValType = 0x7b
	FuncRef   ValType = 0x70
	ExternRef ValType = 0x6f
)

type FuncType struct {
	Params, Results []ValType
}

type Limits struct {
	Min    uint32
	Max    uint32
	HasMax bool
	Shared bool
}

type ImportKind byte

const (
	KindFunc   ImportKind = 0
	KindTable  ImportKind = 1
	KindMemory ImportKind = 2
	KindGlobal ImportKind = 3
)

type Import struct {
	Module, Name string
	Kind         ImportKind
	TypeIdx      uint32  // func
	Table        Table   // table
	Mem          Limits  // memory
	GlobalType   ValType // global
	GlobalMut    bool
}

type Table struct {
	Elem ValType
	Lim  Limits
}

type Global struct {
	Type ValType
	Mut  bool
	Init []byte // constant expression without the trailing end
}

type Export struct {
	Name string
	Kind ImportKind
	Idx  uint32
}

type Func struct {
	TypeIdx uint32
	Locals  []ValType
	Body    []byte // without trailing end
	Name    string
}

// Elem segment.  Mode: 0 active, 1 passive, 2 declarative.
type Elem struct {
	Mode     int
	TableIdx uint32
	Offset   []byte   // const expr without end (active)
	Funcs    []uint32 // function indices; NullAt marks ref.null entries
	NullAt   map[int]bool
	GlobalAt map[int]bool // items that are "global.get Funcs[i]" (an expression item naming a global)
}

type Data struct {
	Passive bool
	Offset  []byte
	Bytes   []byte
}

type Module struct {
	Types   []FuncType
	Imports []Import
	Funcs   []Func
	Tables  []Table
	Mem     *Limits
	Globals []Global
	Exports []Export
	Start   *uint32
	Elems   []Elem
	Datas   []Data
	Name    string
	Custom  map[string][]byte
	// NameSection emits module and function names.
	NameSection bool
	DataCount   bool
}

// AddType interns a function type.
func (m *Module) AddType(params, results []ValType) uint32 {
	for i, t := range m.Types {
		if eqVT(t.Params, params) && eqVT(t.Results, results) {
			return uint32(i)
		}
	}
	m.Types = append(m.Types, FuncType{append([]ValType(nil), params...), append([]ValType(nil), results...)})
	return uint32(len(m.Types) - 1)
}

func eqVT(a, b []ValType) bool {
	if len(a) != len(b) {
		return false
	}
	for i := range a {
		if a[i] != b[i] {
			return false
		}
	}
	return true
}

// NumImportedFuncs returns the count of function imports.
func (m *Module) NumImportedFuncs() uint32 {
	n := uint32(0)
	for _, im := range m.Imports {
		if im.Kind == KindFunc {
			n++
		}
	}
	return n
}

func (m *Module) NumImported(k ImportKind) uint32 {
	n := uint32(0)
	for _, im := range m.Imports {
		if im.Kind == k {
			n++
		}
	}
	return n
}

// ImportFunc adds a function import and returns its function index.  Must be
// called before any AddFunc result is used as an index.
func (m *Module) ImportFunc(mod, name string, params, results []ValType) uint32 {
	if len(m.Funcs) > 0 {
		panic("wasmb: import after function definitions")
	}
	ti := m.AddType(params, results)
	m.Imports = append(m.Imports, Import{Module: mod, Name: name, Kind: KindFunc, TypeIdx: ti})
	return m.NumImportedFuncs() - 1
}

// AddFunc appends a function and returns its function index.
func (m *Module) AddFunc(params, results []ValType, locals []ValType, body []byte, export string) uint32 {
	ti := m.AddType(params, results)
	m.Funcs = append(m.Funcs, Func{TypeIdx: ti, Locals: locals, Body: body, Name: export})
	idx := m.NumImportedFuncs() + uint32(len(m.Funcs)) - 1
	if export != "" {
		m.Exports = append(m.Exports, Export{Name: export, Kind: KindFunc, Idx: idx})
	}
	return idx
}

func ULEB(v uint64) []byte {
	var b []byte
	for {
		c := byte(v & 0x7f)
		v >>= 7
		if v != 0 {
			b = append(b, c|0x80)
		} else {
			return append(b, c)
		}
	}
}

func SLEB(v int64) []byte {
	var b []byte
	for {
		c := byte(v & 0x7f)
		v >>= 7
		if (v == 0 && c&0x40 == 0) || (v == -1 && c&0x40 != 0) {
			return append(b, c)
		}
		b = append(b, c|0x80)
	}
}

func name(s string) []byte { return append(ULEB(uint64(len(s))), s...) }

func limits(l Limits) []byte {
	flag := byte(0)
	if l.HasMax {
		flag |= 1
	}
	if l.Shared {
		flag |= 2
	}
	b := []byte{flag}
	b = append(b, ULEB(uint64(l.Min))...)
	if l.HasMax {
		b = append(b, ULEB(uint64(l.Max))...)
	}
	return b
}

func section(id byte, content []byte) []byte {
	if content == nil {
		return nil
	}
	b := []byte{id}
	b = append(b, ULEB(uint64(len(content)))...)
	return append(b, content...)
}

func vec(n int, items []byte) []byte { return append(ULEB(uint64(n)), items...) }

// Encode produces the binary.
func (m *Module) Encode() []byte {
	out := []byte{0, 'a', 's', 'm', 1, 0, 0, 0}
	// custom sections first (other than name)
	for k, v := range m.Custom {
		out = append(out, section(0, append(name(k), v...))...)
	}
	if len(m.Types) > 0 {
		var b []byte
		for _, t := range m.Types {
			b = append(b, 0x60)
			b = append(b, ULEB(uint64(len(t.Params)))...)
			for _, p := range t.Params {
				b = append(b, byte(p))
			}
			b = append(b, ULEB(uint64(len(t.Results)))...)
			for _, p := range t.Results {
				b = append(b, byte(p))
			}
		}
		out = append(out, section(1, vec(len(m.Types), b))...)
	}
	if len(m.Imports) > 0 {
		var b []byte
		for _, im := range m.Imports {
			b = append(b, name(im.Module)...)
			b = append(b, name(im.Name)...)
			b = append(b, byte(im.Kind))
			switch im.Kind {
			case KindFunc:
				b = append(b, ULEB(uint64(im.TypeIdx))...)
			case KindTable:
				b = append(b, byte(im.Table.Elem))
				b = append(b, limits(im.Table.Lim)...)
			case KindMemory:
				b = append(b, limits(im.Mem)...)
			case KindGlobal:
				b = append(b, byte(im.GlobalType))
				if im.GlobalMut {
					b = append(b, 1)
				} else {
					b = append(b, 0)
				}
			}
		}
		out = append(out, section(2, vec(len(m.Imports), b))...)
	}
	if len(m.Funcs) > 0 {
		var b []byte
		for _, f := range m.Funcs {
			b = append(b, ULEB(uint64(f.TypeIdx))...)
		}
		out = append(out, section(3, vec(len(m.Funcs), b))...)
	}
	if len(m.Tables) > 0 {
		var b []byte
		for _, t := range m.Tables {
			b = append(b, byte(t.Elem))
			b = append(b, limits(t.Lim)...)
		}
		out = append(out, section(4, vec(len(m.Tables), b))...)
	}
	if m.Mem != nil {
		out = append(out, section(5, vec(1, limits(*m.Mem)))...)
	}
	if len(m.Globals) > 0 {
		var b []byte
		for _, g := range m.Globals {
			b = append(b, byte(g.Type))
			if g.Mut {
				b = append(b, 1)
			} else {
				b = append(b, 0)
			}
			b = append(b, g.Init...)
			b = append(b, 0x0b)
		}
		out = append(out, section(6, vec(len(m.Globals), b))...)
	}
	if len(m.Exports) > 0 {
		var b []byte
		for _, e := range m.Exports {
			b = append(b, name(e.Name)...)
			b = append(b, byte(e.Kind))
			b = append(b, ULEB(uint64(e.Idx))...)
		}
		out = append(out, section(7, vec(len(m.Exports), b))...)
	}
	if m.Start != nil {
		out = append(out, section(8, ULEB(uint64(*m.Start)))...)
	}
	if len(m.Elems) > 0 {
		var b []byte
		for _, e := range m.Elems {
			useExprs := len(e.NullAt) > 0 || len(e.GlobalAt) > 0
			// flags: bit0 passive/declarative, bit1 explicit table idx / declarative, bit2 exprs
			switch {
			case e.Mode == 0 && e.TableIdx == 0 && !useExprs:
				b = append(b, 0x00)
				b = append(b, e.Offset...)
				b = append(b, 0x0b)
			case e.Mode == 0 && !useExprs:
				b = append(b, 0x02)
				b = append(b, ULEB(uint64(e.TableIdx))...)
				b = append(b, e.Offset...)
				b = append(b, 0x0b, 0x00)
			case e.Mode == 1 && !useExprs:
				b = append(b, 0x01, 0x00)
			case e.Mode == 2 && !useExprs:
				b = append(b, 0x03, 0x00)
			case e.Mode == 0 && e.TableIdx == 0:
				b = append(b, 0x04)
				b = append(b, e.Offset...)
				b = append(b, 0x0b)
			case e.Mode == 0:
				b = append(b, 0x06)
				b = append(b, ULEB(uint64(e.TableIdx))...)
				b = append(b, e.Offset...)
				b = append(b, 0x0b, byte(FuncRef))
			case e.Mode == 1:
				b = append(b, 0x05, byte(FuncRef))
			default:
				b = append(b, 0x07, byte(FuncRef))
			}
			b = append(b, ULEB(uint64(len(e.Funcs)))...)
			for i, f := range e.Funcs {
				if useExprs {
					if e.NullAt[i] {
						b = append(b, 0xd0, byte(FuncRef), 0x0b)
					} else if e.GlobalAt[i] {
						b = append(b, 0x23)
						b = append(b, ULEB(uint64(f))...)
						b = append(b, 0x0b)
					} else {
						b = append(b, 0xd2)
						b = append(b, ULEB(uint64(f))...)
						b = append(b, 0x0b)
					}
				} else {
					b = append(b, ULEB(uint64(f))...)
				}
			}
		}
		out = append(out, section(9, vec(len(m.Elems), b))...)
	}
	if m.DataCount || hasPassive(m.Datas) {
		out = append(out, section(12, ULEB(uint64(len(m.Datas))))...)
	}
	if len(m.Funcs) > 0 {
		var b []byte
		for _, f := range m.Funcs {
			var body []byte
			// compress locals into runs
			var runs [][2]uint64
			for _, l := range f.Locals {
				if n := len(runs); n > 0 && runs[n-1][1] == uint64(l) {
					runs[n-1][0]++
				} else {
					runs = append(runs, [2]uint64{1, uint64(l)})
				}
			}
			body = append(body, ULEB(uint64(len(runs)))...)
			for _, r := range runs {
				body = append(body, ULEB(r[0])...)
				body = append(body, byte(r[1]))
			}
			body = append(body, f.Body...)
			body = append(body, 0x0b)
			b = append(b, ULEB(uint64(len(body)))...)
			b = append(b, body...)
		}
		out = append(out, section(10, vec(len(m.Funcs), b))...)
	}
	if len(m.Datas) > 0 {
		var b []byte
		for _, d := range m.Datas {
			if d.Passive {
				b = append(b, 0x01)
			} else {
				b = append(b, 0x00)
				b = append(b, d.Offset...)
				b = append(b, 0x0b)
			}
			b = append(b, ULEB(uint64(len(d.Bytes)))...)
			b = append(b, d.Bytes...)
		}
		out = append(out, section(11, vec(len(m.Datas), b))...)
	}
	if m.NameSection {
		var ns []byte
		if m.Name != "" {
			sub := name(m.Name)
			ns = append(ns, 0)
			ns = append(ns, ULEB(uint64(len(sub)))...)
			ns = append(ns, sub...)
		}
		var fb []byte
		cnt := 0
		base := m.NumImportedFuncs()
		for i, f := range m.Funcs {
			if f.Name == "" {
				continue
			}
			cnt++
			fb = append(fb, ULEB(uint64(base)+uint64(i))...)
			fb = append(fb, name(f.Name)...)
		}
		if cnt > 0 {
			sub := vec(cnt, fb)
			ns = append(ns, 1)
			ns = append(ns, ULEB(uint64(len(sub)))...)
			ns = append(ns, sub...)
		}
		out = append(out, section(0, append(name("name"), ns...))...)
	}
	return out
}

func hasPassive(ds []Data) bool {
	for _, d := range ds {
		if d.Passive {
			return true
		}
	}
	return false
}

// Code is an instruction emitter.
type Code struct{ B []byte }

func (c *Code) Raw(b ...byte) *Code { c.B = append(c.B, b...); return c }
func (c *Code) op(o byte, imm ...[]byte) *Code {
	c.B = append(c.B, o)
	for _, i := range imm {
		c.B = append(c.B, i...)
	}
	return c
}
func u(v uint32) []byte { return ULEB(uint64(v)) }

const BlockVoid = 0x40

func (c *Code) Unreachable() *Code       { return c.op(0x00) }
func (c *Code) Nop() *Code               { return c.op(0x01) }
func (c *Code) Block(bt byte) *Code      { return c.op(0x02, []byte{bt}) }
func (c *Code) Loop(bt byte) *Code       { return c.op(0x03, []byte{bt}) }
func (c *Code) If(bt byte) *Code         { return c.op(0x04, []byte{bt}) }
func (c *Code) Else() *Code              { return c.op(0x05) }
func (c *Code) End() *Code               { return c.op(0x0b) }
func (c *Code) Br(l uint32) *Code        { return c.op(0x0c, u(l)) }
func (c *Code) BrIf(l uint32) *Code      { return c.op(0x0d, u(l)) }
func (c *Code) Return() *Code            { return c.op(0x0f) }
func (c *Code) Call(f uint32) *Code      { return c.op(0x10, u(f)) }
func (c *Code) Drop() *Code              { return c.op(0x1a) }
func (c *Code) Select() *Code            { return c.op(0x1b) }
func (c *Code) LocalGet(i uint32) *Code  { return c.op(0x20, u(i)) }
func (c *Code) LocalSet(i uint32) *Code  { return c.op(0x21, u(i)) }
func (c *Code) LocalTee(i uint32) *Code  { return c.op(0x22, u(i)) }
func (c *Code) GlobalGet(i uint32) *Code { return c.op(0x23, u(i)) }
func (c *Code) GlobalSet(i uint32) *Code { return c.op(0x24, u(i)) }
func (c *Code) TableGet(t uint32) *Code  { return c.op(0x25, u(t)) }
func (c *Code) TableSet(t uint32) *Code  { return c.op(0x26, u(t)) }
func (c *Code) BrTable(labels []uint32, def uint32) *Code {
	c.B = append(c.B, 0x0e)
	c.B = append(c.B, u(uint32(len(labels)))...)
	for _, l := range labels {
		c.B = append(c.B, u(l)...)
	}
	c.B = append(c.B, u(def)...)
	return c
}
func (c *Code) CallIndirect(typeIdx, table uint32) *Code { return c.op(0x11, u(typeIdx), u(table)) }
func (c *Code) ReturnCall(f uint32) *Code                { return c.op(0x12, u(f)) }
func (c *Code) ReturnCallIndirect(typeIdx, table uint32) *Code {
	return c.op(0x13, u(typeIdx), u(table))
}
func (c *Code) I32Const(v int32) *Code { return c.op(0x41, SLEB(int64(v))) }
func (c *Code) I64Const(v int64) *Code { return c.op(0x42, SLEB(v)) }
func (c *Code) F32Const(v float32) *Code {
	b := math.Float32bits(v)
	return c.op(0x43, []byte{byte(b), byte(b >> 8), byte(b >> 16), byte(b >> 24)})
}
func (c *Code) F64Const(v float64) *Code {
	b := math.Float64bits(v)
	var x [8]byte
	for i := 0; i < 8; i++ {
		x[i] = byte(b >> (8 * i))
	}
	return c.op(0x44, x[:])
}
func mem(align, off uint32) []byte { return append(u(align), u(off)...) }

func (c *Code) I32Load(off uint32) *Code    { return c.op(0x28, mem(2, off)) }
func (c *Code) I64Load(off uint32) *Code    { return c.op(0x29, mem(3, off)) }
func (c *Code) F32Load(off uint32) *Code    { return c.op(0x2a, mem(2, off)) }
func (c *Code) F64Load(off uint32) *Code    { return c.op(0x2b, mem(3, off)) }
func (c *Code) I32Load8U(off uint32) *Code  { return c.op(0x2d, mem(0, off)) }
func (c *Code) I32Store(off uint32) *Code   { return c.op(0x36, mem(2, off)) }
func (c *Code) I64Store(off uint32) *Code   { return c.op(0x37, mem(3, off)) }
func (c *Code) F32Store(off uint32) *Code   { return c.op(0x38, mem(2, off)) }
func (c *Code) F64Store(off uint32) *Code   { return c.op(0x39, mem(3, off)) }
func (c *Code) I32Store8(off uint32) *Code  { return c.op(0x3a, mem(0, off)) }
func (c *Code) MemorySize() *Code           { return c.op(0x3f, []byte{0}) }
func (c *Code) MemoryGrow() *Code           { return c.op(0x40, []byte{0}) }
func (c *Code) I32Eqz() *Code               { return c.op(0x45) }
func (c *Code) I32Eq() *Code                { return c.op(0x46) }
func (c *Code) I32Ne() *Code                { return c.op(0x47) }
func (c *Code) I32LtS() *Code               { return c.op(0x48) }
func (c *Code) I32LtU() *Code               { return c.op(0x49) }
func (c *Code) I32GtS() *Code               { return c.op(0x4a) }
func (c *Code) I32GtU() *Code               { return c.op(0x4b) }
func (c *Code) I32GeU() *Code               { return c.op(0x4f) }
func (c *Code) I64Eqz() *Code               { return c.op(0x50) }
func (c *Code) I64Eq() *Code                { return c.op(0x51) }
func (c *Code) I64Ne() *Code                { return c.op(0x52) }
func (c *Code) I32Add() *Code               { return c.op(0x6a) }
func (c *Code) I32Sub() *Code               { return c.op(0x6b) }
func (c *Code) I32Mul() *Code               { return c.op(0x6c) }
func (c *Code) I32DivS() *Code              { return c.op(0x6d) }
func (c *Code) I32DivU() *Code              { return c.op(0x6e) }
func (c *Code) I32RemU() *Code              { return c.op(0x70) }
func (c *Code) I32And() *Code               { return c.op(0x71) }
func (c *Code) I32Or() *Code                { return c.op(0x72) }
func (c *Code) I32Xor() *Code               { return c.op(0x73) }
func (c *Code) I32Shl() *Code               { return c.op(0x74) }
func (c *Code) I32ShrU() *Code              { return c.op(0x76) }
func (c *Code) I64Add() *Code               { return c.op(0x7c) }
func (c *Code) I64Sub() *Code               { return c.op(0x7d) }
func (c *Code) I64Mul() *Code               { return c.op(0x7e) }
func (c *Code) I64DivS() *Code              { return c.op(0x7f) }
func (c *Code) I64Xor() *Code               { return c.op(0x85) }
func (c *Code) I32WrapI64() *Code           { return c.op(0xa7) }
func (c *Code) I32TruncF32S() *Code         { return c.op(0xa8) }
func (c *Code) I32TruncF64S() *Code         { return c.op(0xaa) }
func (c *Code) I64ExtendI32S() *Code        { return c.op(0xac) }
func (c *Code) I64ExtendI32U() *Code        { return c.op(0xad) }
func (c *Code) F32ConvertI32S() *Code       { return c.op(0xb2) }
func (c *Code) F64ConvertI32S() *Code       { return c.op(0xb7) }
func (c *Code) F64ConvertI64S() *Code       { return c.op(0xb9) }
func (c *Code) I32ReinterpretF32() *Code    { return c.op(0xbc) }
func (c *Code) I64ReinterpretF64() *Code    { return c.op(0xbd) }
func (c *Code) F32ReinterpretI32() *Code    { return c.op(0xbe) }
func (c *Code) F64ReinterpretI64() *Code    { return c.op(0xbf) }
func (c *Code) RefNull(t ValType) *Code     { return c.op(0xd0, []byte{byte(t)}) }
func (c *Code) RefIsNull() *Code            { return c.op(0xd1) }
func (c *Code) RefFunc(f uint32) *Code      { return c.op(0xd2, u(f)) }
func (c *Code) MemoryInit(seg uint32) *Code { return c.op(0xfc, u(8), u(seg), []byte{0}) }
func (c *Code) DataDrop(seg uint32) *Code   { return c.op(0xfc, u(9), u(seg)) }
func (c *Code) MemoryCopy() *Code           { return c.op(0xfc, u(10), []byte{0, 0}) }
func (c *Code) MemoryFill() *Code           { return c.op(0xfc, u(11), []byte{0}) }
func (c *Code) TableInit(seg, table uint32) *Code {
	return c.op(0xfc, u(12), u(seg), u(table))
}
func (c *Code) ElemDrop(seg uint32) *Code { return c.op(0xfc, u(13), u(seg)) }
func (c *Code) TableCopy(dst, src uint32) *Code {
	return c.op(0xfc, u(14), u(dst), u(src))
}
func (c *Code) TableGrow(t uint32) *Code { return c.op(0xfc, u(15), u(t)) }
func (c *Code) TableSize(t uint32) *Code { return c.op(0xfc, u(16), u(t)) }
func (c *Code) TableFill(t uint32) *Code { return c.op(0xfc, u(17), u(t)) }

// ConstI32 returns a constant expression body (without end).
func ConstI32(v int32) []byte { return append([]byte{0x41}, SLEB(int64(v))...) }
func ConstI64(v int64) []byte { return append([]byte{0x42}, SLEB(v)...) }
func ConstF32(v float32) []byte {
	c := &Code{}
	return c.F32Const(v).B
}
func ConstF64(v float64) []byte {
	c := &Code{}
	return c.F64Const(v).B
}
func ConstGlobalGet(i uint32) []byte { return append([]byte{0x23}, u(i)...) }
func ConstRefNull(t ValType) []byte  { return []byte{0xd0, byte(t)} }
func ConstRefFunc(f uint32) []byte   { return append([]byte{0xd2}, u(f)...) }

// DegenerateDWARF returns three custom sections (.debug_abbrev, .debug_info, .debug_line) to append to a
// binary: well-formed DWARF 4 whose single compilation unit covers code offsets 1..1+2^20 and whose line
// table has rows but NO file entries (a row without a file).  Guest-chosen bytes: whatever reads them
// while building a stack trace must cope.
func DegenerateDWARF() []byte { return DegenerateDWARFKind(0) }

// DegenerateDWARFKind: 0 = the sections above; 1 = the line table left behind after .debug_info was
// stripped; 2 = a truncated .debug_info.  Incomplete debug sections are what strip tools leave: the module
// itself is valid.
func DegenerateDWARFKind(kind int) []byte {
	le32 := func(v uint32) []byte { return []byte{byte(v), byte(v >> 8), byte(v >> 16), byte(v >> 24)} }
	abbrev := []byte{1, 0x11, 0, 0x10, 0x17, 0x11, 0x01, 0x12, 0x06, 0, 0, 0}
	infoBody := []byte{4, 0, 0, 0, 0, 0, 4, 1}
	infoBody = append(infoBody, le32(0)...)
	infoBody = append(infoBody, le32(1)...)
	infoBody = append(infoBody, le32(1<<20)...)
	info := append(le32(uint32(len(infoBody))), infoBody...)
	hdrRest := []byte{1, 1, 1, 0xfb, 14, 13, 0, 1, 1, 1, 1, 0, 0, 0, 1, 0, 0, 1, 0, 0}
	program := []byte{0x00, 5, 0x02, 1, 0, 0, 0, 0x01, 0x02, 0x80, 0x80, 0x20, 0x00, 1, 0x01} // set_address 1; copy; advance_pc 2^19; end_sequence
	lineBody := []byte{4, 0}
	lineBody = append(lineBody, le32(uint32(len(hdrRest)))...)
	lineBody = append(lineBody, hdrRest...)
	lineBody = append(lineBody, program...)
	line := append(le32(uint32(len(lineBody))), lineBody...)
	switch kind {
	case 1:
		info = nil
	case 2:
		info = info[:len(info)-3]
	}
	var out []byte
	for _, s := range []struct {
		name string
		data []byte
	}{{".debug_abbrev", abbrev}, {".debug_info", info}, {".debug_line", line}} {
		if s.data == nil {
			continue
		}
		body := append(ULEB(uint64(len(s.name))), s.name...)
		body = append(body, s.data...)
		out = append(out, 0)
		out = append(out, ULEB(uint64(len(body)))...)
		out = append(out, body...)
	}
	return out
}
