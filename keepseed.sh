#!/bin/bash
# usage: keepseed.sh <outdir> <name> "<what I ran / result>"  -- stores a confirmed seeded change under /verif/seeded/<name>
D=$1; N=$2; R=$3
mkdir -p /verif/seeded/$N
cp $D/patch.diff /verif/seeded/$N/
[ -f $D/demo_test.go ] && cp $D/demo_test.go /verif/seeded/$N/demo_test.go.txt
[ -d $D/demo ] && mkdir -p /verif/seeded/$N/demo && cp $D/demo/main.go /verif/seeded/$N/demo/main.go.txt
python3 - "$D" "$N" "$R" <<'PY'
import json,sys
d,n,r=sys.argv[1:4]
m=json.load(open(d+'/meta.json'))
m['confirmed_by_me']="confirmseed.sh: demo passes without the patch and fails with it; go build ok; tests of touched packages and root package pass with the patch"
m['checks_result']=r
json.dump(m,open('/verif/seeded/%s/meta.json'%n,'w'),indent=1)
PY
echo kept $N
