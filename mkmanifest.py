#!/usr/bin/env python3
"""Regenerates MANIFEST.json from the table below (kept in one place so the manifest stays valid)."""
import json, os, subprocess
HERE = os.path.dirname(os.path.abspath(__file__))
NA = {
 "C01": "pure function of (module, arguments, export-call sequence): no schedule, clock, I/O or fault for a simulator to vary; needs differential program generation (fuzzing), a different technique",
 "C02": "pure function of (instruction, base, offset, memory size, placement): input/program enumeration with guard pages, nothing for a scheduler or fault injector to decide",
 "C03": "totality of a pure decoder/validator on arbitrary bytes: input fuzzing, no concurrency, time, I/O or multi-party behaviour",
 "C05": "numeric instruction semantics are a pure function of operands: operand enumeration against the specification, not simulation",
 "C08": "value passing is a pure function of (signature, definition style, values): ABI cliffs are found by enumerating signatures, not schedules or faults",
 "C14": "memory limit arithmetic is a pure function of (min, max, limit, delta, offset, length); the multi-party part (shared size after growth, allocator failure) is exercised inside the C04/C12 simulators but C14 itself is boundary enumeration",
 "C15": "argument-value space of WASI calls (pointers, lengths, counts): boundary-value generation, not faults or interleavings",
}
CHECKS = {}
def claim(pid, level, text, note, technique, design_ref):
    CHECKS[pid] = dict(property_id=pid, quick_cmd="./check %s quick" % pid, thorough_cmd="./check %s thorough" % pid,
        evidence_file="/verif/evidence/%s.json" % pid, replay_cmd_template="./check replay {path}",
        level_claimed=dict(category=level, text=text, design_ref=design_ref), level_note=note, technique=technique)

claim("C16", "exploration",
  "Seeded simulation of WASI call histories issued by a real guest on both engines against a real directory, judged call by call against a POSIX-style reference model (inodes, descriptor table with lowest-free allocation, offsets, append, readdir passes with cookies) and by comparing the host tree with the model tree afterwards; a separate fault class injects short reads, torn writes and I/O errors below WASI and checks that returned data stays correct and the descriptor table stays consistent. Sampling of an unbounded history space: evidence, not proof.",
  "Trusted: the reference model (about 900 lines) and its documented result sets where POSIX/Linux leave a choice; host FS behaves like Linux tmpfs/ext4; descriptors whose opening path was renamed away are not used for operations wazero re-opens by path.",
  "deterministic simulation: tape-driven WASI histories vs executable POSIX reference model, FS fault injection (short read, torn write, EIO/EINTR/EAGAIN/EACCES), tape shrinking + replay",
  "DESIGN.md §5 C16")

claim("C17", "exploration",
  "Seeded simulation of WASI histories against a pre-populated tree mounted read-only three ways (WithReadOnlyDirMount, WithFSMount(os.DirFS), WithFSMount(MapFS)): every mutating call and path_open over the full cross product of open flags, descriptor flags and rights; invariant after every single call: a recursive snapshot (names, types, modes, sizes, SHA-256, mtime, ctime, link count) equals the initial one; liveness half: plain read-only opens, reads, readdir and stat keep returning the model's content. Class multi-mount: configurations of several mounts derived in tape-chosen ways (replaced, withdrawn), attempts through every pre-open. Class cli-mount: the command-line tool built from the tree under test runs a guest attempting every mutation under each documented read-only spelling of -mount, same snapshot invariant. Sampling, not proof.",
  "Trusted: the snapshot function and the host FS reporting ctime/mtime faithfully; atime excluded; errno of refused mutations is not judged.",
  "deterministic simulation: tape-driven adversarial WASI histories over read-only mounts, snapshot invariant after every step, model-checked reads, tape shrinking + replay",
  "DESIGN.md §5 C17")

claim("C06", "exploration",
  "Seeded simulation of call histories over tape-generated plan guests on both engines: three instances (two of one compiled module, one importing the first), 5-30 top-level calls, host calls that panic / raise runtime errors / close modules / re-enter guests at any nesting depth, guest traps of seven kinds, proc_exit, stack overflow. An executable plan model predicts error kind, results and the complete observable state (cells, globals, memory size, closed flag) of every instance after every call; worker death is a violation. Sampling, not proof.",
  "Trusted: the plan model (about 250 lines) and the wasm builder; host function is the simulator's; stack-trace text not judged. Known findings: unbounded host re-entrancy crashes the process (confirmed in a sacrificial child each run); code of an exited instance that reaches a WASI function ends in a recovered nil dereference instead of the exit error (class exit-then-wasi).",
  "deterministic simulation: tape-driven call histories with scripted host faults vs executable plan model, process-survival watchdog, tape shrinking + replay",
  "DESIGN.md §5 C06")
claim("C20", "exploration",
  "The C06 histories with a recording listener factory (all functions or a tape-chosen subset): the plan model predicts the exact event stream - before(params, call chain per call engine), after(results), abort - including unwinding through re-entrant host calls; checked by a bracketing automaton plus exact comparison, on both engines against the same model, with results/state equal to the listener-free semantics. Deep chains (31-60 frames) are judged against recorded known-finding signatures. Sampling, not proof.",
  "Trusted: plan model; i32 values are compared in their low 32 bits; the length of the slices handed to the listener is compared with the signature; the module argument of listener callbacks is not compared; tail calls carry no listeners and the recursion functions only counting ones (class overflow). Known findings recognised by signature: compiler abort cap 30, compiler stack iterator cap 29, compiler delivers no Abort on stack exhaustion. Class termination reuses the C07 scenarios under a bracket-checking listener.",
  "deterministic simulation: scripted fault histories with recording listeners vs predicted event stream (exactly-once bracketing, nesting, values, stack chains); forced interleaving of two calls on one instance from inside a listener (class concurrent-calls)",
  "DESIGN.md §5 C20")

claim("C07", "exploration",
  "One scenario per run: a non-terminating guest of a tape-chosen cycle shape (10 shapes incl. every tail-call form, indirect calls, loops entered from host callbacks; with padding) x yielding/pure spin x cause (cancel, deadline, close from another goroutine, Runtime.Close) x moment (already done, k-th host callback, second goroutine), both engines. Oracle: the call returns (watchdog: a hang is the violation), exit error with the cause's code, module closed, and for yielding guests a plan-derived bound on host callbacks after the closed flag is visible. Sampling over shapes and moments, not proof that every cycle has a check.",
  "Trusted: the shape catalogue covers the ways to form a cycle; for pure spins on the compiler the cancellation instant is not controlled (oracle is moment-independent). Watchdog 30 s is >10^4 x the healthy latency. Known findings recognised by signature: a WASI call under a concurrent Close dereferences the released system context (cycles that call sched_yield, causes close-from-goroutine / runtime-close); a guest parked in memory.atomic.wait is not woken (class parked, the call runs in an abandoned goroutine); recursion without loops is not interrupted (class recursion, sacrificial child under the watchdog). A guest sleeping in poll_oneoff with a real sleep configured is not interrupted (class sleeping). Class start-function: a guest spinning in its start-section function (inside InstantiateModule).",
  "deterministic simulation: simulator-owned cancellation moment and cause over cycle-shape guests, liveness by supervisor watchdog and step bound, replay of the scenario tape",
  "DESIGN.md §5 C07")

claim("C19", "exploration",
  "Seeded simulation of derivation trees: 2-3 simulated clients apply With... methods with overlapping arguments to ANY earlier RuntimeConfig/ModuleConfig/FSConfig node or instantiate with it (also with a sock config in the context). A persistent-value model records every node; after every step every node's structural fingerprint (reflection walk, foreign pointers by identity) must equal the one taken at its creation, and what a guest observes when instantiated with a node (args, environ, preopens and their content, module name, start functions run, stdout wiring, wall clock, random source; memory limit and features for runtime configs) must equal the model's record. Class concurrent-derivations: 2-3 baton-scheduled tasks derive from the same shared ModuleConfig/FSConfig values at the same time on an instrumented scratch copy (statement-level yields in config.go and fsconfig.go), the With... calls interleaved statement by statement; afterwards the shared receivers keep their fingerprint and every derived value shows a guest exactly the model's args, environ and pre-opens. Sampling of an unbounded tree space and of schedules.",
  "Trusted: the fingerprint walker and the persistent-value model; classes tree / tree-sock interleave at call granularity (sequential orders); class concurrent-derivations interleaves at statement granularity (go/ast instrumenter, yields switched on for this class only) - two conflicting accesses inside one statement are out of reach.",
  "deterministic simulation: tape-driven derivation trees vs persistent-value model, structural fingerprint + guest-observed refinement after every step; seeded baton scheduler over instrumented configuration code for concurrent derivations",
  "DESIGN.md §5 C19")

claim("C18", "exploration",
  "Seeded simulation of WASI scripts (20-200 calls over all exported functions incl. one-hour polls) against a default-configured guest; the byte-exact trace must be identical across two instances per engine, both engines, and child OS processes started with hostile environments (env, args, cwd, TZ, data on the real stdin, GOMAXPROCS, start time); direct closure checks (no args/env/preopens, stdin at EOF, fixed clock origins) and a marker written to fd 1/2 must not reach the process's real stdout/stderr; a real sleep is caught by the watchdog. Sampling of programs and environments.",
  "Trusted: the trace recorder; error results compared by first line; the set of host-environment variations tried is a sample.",
  "deterministic simulation: seeded WASI scripts replayed across instances, engines and hostile child-process environments; trace equality + closure invariants",
  "DESIGN.md §5 C18")

claim("C13", "fault_enumeration",
  "Per tape-generated module: determinism of the cache entry across fresh runtimes; then EVERY crash point of the add operation is enumerated on an in-memory disk (before each syscall, inside each write after k bytes) under two persistence models - process death and power loss (data durable only up to the last fsync, unsynced tail dropped or zero-filled, each directory operation persisted or lost) - and a restarted runtime must find nothing or a byte-identical entry under the final name, compile, and execute correctly; every truncation length and foreign-version entries must be reported or recompiled, never executed; read faults; two concurrent writers under a seeded baton scheduler; two runtimes sharing one warm cache object with a PCT change point among the engine's yield sites; entries of more than a megabyte (class large-entry); one of the compared processes is a position-independent build of the worker. Crash points are exhaustive per module; the module population is sampled.",
  "Trusted: the sim-disk persistence model (conservative POSIX, not a specific file system), the go/ast instrumenter that substitutes package os in internal/filecache/file_cache.go and cache.go of a scratch copy, the plan model.",
  "deterministic simulation: simulated disk (volatile/durable layers) with enumerated crash points, power-loss models, truncation sweep, read faults, transient write errors (ENOSPC/EIO once), baton-scheduled concurrent writers of the same or different modules",
  "DESIGN.md §5 C13")

claim("C10", "exploration",
  "Seeded schedule search over real goroutines under a baton scheduler on an instrumented scratch copy (statement-level yields in runtime.go, builder.go and the store files; scheduler-aware sync/atomic shims): 2-4 clients x 2-6 operations over a small name set, a fifth of the instantiations failing in a start function after the instance was registered; the recorded invoke/return history plus a sequential probe is checked with porcupine against the atomic-registry specification; additionally no operation may panic, no deadlock, and close notifications fire exactly once for closed modules. Policies: uniform, PCT-style, sequential. Sampling of schedules, not exhaustive.",
  "Trusted: the go/ast instrumenter and shims (forwarding outside the simulation), the registry specification (about 120 lines), porcupine v1.3.0. Interleavings are decided at inserted yield points only. Known findings recognised by signature (two-phase close via a relaxed specification; compiled-entry deletion via error text + history condition; an importer whose start function failed pins the exporter's allocator memory). Class async-close-concurrent: several calls in flight on one module under close-on-context-done, interleaved statement by statement (watcher goroutines are tasks: their select is polled); class async-close-finishing: the context is cancelled by the call's last host function, the watcher marks the module before, while or after the call's last closed-check. Lock-discipline assertions inserted for the fields documented as guarded (store registry, engine tables) are reported as violations. Sequential classes: context-close, registry-large (hundreds of names), resources (files released exactly once on every way of closing, with failing closes and large sparse descriptor tables).",
  "deterministic simulation: seeded baton scheduler over instrumented real code, linearizability checking of recorded histories (porcupine), lock-discipline assertions under the scheduler, schedule shrinking + replay",
  "DESIGN.md §5 C10")

claim("C11", "exploration",
  "Seeded simulation of 2-4 unlinked instances (same compiled plan and a second plan; one runtime or two runtimes sharing a compilation cache), each with its own stdout, mount and arguments; calls are tasks suspended at host calls so that an instance sits mid-call with native frames live while others mutate memory, globals, tables, dropped segments, descriptors and stdout; per instance the outcome sequence, stdout bytes, descriptor numbers, created files and final state must equal the same calls on a lone instance in a fresh runtime (wazero against wazero, same engine). Class one-config-value: every instance from ONE ModuleConfig value (default clocks and random source). Classes atomic-wait-notify (threads: a waiter in one instance, notifiers in its siblings) and shared-sock-config (experimental/sock: one socket configuration, several instantiations, a failing one first; the kernel's table of listening sockets is observed). Class emscripten-shared-env: instances sharing one Emscripten env host module whose invoke_* functions call back into the calling instance, against a per-instance model. Sampling of programs and interleavings.",
  "Trusted: the comparison harness; the host function's return value is a pure function of its arguments and the instance's own call count.",
  "deterministic simulation: tape-scheduled interleaving of suspended calls across instances vs lone-instance replay of the same call sequence",
  "DESIGN.md §5 C11")

claim("C04", "exploration",
  "Seeded simulation of instance graphs (2-6 instances) wired by imports of functions, a memory, a table and five globals, each defined locally or imported from any earlier instance, with imports drawn compatible or incompatible in exactly one respect; histories of writes/reads/grows from every side and through the host API, a caller holding the memory across a growing callee, and later instantiations whose segment offsets and initialisers read imported immutable globals, with out-of-bounds segments and trapping start functions. A single-copy model (one object per definition) must agree with every instance's own getters and with the host API after every step; instantiation must succeed exactly when the model's linking rule says so. A harness-owned always-moving mmap allocator (old region PROT_NONE) turns stale cached memory bases into immediate faults, and injects allocation failures. Both engines against the same model. Sampling, not proof.",
  "Trusted: the single-copy model and module generator (valid graphs only); wazero's documented choice to ignore an out-of-bounds active element segment is modelled as such. Known finding recognised by an immediate probe: ref.null items of active element segments do not overwrite. Class twins: several instances of one compiled module around one imported table (call_indirect, return_call_indirect).",
  "deterministic simulation: tape-driven instance graphs and cross-instance histories vs single-copy reference model, allocator fault injection (always-move + PROT_NONE, allocation failure)",
  "DESIGN.md §5 C04")

claim("C09", "exploration",
  "Seeded simulation of lifecycle histories over a small module family (exporter with function/table/reference getter, importer of function and table, private-table/funcref-global holder, importer that pauses inside a host function) in one runtime or two runtimes sharing a compilation cache: instantiate (both ways), call, pass a function reference via the host, close instance / compiled module / cache, drop host references, forced GC with drained finalizers, with a call optionally in progress. The collector runs only where the tape says. A twin runtime gets the same history without close/drop/GC; every call on a still-open instance must return the twin's result or an ordinary error, and the worker must survive. The recorded known finding (dangling reference in a private table/global) is recognised by a reference-holder analysis, skipped in the main classes and reproduced in a sacrificial child.",
  "Trusted: the reference-holder analysis that separates the known finding from everything else; GC percent -1 + explicit runtime.GC makes collection a simulator event; one definer per run (the twin never closes it).",
  "deterministic simulation: simulator-owned garbage collection and close/drop events over module graphs, twin-runtime oracle, process-survival watchdog",
  "DESIGN.md §5 C09")

claim("C12", "exploration",
  "Configuration swarm with stateful caches: per run a plan, a call script and 2-4 runtime descriptions drawn from {cache none/private/shared in-memory/directory} x capacity-from-max x allocator {default, slice, slice with spare capacity} x debug info x custom sections x listeners {none, all, subset} x close-on-context-done, executed in tape order over shared cache objects (an entry compiled under one setting is reused under another; later directory users start warm from real files); each runtime's canonical trace (results, error kinds, host-call log, final state, memory.size) must equal the baseline configuration's on the same engine. Weakest fit of the claimed set for this technique (mostly a lattice that is sampled); the simulation-relevant part is the order-dependent cache state.",
  "Trusted: the canonical trace function; the lattice is sampled, not enumerated.",
  "deterministic simulation (swarm): seeded configuration tuples and cache-touch orders vs baseline-trace oracle",
  "DESIGN.md §5 C12")

def main():
    m = dict(version=1,
      setup_cmd="./setup.sh",
      hooks=dict(guard="verif", enable="none needed: checks instrument a scratch copy of /repo at check time (go/ast rewriter in /verif/harness/cmd/vrewrite); no hook commits in /repo",
                 baseline_off_cmd="cd /repo && go build ./... && go test -vet=off -count=1 ./...", source_commits=[], add_only=True),
      engines=[dict(name="vdriver+vworker", path="/verif/harness", serves_properties=sorted(CHECKS), kind_free_text="seeded deterministic simulation with fault injection: choice tape, supervisor/worker processes, reference models, tape shrinking, replay files")],
      checks=[CHECKS[k] for k in sorted(CHECKS)],
      notes="Every check rebuilds its worker from /repo's current working tree. Exit 0 held / 1 VIOLATION with replay file / 2 harness trouble. Known findings: /verif/KNOWN_FINDINGS.jsonl.",
      not_applicable=[dict(property_id=k, reason=v) for k, v in sorted(NA.items())])
    json.dump(m, open(os.path.join(HERE, "MANIFEST.json"), "w"), indent=1)
    print("claimed:", sorted(CHECKS), "n/a:", sorted(NA))
if __name__ == "__main__":
    main()
