#!/bin/bash
# Runs every kept seeded change against the quick check of its property -- or of the properties named in
# its meta.json "caught_by" -- (scratch worktree, evidence untouched) and prints CAUGHT/MISSED per change.
# SHARD=i/N runs every N-th change starting with the i-th (one scratch worktree $MUTW per shard).
cd /verif
k=0; si=${SHARD%%/*}; sn=${SHARD##*/}
for d in seeded/*/; do
  k=$((k+1)); if [ -n "${SHARD:-}" ] && [ $(( (k-1) % sn )) -ne $(( si % sn )) ]; then continue; fi
  n=$(basename $d); id=${n%%-*}
  if grep -q '"neutralised_by"' /verif/$d/meta.json; then echo "RETIRED $n (neutralised by a later fix)"; continue; fi
  if grep -q '"uncaught"' /verif/$d/meta.json; then echo "UNCAUGHT-KNOWN $n (documented in DESIGN.md section 12)"; continue; fi
  ids=$(python3 -c "import json;print(' '.join(json.load(open('/verif/$d/meta.json')).get('caught_by',['$id'])))")
  out=$(./seedtest.sh /verif/$d/patch.diff $ids 2>&1)
  if echo "$out" | grep -q "VIOLATION"; then echo "CAUGHT $n: $(echo "$out" | grep -E '^--- .*VIOLATION' | sed 's/ (.*//' | tr '\n' ' ') $(echo "$out" | grep -o 'class=[^ ]*' | head -1)"; else echo "MISSED $n: $(echo "$out" | tail -1)"; fi
done
