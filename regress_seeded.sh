#!/bin/bash
# Runs every kept seeded change against the quick check of its property (scratch worktree, evidence untouched)
# and prints CAUGHT/MISSED per change.
cd /verif
for d in seeded/*/; do
  n=$(basename $d); id=${n%%-*}
  out=$(./seedtest.sh /verif/$d/patch.diff $id 2>&1)
  if echo "$out" | grep -q "VIOLATION"; then echo "CAUGHT $n: $(echo "$out" | grep -o 'class=[^ ]*' | head -1)"; else echo "MISSED $n: $(echo "$out" | tail -1)"; fi
done
