#!/bin/bash
# usage: seedtest.sh <patch.diff> <ID> [<ID>...]   -- applies the patch to a scratch worktree of /repo
# (/tmp/mutrepo), runs the quick checks against it without touching evidence files, and reverts.
set -u
export GOFLAGS=-mod=mod GOPROXY=off GOSUMDB=off GOTOOLCHAIN=local CGO_ENABLED=0
P=$1; shift
W=${MUTW:-/tmp/mutrepo}
[ -d $W ] || git -C /repo worktree add -q --detach $W HEAD
git -C $W checkout -q --detach $(git -C /repo rev-parse HEAD) && git -C $W checkout -q -- . && git -C $W clean -fdq
git -C $W apply "$P" || { echo "PATCH DOES NOT APPLY"; exit 2; }
(cd $W && go build ./... ) || { echo "DOES NOT BUILD"; git -C $W checkout -q -- .; exit 2; }
cd /verif
for id in "$@"; do
  s=$(date +%s)
  out=$(VERIF_REPO=$W VERIF_DIR=/verif bin/vdriver check $id --tier ${TIER:-quick} --seed ${SEED:-1} ${EXTRA:-} --no-evidence 2>&1 | grep -v "^\[vdriver\]" | cut -c1-600)
  rc=$?
  echo "--- $id ($(( $(date +%s)-s ))s): $(echo "$out" | grep -E "^VIOLATION|^OK|HARNESS" | head -1)"
  echo "$out" | grep -E "^  class=" | head -1
done
git -C $W checkout -q -- . ; git -C $W clean -fdq
