#!/bin/bash
# Builds the supervisor and pre-warms the Go build cache for both toolchains.  Offline.
set -e
cd "$(dirname "$0")"
export GOFLAGS=-mod=mod GOPROXY=off GOSUMDB=off GOTOOLCHAIN=local CGO_ENABLED=0
mkdir -p bin evidence replays
(cd harness && go build -buildvcs=false -o ../bin/vdriver ./cmd/vdriver)
(cd harness && go build -buildvcs=false -trimpath -o /dev/null ./cmd/vworker)
(cd harness && go1.26.8 build -buildvcs=false -trimpath -o /dev/null ./cmd/vworker) || true
echo setup ok
