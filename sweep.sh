#!/bin/bash
# usage: [IDS="C07 C10"] sweep.sh <tier> <seed>...   -- runs every claimed check (or those in $IDS) at the given tier for each seed, evidence untouched
cd "$(dirname "$0")"
export GOFLAGS=-mod=mod GOPROXY=off GOSUMDB=off GOTOOLCHAIN=local CGO_ENABLED=0 VERIF_DIR="$(pwd)"
tier=$1; shift
[ -x bin/vdriver ] || ./check >/dev/null 2>&1
for s in "$@"; do for id in ${IDS:-C04 C06 C07 C09 C10 C11 C12 C13 C16 C17 C18 C19 C20}; do
  out=$(bin/vdriver check $id --tier $tier --seed $s --no-evidence 2>&1)
  echo "seed=$s $id rc=$? $(echo "$out" | grep -E '^OK|^VIOLATION|HARNESS' | head -1 | cut -c1-200)"
  echo "$out" | grep -E "^  class=" | head -1 | cut -c1-400
done; done
